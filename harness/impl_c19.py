"""Implementation-side functions for C19 (weasyprint imported from REPO).

Two kinds of entry points:
* functions called through common.run_impl in pool workers (direct calls on the real code with stubs), and
* `spawn`: starts a FRESH interpreter (/venv/bin/python, chosen PYTHONHASHSEED, PYTHONPATH=REPO) that executes this
  file as a script; the script reads a job (documents + histories) from stdin, runs every history in that one process
  in the given order and prints one JSON line with the observations.  Everything a history observes is a value that
  must be a function of (document, options): PDF bytes, layout fingerprint, exception site; plus deep snapshots of the
  caller-owned objects before/after each render.
"""
import hashlib
import io
import json
import os
import re
import subprocess
import sys
import tempfile

PY = '/venv/bin/python'
EPOCH = '1700000000'
os.environ.setdefault('SOURCE_DATE_EPOCH', EPOCH)     # fontTools stamps head.modified with the clock otherwise


# =====================================================================================================================
# spawn side (runs in a pool worker of the harness)

def spawn(case):
    """case: dict(hashseed=int, job=dict, timeout=int) -> observations of the job run in a fresh interpreter."""
    repo = os.environ.get('VERIF_REPO', '/repo')
    env = dict(os.environ)
    env['PYTHONHASHSEED'] = str(case['hashseed'])
    env['PYTHONPATH'] = repo + os.pathsep + os.path.dirname(os.path.abspath(__file__))
    env['SOURCE_DATE_EPOCH'] = EPOCH
    env['VERIF_REPO'] = repo
    env.pop('PYTHONSTARTUP', None)
    crashes = []
    for attempt in range(2):     # a native crash of the interpreter (seen once, not reproducible) is retried once
        p = subprocess.run([PY, os.path.abspath(__file__)], input=json.dumps(case['job']).encode(), env=env,
                           stdout=subprocess.PIPE, stderr=subprocess.PIPE, timeout=case.get('timeout', 240))
        lines = [l for l in p.stdout.decode('utf-8', 'replace').splitlines() if l.startswith('C19JOB ')]
        if p.returncode == 0 and lines:
            out = json.loads(lines[-1][7:])
            out['hashseed'] = case['hashseed']
            out['crashes_before'] = crashes
            return out
        crashes.append({'rc': p.returncode, 'stderr': p.stderr.decode('utf-8', 'replace')[-1500:]})
    return {'crashed': True, 'attempts': crashes}


# =====================================================================================================================
# deep description of caller-owned objects (no pickling: matchers hold closures)

_ADDR = re.compile(r' at 0x[0-9a-fA-F]+|0x[0-9a-fA-F]{6,}')


def describe(obj, memo=None, depth=0):
    """A canonical nested description (str) of obj: containers in iteration order (sets sorted), instances as
    (class, attributes), functions as (qualname, closure contents); object identities only as back-references."""
    if memo is None:
        memo = {}
    if obj is None or isinstance(obj, (bool, int, float, str, bytes)):
        return repr(obj)
    oid = id(obj)
    if oid in memo:
        return '<ref %d>' % memo[oid]
    memo[oid] = len(memo)
    if depth > 60:
        return '<deep>'
    t = type(obj)
    if t in (list, tuple):
        return ('[%s]' if t is list else '(%s)') % ','.join(describe(x, memo, depth + 1) for x in obj)
    if isinstance(obj, dict):
        return '%s{%s}' % ('' if t is dict else t.__name__, ','.join(
            '%s:%s' % (describe(k, memo, depth + 1), describe(v, memo, depth + 1)) for k, v in obj.items()))
    if isinstance(obj, (set, frozenset)):
        return 'set{%s}' % ','.join(sorted(describe(x, memo, depth + 1) for x in obj))
    if isinstance(obj, (list, tuple)):
        return '%s[%s]' % (t.__name__, ','.join(describe(x, memo, depth + 1) for x in obj))
    mod = getattr(t, '__module__', '')
    if callable(obj) and hasattr(obj, '__qualname__'):
        cells = []
        for c in (getattr(obj, '__closure__', None) or ()):
            try:
                cells.append(describe(c.cell_contents, memo, depth + 1))
            except ValueError:
                cells.append('<empty cell>')
        return '<fn %s.%s(%s)>' % (getattr(obj, '__module__', ''), obj.__qualname__, ','.join(cells))
    if mod.startswith('xml.etree') or t.__name__ == 'Element':
        from xml.etree import ElementTree
        try:
            return '<etree %s>' % hashlib.sha1(ElementTree.tostring(obj)).hexdigest()
        except Exception:
            pass
    if 'cffi' in mod or mod == '_cffi_backend' or t.__name__ in ('CompiledFFI', '_CDataBase'):
        return '<cdata %s>' % _ADDR.sub('', repr(obj))
    attrs = None
    if hasattr(obj, '__dict__'):
        attrs = dict(vars(obj))
    slots = []
    for klass in t.__mro__:
        s = getattr(klass, '__slots__', ())
        slots.extend([s] if isinstance(s, str) else list(s))
    if slots:
        attrs = attrs or {}
        for s in slots:
            if s not in ('__dict__', '__weakref__') and hasattr(obj, s):
                attrs[s] = getattr(obj, s)
    if attrs is not None:
        return '<%s.%s %s>' % (mod, t.__name__, ','.join(
            '%s=%s' % (k, describe(v, memo, depth + 1)) for k, v in sorted(attrs.items())))
    return '<%s.%s %s>' % (mod, t.__name__, _ADDR.sub('', repr(obj)))


def digest(obj):
    return hashlib.sha1(describe(obj).encode('utf-8', 'replace')).hexdigest()[:16]


def html_snapshot(html):
    from xml.etree import ElementTree
    return hashlib.sha1(
        ElementTree.tostring(html.etree_element) +
        repr((html.base_url, html.media_type, getattr(html.url_fetcher, '__qualname__', None))).encode()
    ).hexdigest()[:16]


def css_snapshot(css):
    return digest((css.base_url, css.matcher, css.page_rules))


def fc_snapshot(fc):
    """(identity of the C objects and every Python attribute, files registered in the temporary folder)."""
    if fc is None:
        return None, None
    folder = getattr(fc, '_folder', None)
    files = sorted(os.listdir(folder)) if folder and os.path.isdir(folder) else []
    attrs = {k: _ADDR.sub('', repr(v)) for k, v in sorted(vars(fc).items()) if k != '_folder'}
    ids = (id(fc.font_map), id(fc._config))
    return hashlib.sha1(repr((attrs, ids)).encode()).hexdigest()[:16], files


def module_snapshot():
    """Module-level state shared by all renders."""
    import weasyprint.html as wh
    from weasyprint.css import computed_values
    from weasyprint.css.validation import properties as vp
    out = {}
    for name in ('HTML5_UA_COUNTER_STYLE', 'HTML5_UA_STYLESHEET', 'HTML5_UA_FORM_STYLESHEET', 'HTML5_PH_STYLESHEET'):
        v = getattr(wh, name, None)
        if v is None:
            continue
        if hasattr(v, 'matcher'):
            out[name] = css_snapshot(v)
        else:
            out[name] = digest(v)
    from weasyprint.css import properties
    out['INITIAL_VALUES'] = digest(dict(properties.INITIAL_VALUES))
    out['HANDLERS'] = digest(sorted(wh.HTML_HANDLERS))
    out['COMPUTERS'] = digest(sorted(computed_values.COMPUTER_FUNCTIONS))
    import weasyprint
    out['DEFAULT_OPTIONS'] = digest(weasyprint.DEFAULT_OPTIONS)
    return out


# =====================================================================================================================
# observations

def _unwrap(box):
    return getattr(box, '_box', box)


def _walk(box, out):
    box = _unwrap(box)
    text = getattr(box, 'text', None)
    out.append((type(box).__name__, box.element_tag, repr(box.position_x), repr(box.position_y),
                repr(getattr(box, 'width', None)), repr(getattr(box, 'height', None)), text))
    for c in getattr(box, 'children', ()) or ():
        _walk(c, out)


def layout_fingerprint(document):
    """Exact (repr of floats) geometry of every box of every page + page sizes, bookmarks, links, anchors."""
    pages = []
    for page in document.pages:
        recs = []
        _walk(page._page_box, recs)
        extra = (repr(page.width), repr(page.height), sorted(page.bleed.items()), repr(page.bookmarks),
                 [(l[0], repr(l[1]), repr(l[2])) for l in page.links], sorted((k, repr(v)) for k, v in page.anchors.items()))
        pages.append(hashlib.sha1(repr((recs, extra)).encode('utf-8', 'replace')).hexdigest()[:16])
    return pages


def _exc_info(exc):
    import traceback
    tb = traceback.extract_tb(exc.__traceback__)
    site = None
    repo = os.environ.get('VERIF_REPO', '/repo')
    for fr in reversed(tb):
        if '/weasyprint/' in fr.filename:
            site = [type(exc).__name__, os.path.relpath(fr.filename, repo), fr.name]
            break
    return {'type': type(exc).__name__, 'msg': str(exc)[:200], 'site': site}


_UNIQUE = [0]


class World:
    """Objects shared between the steps of one history."""
    def __init__(self, docs, tmpdir, keep_dir=None):
        self.docs = docs
        self.tmpdir = tmpdir
        self.keep_dir = keep_dir
        self.html = {}
        self.css = {}
        self.fc = None
        self.cache = None
        self.counter = 0


def _base_url(doc):
    repo = os.environ.get('VERIF_REPO', '/repo')
    return 'file://' + repo + '/tests/resources/'


def run_step(world, step):
    """One render.  step: dict(doc, html='fresh'|'shared', css='fresh'|'shared', fc='none'|'fresh'|'shared',
    cache='none'|'fresh'|'shared'|'disk', api='write'|'render', sink='bytes'|'fileobj'|'path', zoom, opts, copy)."""
    from weasyprint import HTML, CSS
    from weasyprint.text.fonts import FontConfiguration
    doc = world.docs[step['doc']]
    base = _base_url(doc)
    obs = {'doc': step['doc']}
    # ---- caller-owned objects
    fc = None
    if step['fc'] == 'fresh' or (step['fc'] == 'shared' and world.fc is None):
        fc = FontConfiguration()
        if step['fc'] == 'shared':
            world.fc = fc
    elif step['fc'] == 'shared':
        fc = world.fc
    options = dict(step.get('opts', {}))
    media = options.pop('media_type', 'print')
    if step['html'] == 'shared' and (step['doc'], media) in world.html:
        html = world.html[(step['doc'], media)]
    else:
        html = HTML(string=doc['html'], base_url=base, media_type=media)
        if step['html'] == 'shared':
            world.html[(step['doc'], media)] = html
    sheets = []
    for i, text in enumerate(doc.get('css', [])):
        key = (step['doc'], i)
        if step['css'] == 'shared' and key in world.css and step['fc'] == 'shared':
            sheets.append(world.css[key])
        else:
            css = CSS(string=text, base_url=base, font_config=fc)
            if step['css'] == 'shared' and step['fc'] == 'shared':
                world.css[key] = css
            sheets.append(css)
    cache = None
    if step['cache'] == 'fresh':
        cache = {}
    elif step['cache'] == 'shared':
        if world.cache is None:
            world.cache = {}
        cache = world.cache
    elif step['cache'] == 'disk':
        # ONE folder for every render of the interpreter that asks for a disk cache (10a3ba4: caches sharing a folder)
        cache = os.path.join(world.tmpdir, 'diskcache')
    if 'pdf_identifier' in options:
        options['pdf_identifier'] = options['pdf_identifier'].encode()
    if sheets:
        options['stylesheets'] = sheets
    if cache is not None:
        options['cache'] = cache
    # ---- snapshots before
    snap_opts = {k: v for k, v in options.items() if k != 'cache'}
    before = (html_snapshot(html), [css_snapshot(c) for c in sheets], digest(snap_opts), fc_snapshot(fc),
              digest(doc['html']))
    sheets_list_before = list(sheets)
    # ---- render
    pdf = None
    try:
        zoom = step.get('zoom', 1)
        sink = step.get('sink', 'bytes')
        target = None
        path = None
        if sink == 'fileobj':
            target = io.BytesIO()
        elif sink == 'path':
            _UNIQUE[0] += 1
            path = os.path.join(world.tmpdir, 'out%d.pdf' % _UNIQUE[0])
            target = path
        elif sink == 'pathlib':
            import pathlib
            _UNIQUE[0] += 1
            path = os.path.join(world.tmpdir, 'out%d.pdf' % _UNIQUE[0])
            target = pathlib.Path(path)
        if step.get('api', 'write') == 'write':
            ret = html.write_pdf(target, zoom=zoom, font_config=fc, **options)
        else:
            document = html.render(font_config=fc, **options)
            obs['layout'] = layout_fingerprint(document)
            obs['npages'] = len(document.pages)
            if step.get('copy_all'):
                document = document.copy(document.pages if step['doc'] % 2 else 'all')
            ret = document.write_pdf(target, zoom=zoom, **options)
            if step.get('rewrite'):
                # the same Document written a second time must give the same bytes, also when it was written with other
                # options in between (full fonts, another dpi, forms: 5894aac, 6683f8f, 5fea29c)
                if step['rewrite'] == 'other-options-between':
                    other = dict(options)
                    other['full_fonts'] = not options.get('full_fonts', False)
                    other['dpi'] = 20 if options.get('dpi') != 20 else 200
                    other['uncompressed_pdf'] = not options.get('uncompressed_pdf', False)
                    document.write_pdf(None, zoom=2, **other)
                again = document.write_pdf(None, zoom=zoom, **options)
                obs['rewrite_same'] = (hashlib.sha256(again).hexdigest() ==
                                       hashlib.sha256(ret if sink == 'bytes' else (
                                           target.getvalue() if sink == 'fileobj' else open(path, 'rb').read())).hexdigest())
        if sink == 'bytes':
            pdf = ret
        elif sink == 'fileobj':
            pdf = target.getvalue()
            obs['ret_none'] = ret is None
        else:
            pdf = open(path, 'rb').read()
            obs['ret_none'] = ret is None
        obs['pdf'] = hashlib.sha256(pdf).hexdigest()[:24]
        obs['len'] = len(pdf)
        if world.keep_dir:
            world.counter += 1
            name = os.path.join(world.keep_dir, 'step%03d.pdf' % world.counter)
            open(name, 'wb').write(pdf)
            obs['kept'] = name
    except Exception as exc:     # an exception is an observation too: it must be the same under every history
        obs['exc'] = _exc_info(exc)
    # ---- snapshots after
    after = (html_snapshot(html), [css_snapshot(c) for c in sheets], digest(snap_opts), fc_snapshot(fc),
             digest(doc['html']))
    mutated = []
    if before[0] != after[0]:
        mutated.append('html')
    if before[1] != after[1]:
        mutated.append('css')
    if before[2] != after[2] or sheets_list_before != sheets or any(a is not b for a, b in zip(sheets_list_before, sheets)):
        mutated.append('options')
    if fc is not None and before[3][0] != after[3][0]:
        mutated.append('font_config.attributes')
    obs['fc_files_added'] = (len(after[3][1]) - len(before[3][1])) if fc is not None else 0
    obs['mutated'] = mutated
    return obs


def run_history(world_args, history):
    docs, tmpdir, keep = world_args
    world = World(docs, tmpdir, keep)
    out = []
    for step in history['steps']:
        out.append(run_step(world, step))
    world.cache = None
    return out


# =====================================================================================================================
# 1. image cache: direct calls of get_image_from_uri / RasterImage.get_x_object with an in-memory fetcher

CACHE_URLS = ['mem://logo.png', 'mem://exif.jpg', 'mem://pattern.svg', 'mem://garbage', 'mem://fail', 'mem://blue.jpg']
CACHE_FILES = ['logo_small.png', 'not-optimized-exif.jpg', 'pattern.svg', None, None, 'blue.jpg']
CACHE_KEYS = [                                     # the part of a request that is in the dictionary key
    dict(),                                        # 0 defaults: orientation from-image
    dict(orientation='none'),                      # 1
    dict(orientation=(90, False)),                 # 2
    dict(options={'dpi': 96}),                     # 3
    dict(options={'optimize_images': True}),       # 4
    dict(options={'jpeg_quality': 30}),            # 5
    dict(orientation=(0, True), options={'optimize_images': True, 'jpeg_quality': 60}),   # 6
]
CACHE_MIMES = [None, 'image/svg+xml', 'image/*']   # forced_mime_type: not in the key
CACHE_RATIOS = [2, 4]          # the model's ratio r stands for dpi_ratio = 1/r; 1 = no down-sampling
_CACHE_STATE = {}


def _vid(desc):
    return int(hashlib.md5(repr(desc).encode()).hexdigest()[:7], 16)


def _fetcher_for(counter):
    repo = os.environ.get('VERIF_REPO', '/repo')

    def fetcher(url):
        counter.append(url)
        i = CACHE_URLS.index(url)
        if url == 'mem://fail':
            raise OSError('no route to host')
        if url == 'mem://garbage':
            return {'string': b'this is not an image', 'mime_type': 'image/png', 'redirected_url': url}
        data = open(os.path.join(repo, 'tests', 'resources', CACHE_FILES[i]), 'rb').read()
        mime = 'image/svg+xml' if url.endswith('.svg') else ('image/png' if url.endswith('.png') else 'image/jpeg')
        return {'string': data, 'mime_type': mime, 'redirected_url': url}
    return fetcher


def _load(cache, fetcher, u, k, m):
    from weasyprint import DEFAULT_OPTIONS
    from weasyprint.images import get_image_from_uri
    kw = dict(CACHE_KEYS[k])
    options = dict(DEFAULT_OPTIONS)
    options.update(kw.pop('options', {}))
    return get_image_from_uri(cache, fetcher, options, CACHE_URLS[u], forced_mime_type=CACHE_MIMES[m], **kw)


def _img_desc(img):
    from weasyprint.images import RasterImage
    if img is None:
        return None
    if isinstance(img, RasterImage):
        return ('raster', img.width, img.height, img.mode, img.format, hashlib.md5(img.image_data.data).hexdigest(),
                img._dpi, img.optimize, img._jpeg_quality, img.invert_colors, img.id)
    from xml.etree import ElementTree
    return ('svg', hashlib.md5(ElementTree.tostring(img._svg.tree._etree_node)).hexdigest(), img._base_url)


def _emit(img, r):
    """get_x_object(interpolate=True, dpi_ratio=1/r) -> description of the embedded object (or None: not a raster)."""
    from weasyprint.images import RasterImage
    from fractions import Fraction
    if not isinstance(img, RasterImage):
        return None
    x = img.get_x_object(True, 1 if r == 1 else float(Fraction(1, r)))
    data = b''.join(getattr(p, 'data', p) if not isinstance(p, bytes) else p for p in x.stream)
    sm = x.extra.get('SMask')
    smd = None
    if sm is not None:
        smd = hashlib.md5(b''.join(getattr(p, 'data', p) if not isinstance(p, bytes) else p for p in sm.stream)).hexdigest()
    return ('x', x.extra['Width'], x.extra['Height'], str(x.extra['ColorSpace']), str(x.extra['Filter']),
            hashlib.md5(data).hexdigest(), smd)


def cache_table():
    """Values of every data term (u, k, m, rs) measured with cold, isolated calls: tget[(u,k,m,[])] = id of the loaded
    object's description; temit[(u,k,m,[])] = id of the object embedded with ratio 1, temit[(u,k,m,[r])] with ratio 1/r;
    -1 when nothing is embedded (SVG)."""
    if 'table' in _CACHE_STATE:
        return _CACHE_STATE['table']
    fails, ok, tget, temit = [], [], [], []
    for u in range(len(CACHE_URLS)):
        try:
            _fetcher_for([])(CACHE_URLS[u])
        except OSError:
            fails.append(u)
    for u in range(len(CACHE_URLS)):
        for k in range(len(CACHE_KEYS)):
            for m in range(len(CACHE_MIMES)):
                if _load({}, _fetcher_for([]), u, k, m) is None:
                    continue
                ok.append([u, k, m])
                tget.append([[u, k, m, []], _vid(_img_desc(_load({}, _fetcher_for([]), u, k, m)))])
                for r in [1] + CACHE_RATIOS:
                    e = _emit(_load({}, _fetcher_for([]), u, k, m), r)
                    temit.append([[u, k, m, [] if r == 1 else [r]], -1 if e is None else _vid(e)])
    _CACHE_STATE['table'] = dict(fails=fails, ok=ok, tget=tget, temit=temit)
    return _CACHE_STATE['table']


def cache_history(case):
    """case: dict(history=[['get', u, k, m] | ['emit', u, k, r]]) on ONE dictionary.  Observations: for get [object index
    in order of first appearance or -1, value id]; for emit the value id or -1 (emit uses the object the last get of that
    (u, k) returned, as a render does); and the number of fetcher calls."""
    import logging
    logging.getLogger('weasyprint').setLevel(logging.CRITICAL + 1)
    cache = {}
    calls = []
    fetcher = _fetcher_for(calls)
    objs = []
    held = {}
    obs = []
    for op in case['history']:
        if op[0] == 'get':
            img = _load(cache, fetcher, op[1], op[2], op[3])
            held[(op[1], op[2])] = img
            if img is None:
                obs.append(['get', -1, -1])
            else:
                for i, o in enumerate(objs):
                    if o is img:
                        break
                else:
                    objs.append(img)
                    i = len(objs) - 1
                obs.append(['get', i, _vid(_img_desc(img))])
        else:
            img = held.get((op[1], op[2]))
            e = _emit(img, op[3]) if img is not None else None
            obs.append(['emit', -1 if e is None else _vid(e)])
    out = dict(obs=obs, nfetch=len(calls), fetched=calls)
    out.update(cache_table())
    return out


# =====================================================================================================================
# 2. resource names: direct calls on pdf.stream.Stream

def _parse_name(key, category):
    key = str(key)
    if category == 'ExtGState':
        if key[0] in 'aA':
            return ['A', key[0] == 'A', key[1:]]
        return ['S', int(key[1:])]
    if category == 'XObject':
        if key[0] == 'x':
            return ['X', int(key[1:])]
        return ['I', int(key[1:-1]), key[-1] == '1']
    if category == 'Pattern':
        return ['P', int(key[1:])]
    return ['Sh', int(key[1:])]


class _StubImage:
    def __init__(self, ident, log):
        self.id = ident
        self._log = log

    def get_x_object(self, interpolate, dpi_ratio):
        import pydyf
        self._log.append(('i%s%d' % (self.id, int(interpolate)), dpi_ratio))
        return pydyf.Stream([b''], pydyf.Dictionary({'Type': '/XObject'}))


def names_case(case):
    """case: dict(calls=[[kind, sid, ...]]) ; kinds alpha(a, stroke) state group pattern shading image(id, interp, ratio).
    Streams are numbered in creation order (0 = the page stream)."""
    import pydyf
    from types import SimpleNamespace
    from weasyprint.matrix import Matrix
    from weasyprint.pdf.stream import Stream
    images = {}
    stub_images, chosen = {}, []
    resources = pydyf.Dictionary({
        'ExtGState': pydyf.Dictionary(), 'XObject': pydyf.Dictionary(), 'Pattern': pydyf.Dictionary(),
        'Shading': pydyf.Dictionary(), 'ColorSpace': pydyf.Dictionary()})
    streams = [Stream({}, (0, 0, 10, 10), resources, images, False, compress=False)]
    res = [resources]
    names = []
    for c in case['calls']:
        kind, sid = c[0], c[1]
        if sid >= len(streams):
            return {'bad_sid': True}
        st = streams[sid]
        if kind == 'alpha':
            before = list(st._resources['ExtGState'])
            st.set_alpha(c[2], stroke=c[3])
            key = ('A' if c[3] else 'a') + str(c[2])
            assert key in st._resources['ExtGState'], (key, before)
            names.append(_parse_name(key, 'ExtGState'))
        elif kind == 'state':
            before = set(st._resources['ExtGState'])
            st.set_state(pydyf.Dictionary({'Type': '/ExtGState'}))
            new = [k for k in st._resources['ExtGState'] if k not in before]
            names.append(_parse_name(new[0], 'ExtGState') if len(new) == 1 else ['?', new])
        elif kind == 'group':
            g = st.add_group(0, 0, 5, 5)
            streams.append(g)
            res.append(g._resources)
            names.append(_parse_name(g.id, 'XObject'))
        elif kind == 'pattern':
            p = st.add_pattern(0, 0, 5, 5, 5, 5, Matrix())
            streams.append(p)
            res.append(p._resources)
            names.append(_parse_name(p.id, 'Pattern'))
        elif kind == 'shading':
            sh = st.add_shading(2, 'RGB', (0, 1), (0, 0, 1, 1), False, pydyf.Dictionary())
            names.append(_parse_name(sh.id, 'Shading'))
        elif kind == 'image':
            img = stub_images.setdefault(c[2], _StubImage(c[2], chosen))
            n = st.add_image(img, c[3], c[4])
            names.append(_parse_name(n, 'XObject'))
    dicts = [[[_parse_name(k, cat) for k in r[cat]] for cat in ('ExtGState', 'XObject', 'Pattern', 'Shading')] for r in res]
    set_orders = [list(v['dpi_ratios']) for v in images.values()]
    image_keys = list(images)
    # write time: _use_references picks the ratio of every image (get_x_object of the stub records it)
    from weasyprint.pdf import _use_references
    pdf = pydyf.PDF()
    resources['Font'] = None
    for r in res:
        r['Font'] = None
    _use_references(pdf, resources, images)
    imgs = [[_parse_name(k, 'XObject'), dict(chosen).get(k)] for k in image_keys]
    return dict(names=names, dicts=dicts, images=imgs, set_orders=set_orders, chosen_order=[k for k, _ in chosen])


def font_hashes(case):
    """Font.hash / Font.name for the fonts of a small render: must be md5-derived from the description string."""
    import logging
    logging.getLogger('weasyprint').setLevel(logging.CRITICAL + 1)
    from weasyprint import HTML
    document = HTML(string=case['html'], base_url=_base_url(None)).render()
    got = []

    def finisher(doc, pdf):
        for key, font in doc.fonts.items():
            from weasyprint.text.ffi import ffi, pango
            got.append([font.hash, font.name.decode(), font.family.decode(), font.weight, font.style])
    pdf = document.write_pdf(finisher=finisher, pdf_identifier=b'x')
    import re
    return dict(fonts=got, base_fonts=sorted(set(m.decode() for m in re.findall(rb'/BaseFont /([A-Z]{6}\+[^\s/>]+)', pdf))))


# =====================================================================================================================
# 3. zoom: generate_pdf on stub pages (exact rationals in, floats out) and full renders read back with pdfread

def zoom_direct(case):
    """case: dict(zoom='n/d', pages=[dict(w,h,bleed=[l,t,r,b],links=[[x1,y1,x2,y2]],anchors=[[x,y]],bookmarks=[[x,y]])])
    -> per page MediaBox/TrimBox/BleedBox, CTM in effect inside Page.paint, link Rects, destination points (floats as
    exact 'n/d' strings)."""
    from fractions import Fraction
    from types import SimpleNamespace
    import pydyf
    from weasyprint import DEFAULT_OPTIONS
    from weasyprint.document import Document, DocumentMetadata, Page
    from weasyprint.draw import stacked
    from weasyprint.pdf import generate_pdf

    ctms = []

    class StubPage(Page):
        def __init__(self):
            pass

        def paint(self, stream, scale=1):
            with stacked(stream):
                stream.transform(a=scale, d=scale)
                ctms.append(tuple(stream.ctm.values))

    pages = []
    boxes = []
    for pi, p in enumerate(case['pages']):
        page = StubPage()
        page.width, page.height = Fraction(p['w']), Fraction(p['h'])
        page.bleed = dict(zip(('left', 'top', 'right', 'bottom'), (Fraction(b) for b in p['bleed'])))
        page.links = []
        pb = []
        for li, r in enumerate(p.get('links', [])):
            box = SimpleNamespace()
            pb.append(box)
            page.links.append(('external', 'https://example.org/%d' % li, tuple(Fraction(x) for x in r), box))
        boxes.append(pb)
        page.anchors = {'a%d_%d' % (pi, i): (Fraction(x), Fraction(y), Fraction(x), Fraction(y)) for i, (x, y) in enumerate(p.get('anchors', []))}
        page.bookmarks = [(1, 'b%d' % i, (Fraction(x), Fraction(y)), 'open') for i, (x, y) in enumerate(p.get('bookmarks', []))]
        page.forms = {None: []}
        pages.append(page)
    zoom = Fraction(case['zoom'])
    zf = float(zoom)
    document = Document(pages, DocumentMetadata(), None, SimpleNamespace(font_map=None))
    pdf = generate_pdf(document, None, zf, **dict(DEFAULT_OPTIONS))

    def q(x):
        return str(Fraction(x))
    out = []
    page_objs = [o for o in pdf.objects if isinstance(o, pydyf.Dictionary) and o.get('Type') == '/Page']
    names = {}
    if 'Names' in pdf.catalog and 'Dests' in pdf.catalog['Names']:
        arr = pdf.catalog['Names']['Dests']['Names']
        for i in range(0, len(arr), 2):
            names[arr[i].string] = arr[i + 1]
    outl = [o for o in pdf.objects if isinstance(o, pydyf.Dictionary) and 'Title' in o and 'Dest' in o]
    for pi, (po, p) in enumerate(zip(page_objs, case['pages'])):
        rec = dict(media=[q(x) for x in po['MediaBox']], trim=[q(x) for x in po['TrimBox']], bleed=[q(x) for x in po['BleedBox']],
                   ctm=[q(x) for x in ctms[pi]],
                   rects=[[q(x) for x in b.link_annotation['Rect']] for b in boxes[pi]],
                   dests=[[q(names['a%d_%d' % (pi, i)][2]), q(names['a%d_%d' % (pi, i)][3])] for i in range(len(p.get('anchors', [])))],
                   outlines=[[q(o['Dest'][2]), q(o['Dest'][3])] for o in outl if o['Title'].string.startswith('b') and
                             o['Dest'][0] == pdf.page_references[pi]])
        out.append(rec)
    return dict(pages=out, zoom_float=q(zf))


def _num(x):
    return float(x) if isinstance(x, (int, float)) else None


def read_pdf_geometry(data):
    """Everything positional in a PDF: page boxes, annotation rectangles, destinations, outline destinations, the CTM
    set up by the first two cm operators of each page and the rest of the page content (as text)."""
    import pdfread
    d = pdfread.parse(data)
    out = {'problems': d.problems[:3], 'pages': []}
    for p in d.pages():
        rec = {}
        for k in ('MediaBox', 'TrimBox', 'BleedBox'):
            v = d.resolve(p.get(k))
            rec[k] = [_num(x) for x in v] if v else None
        annots = []
        for a in d.resolve(p.get('Annots')) or []:
            a = d.resolve(a)
            da = a.get('DA')
            fs = None
            if da is not None:
                m = re.search(rb'/\S+\s+([-0-9.]+)\s+Tf', bytes(da))
                fs = float(m.group(1)) if m else None
            ap_bbox = None
            ap = d.resolve(a.get('AP'))
            if ap:
                n = d.resolve(ap.get('N'))
                if isinstance(n, dict):
                    for v in n.values():
                        v = d.resolve(v)
                        if isinstance(v, pdfread.StreamObj) and 'BBox' in v.dict:
                            ap_bbox = [_num(x) for x in d.resolve(v.dict['BBox'])]
                            m = re.search(rb'/\S+\s+([-0-9.]+)\s+Tf', d.stream_data(v) or b'')
                            if m:
                                fs = fs if fs is not None else float(m.group(1))
                elif isinstance(n, pdfread.StreamObj) and 'BBox' in n.dict:
                    ap_bbox = [_num(x) for x in d.resolve(n.dict['BBox'])]
            annots.append({'subtype': str(a.get('Subtype')), 'rect': [_num(x) for x in d.resolve(a.get('Rect'))],
                           'font_size': fs, 'ap_bbox': ap_bbox})
        rec['annots'] = annots
        content = d.page_content(p) or b''
        ops = pdfread.tokenize_content(content)
        m = [1.0, 0.0, 0.0, 1.0, 0.0, 0.0]
        ncm = 0
        rest_from = 0
        for i, (op, args) in enumerate(ops):
            if op == 'cm':
                a, b, c, dd, e, f = [float(x) for x in args]
                m = [a * m[0] + b * m[2], a * m[1] + b * m[3], c * m[0] + dd * m[2], c * m[1] + dd * m[3],
                     e * m[0] + f * m[2] + m[4], e * m[1] + f * m[3] + m[5]]
                ncm += 1
                if ncm == 2:
                    rest_from = i + 1
                    break
            elif op != 'q':
                break
        rec['ctm'] = m
        rec['ncm'] = ncm
        # operators after the scale matrix: numbers kept as numbers (compared with a tolerance: pydyf prints 6 decimals
        # and a 1e-17 prints as '0.'), everything else as text
        rec['rest'] = [[op, [float(a) if isinstance(a, (int, float)) and not isinstance(a, bool) else repr(a) for a in args]]
                       for op, args in ops[rest_from:]]
        rec['nops'] = len(ops)
        out['pages'].append(rec)
    dests = []
    root = d.root or {}
    names = d.resolve(root.get('Names')) or {}
    dn = d.resolve(names.get('Dests')) or {}
    arr = d.resolve(dn.get('Names')) or []
    for i in range(0, len(arr), 2):
        dest = d.resolve(arr[i + 1])
        dests.append([bytes(arr[i]).decode('latin1'), _num(dest[2]), _num(dest[3])])
    out['dests'] = dests
    outl = []
    for o in d.objects.values():
        if isinstance(o, dict) and 'Title' in o and 'Dest' in o:
            dest = d.resolve(o['Dest'])
            outl.append([o['Title'].text() if hasattr(o['Title'], 'text') else str(o['Title']), _num(dest[2]), _num(dest[3])])
    out['outlines'] = outl
    return out


def zoom_render(case):
    """case: dict(html, css, opts, zooms=[floats]) -> geometry of the PDF at every zoom (fresh render each time) and at
    every zoom from ONE Document written several times."""
    import logging
    for name in ('weasyprint', 'fontTools'):
        logging.getLogger(name).setLevel(logging.CRITICAL + 1)
    from weasyprint import HTML
    opts = dict(case.get('opts', {}))
    opts['pdf_identifier'] = b'c19'
    opts.pop('media_type', None)
    out = {'fresh': [], 'same_document': []}
    for z in case['zooms']:
        pdf = HTML(string=case['html'], base_url=_base_url(None)).write_pdf(zoom=z, uncompressed_pdf=True, **opts)
        out['fresh'].append(read_pdf_geometry(pdf))
    # one Document written at every zoom
    document = HTML(string=case['html'], base_url=_base_url(None)).render(**opts)
    out['layout'] = layout_fingerprint(document)
    for z in case['zooms']:
        pdf = document.write_pdf(zoom=z, uncompressed_pdf=True, **opts)
        g = read_pdf_geometry(pdf)
        out['same_document'].append({'pages': [{k: p[k] for k in ('MediaBox', 'rest', 'ctm')} for p in g['pages']]})
    # keep the result small: identical op lists are sent once
    seen = {}
    for group in (out['fresh'], out['same_document']):
        for g in group:
            for p in g['pages']:
                key = json.dumps(p['rest'])
                if key in seen:
                    p['rest'] = {'same_as': seen[key]}
                else:
                    seen[key] = len(seen)
                    p['rest'] = {'id': seen[key], 'ops': p['rest']}
    return out


# =====================================================================================================================
# 4. Document.copy

def copy_direct(case):
    """case: dict(n=number of pages, sel=None ('all') | [indices], as_iter=bool) on a Document of stub pages."""
    from types import SimpleNamespace
    from weasyprint.document import Document
    pages = [SimpleNamespace(idx=i) for i in range(case['n'])]
    meta, fetcher, fc = object(), object(), object()
    d = Document(pages, meta, fetcher, fc)
    d.fonts['k'] = 'font'
    if case['sel'] is None:
        c = d.copy()
    else:
        sel = [pages[i] for i in case['sel']]
        c = d.copy(iter(sel) if case.get('as_iter') else (tuple(sel) if case.get('as_tuple') else sel))
    return dict(pages=[p.idx for p in c.pages], same_objects=all(p is pages[p.idx] for p in c.pages), is_list=isinstance(c.pages, list),
                meta=c.metadata is meta, fetcher=c.url_fetcher is fetcher, fc=c.font_config is fc, fonts=len(c.fonts),
                original=[p.idx for p in d.pages], original_fonts=len(d.fonts), new_object=c is not d,
                aliased=(c.pages is d.pages))


def _page_text_ops(d, page):
    """Content of a page with resource names replaced by their rank of first use (names are document-wide counters)."""
    import pdfread
    ops = pdfread.tokenize_content(d.page_content(page) or b'')
    ren = {}
    out = []
    for op, args in ops:
        a2 = []
        for a in args:
            if isinstance(a, pdfread.Name) and op in ('Do', 'gs', 'scn', 'SCN', 'sh', 'Tf', 'cs', 'CS'):
                a2.append(ren.setdefault(str(a), '#%d' % len(ren)) if not str(a).startswith(('Device', 'Pattern')) else str(a))
            else:
                a2.append(repr(a))
        out.append((op, a2))
    return hashlib.sha1(repr(out).encode()).hexdigest()[:16], len(ops)


def copy_render(case):
    """case: dict(html, css, sels=[[indices]]) -> per selection: number of pages, per page (MediaBox, content hash modulo
    resource numbering) next to the same for the full document; layout of the pages of the copy."""
    import logging
    for name in ('weasyprint', 'fontTools'):
        logging.getLogger(name).setLevel(logging.CRITICAL + 1)
    import pdfread
    from weasyprint import HTML
    document = HTML(string=case['html'], base_url=_base_url(None)).render()
    full = document.write_pdf(pdf_identifier=b'c19', uncompressed_pdf=True)
    d = pdfread.parse(full)
    fullp = [([_num(x) for x in d.resolve(p['MediaBox'])],) + _page_text_ops(d, p) for p in d.pages()]
    out = dict(npages=len(document.pages), full=fullp, copies=[])
    before = layout_fingerprint(document)
    for sel in case['sels']:
        sel = [i % len(document.pages) for i in sel] if document.pages else []
        c = document.copy([document.pages[i] for i in sel])
        try:
            pdf = c.write_pdf(pdf_identifier=b'c19', uncompressed_pdf=True)
            dd = pdfread.parse(pdf)
            pp = [([_num(x) for x in dd.resolve(p['MediaBox'])],) + _page_text_ops(dd, p) for p in dd.pages()]
            out['copies'].append(dict(sel=sel, pages=pp, problems=dd.problems[:2]))
        except Exception as exc:
            out['copies'].append(dict(sel=sel, exc=_exc_info(exc)))
    again = document.write_pdf(pdf_identifier=b'c19', uncompressed_pdf=True)
    out['original_unchanged'] = (again == full) and layout_fingerprint(document) == before
    return out


# =====================================================================================================================
# 5. flex / grid write-back: one layout pass against two passes of the same boxes

def _flex_html(c):
    items = []
    n = 0
    for li, line in enumerate(c['lines']):
        w = 120 // len(line)
        for it in line:
            n += 1
            st = ['flex:none', 'width:%dpx' % w, 'box-sizing:content-box', 'margin:0', 'overflow:hidden' if it.get('clip') else '']
            if it['style'] is not None:
                st.append('height:%spx' % it['style'])
            if it['pad']:
                st.append('padding-top:%spx' % it['pad'])
            st.append('align-self:%s' % ('stretch' if it['stretch'] else 'flex-start'))
            items.append('<div id="i%d" style="%s">%s</div>' % (n, ';'.join(x for x in st if x), '<br>'.join('a' * 1 for _ in range(it['nat'] // 10))))
    cst = ['display:flex', 'flex-wrap:wrap', 'width:120px', 'align-content:stretch', 'row-gap:%spx' % c['gap']]
    if c['cross'] is not None:
        cst.append('height:%spx' % c['cross'])
    return '<div id="f" style="%s">%s</div>' % (';'.join(cst), ''.join(items))


_STYLE = ('<style>@page{size:400px 1000px;margin:0}body{margin:0;font-family:weasyprint;font-size:10px;line-height:10px}'
          '@font-face{font-family:weasyprint;src:url(weasyprint.otf)}</style>')


def _geom(pages, ids):
    out = {}
    for pi, page in enumerate(pages):
        stack = [page._page_box]
        while stack:
            b = _unwrap(stack.pop())
            el = getattr(b, 'element', None)
            if el is not None and el.get('id') in ids and b.element_tag == 'div' and type(b).__name__ not in ('LineBox', 'TextBox'):
                out.setdefault(el.get('id'), (pi, b.position_x, b.position_y, b.width, b.height, b.padding_top))
            stack.extend(getattr(b, 'children', ()) or ())
    return out


def relayout_flex(case):
    """case: dict(cross, gap, lines=[[dict(style, nat, pad, stretch)]]) -> for the one-pass and the two-pass document:
    per line (y of its items relative to the container, content heights of the items); number of flex_layout calls."""
    import logging
    logging.getLogger('weasyprint').setLevel(logging.CRITICAL + 1)
    from fractions import Fraction
    from weasyprint import HTML
    from weasyprint.layout import flex as flexmod, block as blockmod
    counts = {}
    orig = flexmod.flex_layout

    def counting(context, box, *a, **k):
        if box.element is not None and box.element.get('id') == 'f':
            counts['n'] = counts.get('n', 0) + 1
        return orig(context, box, *a, **k)
    flex = _flex_html(case)
    wrap = '<div style="break-inside:avoid">%s<div style="height:600px"></div></div>' % flex
    docs = {'once': _STYLE + wrap, 'twice': _STYLE + '<div style="height:500px"></div>' + wrap}
    out = {}
    nitems = sum(len(l) for l in case['lines'])
    ids = {'f'} | {'i%d' % (i + 1) for i in range(nitems)}
    blockmod.flex_layout = counting
    try:
        for name, html in docs.items():
            counts.clear()
            document = HTML(string=html, base_url=_base_url(None)).render()
            g = _geom(document.pages, ids)
            f = g['f']
            lines = []
            n = 0
            for line in case['lines']:
                ys, hs = [], []
                for it in line:
                    n += 1
                    pi, x, y, w, h, pt = g['i%d' % n]
                    ys.append(str(Fraction(y) - Fraction(f[2])))
                    hs.append(str(Fraction(h)))
                lines.append([ys, hs])
            out[name] = dict(lines=lines, passes=counts.get('n', 0), page=f[0], container_height=str(Fraction(f[4])))
    finally:
        blockmod.flex_layout = orig
    return out


def relayout_grid(case):
    """The grid counterpart of the witness (not modelled): auto tracks, one stretched and one start-aligned item."""
    import logging
    logging.getLogger('weasyprint').setLevel(logging.CRITICAL + 1)
    from weasyprint import HTML
    grid = ('<div id=f style="display:grid;grid-template-%s:auto auto;width:100px;height:100px">'
            '<div id=i1>a</div><div id=i2 style="%s-self:start">bbb<br>b</div></div>' % (
                'columns' if case['axis'] == 'x' else 'rows', 'justify' if case['axis'] == 'x' else 'align'))
    wrap = '<div style="break-inside:avoid">%s<div style="height:600px"></div></div>' % grid
    out = {}
    for name, html in (('once', _STYLE + wrap), ('twice', _STYLE + '<div style="height:500px"></div>' + wrap)):
        document = HTML(string=html, base_url=_base_url(None)).render()
        g = _geom(document.pages, {'f', 'i1', 'i2'})
        f = g['f']
        out[name] = [[g[k][1] - f[1], g[k][2] - f[2], g[k][3], g[k][4]] for k in ('i1', 'i2')]
    return out


# =====================================================================================================================
# 7. witnesses of the findings handed over (each returns True while the defect is still there)

def probe(case):
    import gc
    import logging
    for name in ('weasyprint', 'fontTools'):
        logging.getLogger(name).setLevel(logging.CRITICAL + 1)
    import weasyprint
    from weasyprint import HTML
    base = _base_url(None)
    name = case['name']
    ident = dict(pdf_identifier=b'c19')
    if name == 'inline-svg':
        out = {}
        for kind, body in (
                ('mask', '<svg xmlns="http://www.w3.org/2000/svg" width="50" height="30"><defs><mask id="m"><rect width="10" height="12" '
                         'fill="white"/></mask></defs><rect width="20" height="12" fill="teal" mask="url(#m)"/></svg>'),
                ('pattern', '<svg xmlns="http://www.w3.org/2000/svg" width="50" height="30"><defs><pattern id="p" width="4" height="4" '
                            'patternUnits="userSpaceOnUse"><rect width="2" height="2"/></pattern></defs><rect width="20" height="12" '
                            'fill="url(#p)"/></svg>')):
            h = HTML(string=body)
            before = html_snapshot(h)
            a = h.write_pdf(**ident)
            b = h.write_pdf(**ident)
            out[kind] = dict(tree_mutated=html_snapshot(h) != before, second_render_differs=a != b,
                             fresh_equals_first=HTML(string=body).write_pdf(**ident) == a)
        return out
    if name == 'marks':
        d = HTML(string='<style>@page{size:100px;bleed:3px;marks:crop cross}</style><p>abc').render()
        a, b, c = (d.write_pdf(**ident) for _ in range(3))
        return dict(rewrite_differs=a != b, grows=len(a) < len(b) < len(c))
    if name == 'cache-options':
        doc = '<img src="not-optimized.jpg" style="width:5px"><img src="logo_small.png" style="width:10px">'
        h = HTML(string=doc, base_url=base)
        out = {}
        for opt, first, second in (('dpi', {'dpi': 30}, {'dpi': 300}), ('optimize_images', {}, {'optimize_images': True}),
                                   ('jpeg_quality', {'jpeg_quality': 10}, {'jpeg_quality': 90})):
            cache = {}
            h.write_pdf(cache=cache, **ident, **first)
            warm = h.write_pdf(cache=cache, **ident, **second)
            cold = h.write_pdf(**ident, **second)
            out[opt] = warm != cold
        return out
    if name == 'cache-dpi':
        small = '<img src="logo_small.png" style="width:10px">'
        large = '<img src="logo_small.png" style="width:100px">'
        cache = {}
        HTML(string=small, base_url=base).write_pdf(cache=cache, dpi=96, **ident)
        warm = HTML(string=large, base_url=base).write_pdf(cache=cache, dpi=96, **ident)
        cold = HTML(string=large, base_url=base).write_pdf(dpi=96, **ident)
        g = lambda pdf: sorted((o.dict.get('Width'), o.dict.get('Height')) for o in __import__('pdfread').parse(pdf).objects.values()
                               if hasattr(o, 'dict') and o.dict.get('Subtype') == 'Image')
        jpg = '<img src="not-optimized.jpg" style="width:2px">'
        cache = {}
        j = [HTML(string=jpg, base_url=base).write_pdf(cache=cache, dpi=96, **ident) for _ in range(3)]
        return dict(warm_differs=warm != cold, warm_images=g(warm), cold_images=g(cold), jpeg_reencoded_each_render=len(set(j)) > 1)
    if name == 'fonts-persist':
        html = ('<style>@font-face{font-family:weasyprint;src:url(weasyprint.otf)}body{font-family:weasyprint}</style><p>abc')
        d1 = HTML(string=html, base_url=base).render()
        d1.write_pdf(**ident)
        later = d1.write_pdf(full_fonts=True, **ident)
        first = HTML(string=html, base_url=base).render().write_pdf(full_fonts=True, **ident)
        return dict(full_fonts_after_default_write_differs=later != first, sizes=[len(later), len(first)])
    if name == 'copy-pdfua':
        d = HTML(string='<p>abc<p style="break-before:page">def').render()
        ok = d.write_pdf(pdf_variant='pdf/ua-1', **ident)
        try:
            import pdfread
            pdf = d.copy(d.pages[1:]).write_pdf(pdf_variant='pdf/ua-1', **ident)
            dd = pdfread.parse(pdf)
            text = b''.join(dd.page_content(p) or b'' for p in dd.pages())
            full = pdfread.parse(ok)
            return dict(raises=False, copy_ok=len(dd.pages()) == 1 and len(full.pages()) == 2 and not dd.problems and
                        'StructTreeRoot' in (dd.root or {}), npages=len(dd.pages()))
        except Exception as exc:
            return dict(raises=True, exc=_exc_info(exc), original_ok=len(ok) > 0)
    if name == 'attachment-clock':
        import datetime as dt

        class Clock(dt.datetime):
            t = 0

            @classmethod
            def now(cls, tz=None):
                return dt.datetime(2020, 1, 1, 0, 0, cls.t)
        doc = '<link rel=attachment href="pattern.png"><p>abc'
        old = weasyprint.datetime
        weasyprint.datetime = Clock
        try:
            Clock.t = 1
            a = HTML(string=doc, base_url=base).write_pdf(**ident)
            a2 = HTML(string=doc, base_url=base).write_pdf(**ident)
            Clock.t = 2
            b = HTML(string=doc, base_url=base).write_pdf(**ident)
        finally:
            weasyprint.datetime = old
        return dict(depends_on_clock=a != b, same_clock_same_bytes=a == a2)
    if name == 'attachment-reuse':
        import tempfile
        from weasyprint import Attachment
        path = os.path.join(tempfile.mkdtemp(prefix='c19-'), 'a.txt')
        open(path, 'w').write('hello')
        atts = [Attachment(filename=path)]
        try:
            a = HTML(string='<p>abc').write_pdf(attachments=atts, **ident)
            b = HTML(string='<p>abc').write_pdf(attachments=atts, **ident)
            d = HTML(string='<p>abc').render()
            c = [d.write_pdf(attachments=atts, **ident) for _ in range(2)]
            return dict(raises=False, same=a == b == c[0] == c[1] and b'hello' in HTML(string='<p>abc').write_pdf(
                attachments=atts, uncompressed_pdf=True, **ident))
        except Exception as exc:
            return dict(raises=True, same=False, exc=_exc_info(exc))
    if name == 'diskcache':
        import tempfile
        folder = os.path.join(tempfile.mkdtemp(prefix='c19-'), 'cache')
        doc = '<img src="pattern.png">'
        ref = HTML(string=doc, base_url=base).write_pdf(**ident)
        d1 = HTML(string=doc, base_url=base).render(cache=folder)
        d2 = HTML(string=doc, base_url=base).render(cache=folder)
        del d1
        gc.collect()
        try:
            return dict(raises=False, same=d2.write_pdf(**ident) == ref)
        except FileNotFoundError as exc:
            return dict(raises=True, exc=_exc_info(exc))
    if name == 'form-zoom':
        doc = '<input value=abc style="font-size:10px">'
        out = []
        for z in (1, 2):
            g = read_pdf_geometry(HTML(string=doc).write_pdf(zoom=z, pdf_forms=True, uncompressed_pdf=True, **ident))
            a = [x for p in g['pages'] for x in p['annots'] if x['subtype'] == 'Widget'][0]
            out.append([a['rect'][2] - a['rect'][0], a['font_size']])
        return dict(widths=[out[0][0], out[1][0]], font_sizes=[out[0][1], out[1][1]], font_not_scaled=out[0][1] == out[1][1])
    if name == 'bleedbox':
        doc = '<style>@page{size:100px;bleed:20px}</style><p>abc'
        g1 = read_pdf_geometry(HTML(string=doc).write_pdf(zoom=1, **ident))['pages'][0]
        g2 = read_pdf_geometry(HTML(string=doc).write_pdf(zoom=2, **ident))['pages'][0]
        return dict(zoom1=g1['BleedBox'], zoom2=g2['BleedBox'], not_linear=[2 * x for x in g1['BleedBox']] != g2['BleedBox'])
    raise ValueError(name)


def run_direct(fn, cases):
    out = []
    for c in cases:
        try:
            out.append(['ok', globals()[fn](c)])
        except Exception as exc:
            out.append(['exc', _exc_info(exc)])
    return out


# =====================================================================================================================
# 8. argument containers the caller reuses: the same list / dict / registry objects handed to 1..4 successive calls

def _items_snapshot(lst):
    """Identity, type and (for plain values) value of every item of a caller's list."""
    if lst is None:
        return None
    return [(type(x).__name__, id(x), x if isinstance(x, (str, bytes, int, bool)) else None) for x in lst]


def reuse_history(case, tmpdir):
    """case: dict(html, sheets=[dict(kind, path)], attachments=None|[dict(kind, path)], fc, cs, ncalls, api, html_obj,
    opts, fetcher).  The files exist already (written once by the harness: same paths, same ctime for every process).
    The SAME list / dict / FontConfiguration / CounterStyle / fetcher objects are given to every call."""
    import pathlib
    from weasyprint import HTML, CSS, Attachment, default_url_fetcher
    from weasyprint.css.counters import CounterStyle
    from weasyprint.text.fonts import FontConfiguration
    base = _base_url(None)
    fc = FontConfiguration() if case['fc'] == 'shared' else None
    cs = CounterStyle() if case['cs'] == 'shared' else None
    calls_seen = []

    def fetcher(url, *a, **k):
        calls_seen.append(url)
        return default_url_fetcher(url, *a, **k)
    html_kw = {'url_fetcher': fetcher} if case.get('fetcher') == 'custom' else {}
    opened = []

    def build(spec, what):
        k, p = spec['kind'], spec['path']
        if k == 'filename':
            return p
        if k == 'path':
            return pathlib.Path(p)
        if k == 'url':
            return pathlib.Path(p).as_uri()
        if k == 'fileobj':
            f = open(p, 'rb')
            opened.append(f)
            return f
        if k == 'css':
            return CSS(filename=p, font_config=fc, counter_style=cs)
        if k == 'object':
            return Attachment(filename=p)
        raise ValueError(k)
    sheets = [build(x, 'sheet') for x in case['sheets']]
    attachments = None if case.get('attachments') is None else [build(x, 'att') for x in case['attachments']]
    options = dict(case.get('opts', {}))
    options['pdf_identifier'] = b'c19'
    options['stylesheets'] = sheets
    if attachments is not None:
        options['attachments'] = attachments
    snap0 = dict(sheets=_items_snapshot(sheets), attachments=_items_snapshot(attachments),
                 options=digest({k: v for k, v in options.items() if k not in ('stylesheets', 'attachments')}),
                 options_keys=sorted(options), css=[css_snapshot(x) for x in sheets if hasattr(x, 'matcher')],
                 att_objects=[digest({k: v for k, v in vars(x).items() if k != 'md5'}) for x in (attachments or []) if isinstance(x, Attachment)])
    html = HTML(string=case['html'], base_url=base, **html_kw)
    html0 = html_snapshot(html)
    out = {'calls': [], 'containers': [], 'registry': []}
    for k in range(case['ncalls']):
        if case.get('html_obj') == 'fresh' and k:
            html = HTML(string=case['html'], base_url=base, **html_kw)
            html0 = html_snapshot(html)
        obs = {}
        try:
            if case['api'] == 'render':
                document = html.render(font_config=fc, counter_style=cs, **options)
                obs['layout'] = layout_fingerprint(document)
                pdf = document.write_pdf(**options)
            else:
                pdf = html.write_pdf(font_config=fc, counter_style=cs, **options)
            obs['pdf'] = hashlib.sha256(pdf).hexdigest()[:24]
            obs['len'] = len(pdf)
        except Exception as exc:
            obs['exc'] = _exc_info(exc)
        out['calls'].append(obs)
        snap = dict(sheets=_items_snapshot(sheets), attachments=_items_snapshot(attachments),
                    options=digest({k2: v for k2, v in options.items() if k2 not in ('stylesheets', 'attachments')}),
                    options_keys=sorted(options), css=[css_snapshot(x) for x in sheets if hasattr(x, 'matcher')],
                    att_objects=[digest({k2: v for k2, v in vars(x).items() if k2 != 'md5'}) for x in (attachments or []) if isinstance(x, Attachment)])
        out['containers'].append({
            'sheet_kinds': ['parsed' if hasattr(x, 'matcher') else 'raw' for x in sheets],
            'sheets_same': snap['sheets'] == snap0['sheets'] and options['stylesheets'] is sheets,
            'attachments_same': snap['attachments'] == snap0['attachments'] and options.get('attachments') is attachments,
            'options_same': snap['options'] == snap0['options'] and snap['options_keys'] == snap0['options_keys'],
            'css_objects_same': snap['css'] == snap0['css'],
            'attachment_objects_same': snap['att_objects'] == snap0['att_objects'],
            'html_same': html_snapshot(html) == html0,
            'changed_items': [[a[0], b[0]] for a, b in zip(snap0['sheets'], snap['sheets']) if a != b][:3] +
                             [[a[0], b[0]] for a, b in zip(snap0['attachments'] or [], snap['attachments'] or []) if a != b][:3]})
        out['registry'].append({'fc_files': fc_snapshot(fc)[1] if fc is not None else None,
                                'cs_keys': sorted(cs) if cs is not None else None})
    out['fetcher_calls'] = len(calls_seen)
    for f in opened:
        f.close()
    return out


# =====================================================================================================================
# 9. the environment is an input, the clock is not: SOURCE_DATE_EPOCH x a FAKED clock.  The property says the output
# does not depend on the clock, so the check may set the clock as it likes: every render of this section runs under a
# frozen clock chosen by the harness (datetime.now / utcnow / today, time.time / time_ns replaced in every loaded
# module), two renders of one input run under two different clocks.  Every date of the PDF is read back.

_HEAD_DIFF = 2082844800      # seconds from 1904-01-01 (head table) to 1970-01-01


class _FakeClock:
    """with _FakeClock(t) as clock: every Python-level read of the system clock gives t (seconds since 1970, UTC);
    clock.readers = the modules that read it."""

    def __init__(self, t):
        self.t = t
        self.readers = []

    def _who(self):
        try:
            return sys._getframe(2).f_globals.get('__name__', '?')
        except Exception:
            return '?'

    def __enter__(self):
        import datetime as dt
        import time as tm
        clock = self
        real_dt = self.real_dt = dt.datetime
        self.real_time, self.real_ns = tm.time, tm.time_ns

        class Meta(type):
            def __instancecheck__(cls, obj):
                return isinstance(obj, real_dt)

        class FakeDatetime(real_dt, metaclass=Meta):
            @classmethod
            def now(cls, tz=None):
                clock.readers.append(clock._who())
                return real_dt.fromtimestamp(clock.t, tz)

            @classmethod
            def utcnow(cls):
                clock.readers.append(clock._who())
                return real_dt.fromtimestamp(clock.t, dt.timezone.utc).replace(tzinfo=None)

            @classmethod
            def today(cls):
                clock.readers.append(clock._who())
                return real_dt.fromtimestamp(clock.t)

        def fake_time():
            clock.readers.append(clock._who())
            return float(clock.t)

        def fake_time_ns():
            clock.readers.append(clock._who())
            return int(clock.t) * 10 ** 9
        self.fakes = {id(real_dt): FakeDatetime, id(self.real_time): fake_time, id(self.real_ns): fake_time_ns}
        self.reals = {id(FakeDatetime): real_dt, id(fake_time): self.real_time, id(fake_time_ns): self.real_ns}
        self._swap(self.fakes)
        return self

    @staticmethod
    def _swap(table):
        for mod in list(sys.modules.values()):
            d = getattr(mod, '__dict__', None)
            if not isinstance(d, dict):
                continue
            for k, v in list(d.items()):
                new = table.get(id(v))
                if new is not None and isinstance(k, str):
                    try:
                        d[k] = new
                    except Exception:
                        pass

    def __exit__(self, *exc):
        self._swap(self.reals)      # also in the modules imported while the clock was faked
        return False


def _head_modified(data):
    """head.modified (64 bits, seconds since 1904) of an sfnt font program, read from the bytes: fontTools' reader drops
    the upper 32 bits."""
    import struct
    if len(data) < 12 or data[:4] not in (b'OTTO', b'\x00\x01\x00\x00', b'true'):
        return None
    ntables = struct.unpack('>H', data[4:6])[0]
    for i in range(ntables):
        rec = data[12 + 16 * i:28 + 16 * i]
        if len(rec) == 16 and rec[:4] == b'head':
            offset = struct.unpack('>I', rec[8:12])[0]
            if len(data) >= offset + 36:
                return struct.unpack('>q', data[offset + 28:offset + 36])[0]
    return None


_FONT_FILE_DATES = []


def font_file_dates():
    """head.modified / head.created (seconds since 1970) of every font file the documents can use: the fonts fontconfig
    lists and the fonts of tests/resources.  These dates are inputs."""
    if _FONT_FILE_DATES:
        return _FONT_FILE_DATES[0]
    from fontTools.ttLib import TTFont
    repo = os.environ.get('VERIF_REPO', '/repo')
    res = os.path.join(repo, 'tests', 'resources')
    paths = [os.path.join(res, f) for f in sorted(os.listdir(res)) if f.lower().endswith(('.otf', '.ttf', '.woff', '.woff2', '.ttc'))]
    try:
        out = subprocess.run(['fc-list', ':', 'file'], stdout=subprocess.PIPE, stderr=subprocess.DEVNULL, timeout=30).stdout.decode()
        paths += sorted({l.split(':')[0].strip() for l in out.splitlines() if l.strip()})
    except Exception:
        pass
    dates = set()
    for p in paths:
        for index in range(8):
            try:
                f = TTFont(p, fontNumber=index, lazy=True)
                dates.add(int(f['head'].modified) - _HEAD_DIFF)
                dates.add(int(f['head'].created) - _HEAD_DIFF)
                f.close()
            except Exception:
                break
            if not p.lower().endswith('.ttc'):
                break
    _FONT_FILE_DATES.append(sorted(dates))
    return _FONT_FILE_DATES[0]


def pdf_dates(pdf):
    """Every date written into the PDF: the (CreationDate, ModDate) of the Info dictionary and of every XMP packet, of the
    /Params of every /EmbeddedFile (with its /CheckSum), head.modified of every font program, and every other string of
    any object that looks like a PDF date."""
    import pdfread
    doc = pdfread.parse(pdf)
    out = {'info': None, 'xmp': [], 'files': [], 'fonts': [], 'others': [], 'problems': list(doc.problems)[:3]}
    info_ref = doc.trailer.get('Info')
    info_num = getattr(info_ref, 'num', None)
    info = doc.info
    if info is not None:
        out['info'] = [info[k].text() if isinstance(info.get(k), pdfread.PDFString) else None for k in ('CreationDate', 'ModDate')]
    seen_params = set()

    def strings(v, path, acc, depth=0):
        if depth > 12:
            return
        if isinstance(v, pdfread.PDFString):
            t = v.text()
            if re.match(r'^D:\d{4}', t):
                acc.append((path, t))
        elif isinstance(v, dict):
            for k, x in v.items():
                strings(x, path + '/' + str(k), acc, depth + 1)
        elif isinstance(v, (list, tuple)):
            for x in v:
                strings(x, path + '[]', acc, depth + 1)
    for num, obj in sorted(doc.objects.items()):
        dic = obj.dict if isinstance(obj, pdfread.StreamObj) else obj if isinstance(obj, dict) else None
        if dic is None:
            continue
        typ, sub = str(dic.get('Type', '')), str(dic.get('Subtype', ''))
        if typ == 'EmbeddedFile':
            params = doc.resolve(dic.get('Params')) or {}
            seen_params.add(id(params))
            cs = params.get('CheckSum')
            data = doc.stream_data(obj)
            out['files'].append({'md5': hashlib.md5(data).hexdigest() if data is not None else None,
                                 'checksum': bytes(cs).hex() if isinstance(cs, pdfread.PDFString) else None,
                                 'created': params['CreationDate'].text() if isinstance(params.get('CreationDate'), pdfread.PDFString) else None,
                                 'modified': params['ModDate'].text() if isinstance(params.get('ModDate'), pdfread.PDFString) else None})
            continue
        if typ == 'Metadata' and sub == 'XML':
            data = doc.stream_data(obj) or b''
            c = re.search(rb'<[\w:]*CreateDate[^>]*>([^<]*)<', data)
            m = re.search(rb'<[\w:]*ModifyDate[^>]*>([^<]*)<', data)
            out['xmp'].append([c.group(1).decode('utf-8', 'replace') if c else None, m.group(1).decode('utf-8', 'replace') if m else None])
            for x in re.findall(rb'<[\w:]*[Dd]ate[\w:]*[^>]*>([^<]*)<', data):      # MetadataDate and the like
                t = x.decode('utf-8', 'replace')
                if t not in out['xmp'][-1]:
                    out['others'].append(['xmp', t])
            continue
        if isinstance(obj, pdfread.StreamObj) and (any(k in dic for k in ('Length1', 'Length2', 'Length3')) or
                                                   sub in ('OpenType', 'Type1C', 'CIDFontType0C')):
            stamp = _head_modified(doc.stream_data(obj) or b'')      # a bare CFF program has no head table
            if stamp is not None:
                out['fonts'].append(stamp - _HEAD_DIFF)
            continue
        acc = []
        strings(dic, 'obj%d' % num if num != info_num else 'Info', acc)
        for path, t in acc:
            if path in ('Info/CreationDate', 'Info/ModDate'):
                continue
            out['others'].append([path, t])
    return out


def _build_attachment(spec, opened):
    """spec: dict(kind, path|url|text, created, modified) -> what the caller puts into options['attachments']."""
    import datetime as dt
    import pathlib
    from weasyprint import Attachment
    k = spec['kind']
    if k == 'raw-str':
        return spec['path']
    if k == 'raw-pathlib':
        return pathlib.Path(spec['path'])
    if k == 'raw-url':
        return spec['url']
    if k == 'raw-fileobj':
        f = open(spec['path'], 'rb')
        opened.append(f)
        return f
    kw = {}
    for name in ('created', 'modified'):
        if spec.get(name) is not None:
            d = dt.datetime.fromtimestamp(spec[name], dt.timezone.utc)
            kw[name] = d if spec.get('aware') else d.replace(tzinfo=None)
    if spec.get('name'):
        kw['name'] = spec['name']
    if spec.get('description'):
        kw['description'] = spec['description']
    if k == 'obj-guess':
        return Attachment(spec['path'], **kw)
    if k == 'obj-filename':
        return Attachment(filename=spec['path'], **kw)
    if k == 'obj-url':
        return Attachment(url=spec['url'], **kw)
    if k == 'obj-string':
        return Attachment(string=spec['text'], **kw)
    if k == 'obj-fileobj':
        f = open(spec['path'], 'rb')
        opened.append(f)
        return Attachment(file_obj=f, **kw)
    raise ValueError(k)


def epoch_case(case):
    """case: dict(html, css=[str], opts, atts=[spec], epoch=str|None, clocks=[t, ...], api='write'|'render').
    One render per clock of `clocks`, each with SOURCE_DATE_EPOCH = epoch (None: removed from the environment) and the
    system clock frozen at that t; the caller's Attachment objects are built anew for every render, under its clock."""
    import datetime as dt
    from weasyprint import HTML, CSS
    from weasyprint.text.fonts import FontConfiguration
    base = _base_url(None)
    saved = os.environ.get('SOURCE_DATE_EPOCH')
    runs = []
    file_times = {}
    for spec in case.get('atts', []):
        if spec['kind'] == 'obj-filename':
            # the times of the file, as Attachment.__init__ converts them (naive local time, written with a Z)
            import calendar
            st = [dt.datetime.fromtimestamp(f(spec['path'])) for f in (os.path.getctime, os.path.getmtime)]
            file_times[spec['path']] = [calendar.timegm(x.timetuple()) for x in st]
    try:
        for t in case['clocks']:
            if case['epoch'] is None:
                os.environ.pop('SOURCE_DATE_EPOCH', None)
            else:
                os.environ['SOURCE_DATE_EPOCH'] = case['epoch']
            obs = {'clock': t}
            opened = []
            try:
                with _FakeClock(t) as clock:
                    try:
                        options = dict(case.get('opts', {}))
                        media = options.pop('media_type', 'print')
                        if 'pdf_identifier' in options:
                            options['pdf_identifier'] = options['pdf_identifier'].encode()
                        fc = FontConfiguration() if any('@font-face' in c for c in case.get('css', [])) else None
                        sheets = [CSS(string=c, base_url=base, font_config=fc) for c in case.get('css', [])]
                        if sheets:
                            options['stylesheets'] = sheets
                        if case.get('atts'):
                            options['attachments'] = [_build_attachment(s, opened) for s in case['atts']]
                        html = HTML(string=case['html'], base_url=base, media_type=media)
                        if case.get('api') == 'render':
                            pdf = html.render(font_config=fc, **options).write_pdf(**options)
                        else:
                            pdf = html.write_pdf(font_config=fc, **options)
                    finally:
                        obs['clock_readers'] = sorted(set(clock.readers))
                obs['pdf'] = hashlib.sha256(pdf).hexdigest()[:24]
                obs['len'] = len(pdf)
                obs['dates'] = pdf_dates(pdf)
                if case.get('keep_dir'):
                    os.makedirs(case['keep_dir'], exist_ok=True)
                    name = os.path.join(case['keep_dir'], 'epoch-%s-clock-%s.pdf' % (case['epoch'], t))
                    open(name, 'wb').write(pdf)
                    obs['kept'] = name
            except Exception as exc:
                obs['exc'] = _exc_info(exc)
            finally:
                for f in opened:
                    f.close()
            runs.append(obs)
    finally:
        if saved is None:
            os.environ.pop('SOURCE_DATE_EPOCH', None)
        else:
            os.environ['SOURCE_DATE_EPOCH'] = saved
    import time as tm
    return {'runs': runs, 'file_times': file_times, 'font_file_dates': font_file_dates(),
            'clock_restored': type(tm.time).__name__ == 'builtin_function_or_method' and dt.datetime.__name__ == 'datetime',
            'hashseed': os.environ.get('PYTHONHASHSEED')}


def run_job(job):
    """Everything one job asks for, in this process: direct calls, histories, reuse histories (module state watched)."""
    import time
    t0 = time.time()
    result = _run_job(job)
    result['seconds'] = round(time.time() - t0, 3)
    return result


def _run_job(job):
    result = {'histories': [], 'module_mutated': []}
    if 'direct' in job:
        result['direct'] = run_direct(job['direct']['fn'], job['direct']['cases'])
    with tempfile.TemporaryDirectory(prefix='c19-') as tmpdir:
        keep = job.get('keep_dir')
        if keep:
            os.makedirs(keep, exist_ok=True)
        mod_before = module_snapshot() if job.get('module_snapshot', True) else None
        for h in job.get('histories', []):
            result['histories'].append({'id': h['id'], 'steps': run_history((job['docs'], tmpdir, keep), h)})
        if 'reuse' in job:
            result['reuse'] = [reuse_history(c, tmpdir) for c in job['reuse']]
        if mod_before is not None:
            mod_after = module_snapshot()
            result['module_mutated'] = sorted(k for k in mod_before if mod_before[k] != mod_after.get(k))
    result['hashseed_seen'] = os.environ.get('PYTHONHASHSEED')
    result['hash_probe'] = hash('c19-probe') & 0xffff
    return result


def _quiet():
    import logging
    for name in ('weasyprint', 'weasyprint.progress', 'fontTools'):
        logging.getLogger(name).setLevel(logging.CRITICAL + 1)


def main():
    _quiet()
    job = json.loads(sys.stdin.read())
    import weasyprint   # noqa
    if 'zygote_jobs' in job:
        return zygote_main(job)
    sys.stdout.write('C19JOB ' + json.dumps(run_job(job)) + '\n')


# =====================================================================================================================
# zygote: ONE interpreter per hash seed imports weasyprint (1.2 s) and forks a child per job; a child is a copy of an
# interpreter that has imported the package and rendered nothing, i.e. it has the state of a fresh interpreter, with
# the hash seed of the zygote.  Results come back through files.

def zygote_main(job):
    import signal
    import weasyprint.document, weasyprint.pdf, weasyprint.text.fonts, weasyprint.images   # noqa
    jobs = job['zygote_jobs']
    par = max(1, int(job.get('parallel', 4)))
    tmp = tempfile.mkdtemp(prefix='c19z-')
    results = [None] * len(jobs)
    attempts = [0] * len(jobs)
    crashes = [[] for _ in jobs]
    pending = list(range(len(jobs)))
    running = {}
    while pending or running:
        while pending and len(running) < par:
            i = pending.pop(0)
            attempts[i] += 1
            sys.stdout.flush()
            pid = os.fork()
            if pid == 0:
                code = 0
                try:
                    signal.alarm(int(job.get('job_timeout', 300)))
                    out = run_job(jobs[i])
                    with open(os.path.join(tmp, 'r%d.json' % i), 'w') as f:
                        json.dump(out, f)
                except BaseException as exc:     # noqa
                    code = 3
                    try:
                        with open(os.path.join(tmp, 'e%d.txt' % i), 'w') as f:
                            import traceback
                            f.write(traceback.format_exc()[-3000:])
                    except Exception:
                        pass
                os._exit(code)
            running[pid] = i
        pid, status = os.wait()
        i = running.pop(pid)
        path = os.path.join(tmp, 'r%d.json' % i)
        if status == 0 and os.path.exists(path):
            results[i] = json.load(open(path))
            results[i]['crashes_before'] = crashes[i]
        else:
            err = os.path.join(tmp, 'e%d.txt' % i)
            crashes[i].append({'status': status, 'stderr': open(err).read() if os.path.exists(err) else ''})
            if attempts[i] < 2:
                pending.append(i)      # a native crash (seen once, not reproducible) is retried once
            else:
                results[i] = {'crashed': True, 'attempts': crashes[i]}
    import shutil
    shutil.rmtree(tmp, ignore_errors=True)
    sys.stdout.write('C19JOB ' + json.dumps({'zygote': results}) + '\n')


def zygote(case):
    """case: dict(hashseed, jobs=[job], parallel, timeout) -> list of job results (see run_job), each produced by a forked
    copy of one freshly started interpreter with that PYTHONHASHSEED."""
    repo = os.environ.get('VERIF_REPO', '/repo')
    env = dict(os.environ)
    env['PYTHONHASHSEED'] = str(case['hashseed'])
    env['PYTHONPATH'] = repo + os.pathsep + os.path.dirname(os.path.abspath(__file__))
    env['SOURCE_DATE_EPOCH'] = EPOCH
    env['VERIF_REPO'] = repo
    env.pop('PYTHONSTARTUP', None)
    payload = {'zygote_jobs': case['jobs'], 'parallel': case.get('parallel', 4), 'job_timeout': case.get('job_timeout', 300)}
    p = subprocess.run([PY, os.path.abspath(__file__)], input=json.dumps(payload).encode(), env=env,
                       stdout=subprocess.PIPE, stderr=subprocess.PIPE, timeout=case.get('timeout', 900))
    lines = [l for l in p.stdout.decode('utf-8', 'replace').splitlines() if l.startswith('C19JOB ')]
    if p.returncode != 0 or not lines:
        return [{'crashed': True, 'attempts': [{'rc': p.returncode, 'stderr': p.stderr.decode('utf-8', 'replace')[-2000:]}]}
                for _ in case['jobs']]
    outs = json.loads(lines[-1][7:])['zygote']
    for o in outs:
        o['hashseed'] = case['hashseed']
    return outs


if __name__ == '__main__':
    main()
