"""Implementation-side functions for C19 (weasyprint imported from REPO).

Two kinds of entry points:
* functions called through common.run_impl in pool workers (direct calls on the real code with stubs), and
* `spawn`: starts a FRESH interpreter (/venv/bin/python, chosen PYTHONHASHSEED, PYTHONPATH=REPO) that executes this
  file as a script; the script reads a job (documents + histories) from stdin, runs every history in that one process
  in the given order and prints one JSON line with the observations.  Everything a history observes is a value that
  must be a function of (document, options): PDF bytes, layout fingerprint, exception site; plus deep snapshots of the
  caller-owned objects before/after each render.
"""
import hashlib
import io
import json
import os
import re
import subprocess
import sys
import tempfile

PY = '/venv/bin/python'
EPOCH = '1700000000'


# =====================================================================================================================
# spawn side (runs in a pool worker of the harness)

def spawn(case):
    """case: dict(hashseed=int, job=dict, timeout=int) -> observations of the job run in a fresh interpreter."""
    repo = os.environ.get('VERIF_REPO', '/repo')
    env = dict(os.environ)
    env['PYTHONHASHSEED'] = str(case['hashseed'])
    env['PYTHONPATH'] = repo + os.pathsep + os.path.dirname(os.path.abspath(__file__))
    env['SOURCE_DATE_EPOCH'] = EPOCH
    env['VERIF_REPO'] = repo
    env.pop('PYTHONSTARTUP', None)
    crashes = []
    for attempt in range(2):     # a native crash of the interpreter (seen once, not reproducible) is retried once
        p = subprocess.run([PY, os.path.abspath(__file__)], input=json.dumps(case['job']).encode(), env=env,
                           stdout=subprocess.PIPE, stderr=subprocess.PIPE, timeout=case.get('timeout', 240))
        lines = [l for l in p.stdout.decode('utf-8', 'replace').splitlines() if l.startswith('C19JOB ')]
        if p.returncode == 0 and lines:
            out = json.loads(lines[-1][7:])
            out['hashseed'] = case['hashseed']
            out['crashes_before'] = crashes
            return out
        crashes.append({'rc': p.returncode, 'stderr': p.stderr.decode('utf-8', 'replace')[-1500:]})
    return {'crashed': True, 'attempts': crashes}


# =====================================================================================================================
# deep description of caller-owned objects (no pickling: matchers hold closures)

_ADDR = re.compile(r' at 0x[0-9a-fA-F]+|0x[0-9a-fA-F]{6,}')


def describe(obj, memo=None, depth=0):
    """A canonical nested description (str) of obj: containers in iteration order (sets sorted), instances as
    (class, attributes), functions as (qualname, closure contents); object identities only as back-references."""
    if memo is None:
        memo = {}
    if obj is None or isinstance(obj, (bool, int, float, str, bytes)):
        return repr(obj)
    oid = id(obj)
    if oid in memo:
        return '<ref %d>' % memo[oid]
    memo[oid] = len(memo)
    if depth > 60:
        return '<deep>'
    t = type(obj)
    if t in (list, tuple):
        return ('[%s]' if t is list else '(%s)') % ','.join(describe(x, memo, depth + 1) for x in obj)
    if isinstance(obj, dict):
        return '%s{%s}' % ('' if t is dict else t.__name__, ','.join(
            '%s:%s' % (describe(k, memo, depth + 1), describe(v, memo, depth + 1)) for k, v in obj.items()))
    if isinstance(obj, (set, frozenset)):
        return 'set{%s}' % ','.join(sorted(describe(x, memo, depth + 1) for x in obj))
    if isinstance(obj, (list, tuple)):
        return '%s[%s]' % (t.__name__, ','.join(describe(x, memo, depth + 1) for x in obj))
    mod = getattr(t, '__module__', '')
    if callable(obj) and hasattr(obj, '__qualname__'):
        cells = []
        for c in (getattr(obj, '__closure__', None) or ()):
            try:
                cells.append(describe(c.cell_contents, memo, depth + 1))
            except ValueError:
                cells.append('<empty cell>')
        return '<fn %s.%s(%s)>' % (getattr(obj, '__module__', ''), obj.__qualname__, ','.join(cells))
    if mod.startswith('xml.etree') or t.__name__ == 'Element':
        from xml.etree import ElementTree
        try:
            return '<etree %s>' % hashlib.sha1(ElementTree.tostring(obj)).hexdigest()
        except Exception:
            pass
    if 'cffi' in mod or mod == '_cffi_backend' or t.__name__ in ('CompiledFFI', '_CDataBase'):
        return '<cdata %s>' % _ADDR.sub('', repr(obj))
    attrs = None
    if hasattr(obj, '__dict__'):
        attrs = dict(vars(obj))
    slots = []
    for klass in t.__mro__:
        s = getattr(klass, '__slots__', ())
        slots.extend([s] if isinstance(s, str) else list(s))
    if slots:
        attrs = attrs or {}
        for s in slots:
            if s not in ('__dict__', '__weakref__') and hasattr(obj, s):
                attrs[s] = getattr(obj, s)
    if attrs is not None:
        return '<%s.%s %s>' % (mod, t.__name__, ','.join(
            '%s=%s' % (k, describe(v, memo, depth + 1)) for k, v in sorted(attrs.items())))
    return '<%s.%s %s>' % (mod, t.__name__, _ADDR.sub('', repr(obj)))


def digest(obj):
    return hashlib.sha1(describe(obj).encode('utf-8', 'replace')).hexdigest()[:16]


def html_snapshot(html):
    from xml.etree import ElementTree
    return hashlib.sha1(
        ElementTree.tostring(html.etree_element) +
        repr((html.base_url, html.media_type, getattr(html.url_fetcher, '__qualname__', None))).encode()
    ).hexdigest()[:16]


def css_snapshot(css):
    return digest((css.base_url, css.matcher, css.page_rules))


def fc_snapshot(fc):
    """(identity of the C objects and every Python attribute, files registered in the temporary folder)."""
    if fc is None:
        return None, None
    folder = getattr(fc, '_folder', None)
    files = sorted(os.listdir(folder)) if folder and os.path.isdir(folder) else []
    attrs = {k: _ADDR.sub('', repr(v)) for k, v in sorted(vars(fc).items()) if k != '_folder'}
    ids = (id(fc.font_map), id(fc._config))
    return hashlib.sha1(repr((attrs, ids)).encode()).hexdigest()[:16], files


def module_snapshot():
    """Module-level state shared by all renders."""
    import weasyprint.html as wh
    from weasyprint.css import computed_values
    from weasyprint.css.validation import properties as vp
    out = {}
    for name in ('HTML5_UA_COUNTER_STYLE', 'HTML5_UA_STYLESHEET', 'HTML5_UA_FORM_STYLESHEET', 'HTML5_PH_STYLESHEET'):
        v = getattr(wh, name, None)
        if v is None:
            continue
        if hasattr(v, 'matcher'):
            out[name] = css_snapshot(v)
        else:
            out[name] = digest(v)
    from weasyprint.css import properties
    out['INITIAL_VALUES'] = digest(dict(properties.INITIAL_VALUES))
    out['HANDLERS'] = digest(sorted(wh.HTML_HANDLERS))
    out['COMPUTERS'] = digest(sorted(computed_values.COMPUTER_FUNCTIONS))
    import weasyprint
    out['DEFAULT_OPTIONS'] = digest(weasyprint.DEFAULT_OPTIONS)
    return out


# =====================================================================================================================
# observations

def _unwrap(box):
    return getattr(box, '_box', box)


def _walk(box, out):
    box = _unwrap(box)
    text = getattr(box, 'text', None)
    out.append((type(box).__name__, box.element_tag, repr(box.position_x), repr(box.position_y),
                repr(getattr(box, 'width', None)), repr(getattr(box, 'height', None)), text))
    for c in getattr(box, 'children', ()) or ():
        _walk(c, out)


def layout_fingerprint(document):
    """Exact (repr of floats) geometry of every box of every page + page sizes, bookmarks, links, anchors."""
    pages = []
    for page in document.pages:
        recs = []
        _walk(page._page_box, recs)
        extra = (repr(page.width), repr(page.height), sorted(page.bleed.items()), repr(page.bookmarks),
                 [(l[0], repr(l[1]), repr(l[2])) for l in page.links], sorted((k, repr(v)) for k, v in page.anchors.items()))
        pages.append(hashlib.sha1(repr((recs, extra)).encode('utf-8', 'replace')).hexdigest()[:16])
    return pages


def _exc_info(exc):
    import traceback
    tb = traceback.extract_tb(exc.__traceback__)
    site = None
    repo = os.environ.get('VERIF_REPO', '/repo')
    for fr in reversed(tb):
        if '/weasyprint/' in fr.filename:
            site = [type(exc).__name__, os.path.relpath(fr.filename, repo), fr.name]
            break
    return {'type': type(exc).__name__, 'msg': str(exc)[:200], 'site': site}


_UNIQUE = [0]


class World:
    """Objects shared between the steps of one history."""
    def __init__(self, docs, tmpdir, keep_dir=None):
        self.docs = docs
        self.tmpdir = tmpdir
        self.keep_dir = keep_dir
        self.html = {}
        self.css = {}
        self.fc = None
        self.cache = None
        self.counter = 0


def _base_url(doc):
    repo = os.environ.get('VERIF_REPO', '/repo')
    return 'file://' + repo + '/tests/resources/'


def run_step(world, step):
    """One render.  step: dict(doc, html='fresh'|'shared', css='fresh'|'shared', fc='none'|'fresh'|'shared',
    cache='none'|'fresh'|'shared'|'disk', api='write'|'render', sink='bytes'|'fileobj'|'path', zoom, opts, copy)."""
    from weasyprint import HTML, CSS
    from weasyprint.text.fonts import FontConfiguration
    doc = world.docs[step['doc']]
    base = _base_url(doc)
    obs = {'doc': step['doc']}
    # ---- caller-owned objects
    fc = None
    if step['fc'] == 'fresh' or (step['fc'] == 'shared' and world.fc is None):
        fc = FontConfiguration()
        if step['fc'] == 'shared':
            world.fc = fc
    elif step['fc'] == 'shared':
        fc = world.fc
    options = dict(step.get('opts', {}))
    media = options.pop('media_type', 'print')
    if step['html'] == 'shared' and (step['doc'], media) in world.html:
        html = world.html[(step['doc'], media)]
    else:
        html = HTML(string=doc['html'], base_url=base, media_type=media)
        if step['html'] == 'shared':
            world.html[(step['doc'], media)] = html
    sheets = []
    for i, text in enumerate(doc.get('css', [])):
        key = (step['doc'], i)
        if step['css'] == 'shared' and key in world.css and step['fc'] == 'shared':
            sheets.append(world.css[key])
        else:
            css = CSS(string=text, base_url=base, font_config=fc)
            if step['css'] == 'shared' and step['fc'] == 'shared':
                world.css[key] = css
            sheets.append(css)
    cache = None
    if step['cache'] == 'fresh':
        cache = {}
    elif step['cache'] == 'shared':
        if world.cache is None:
            world.cache = {}
        cache = world.cache
    elif step['cache'] == 'disk':
        # one folder per render: a folder shared by two DiskCache objects is the finding c19:diskcache-del-removes-shared-folder
        _UNIQUE[0] += 1
        cache = os.path.join(world.tmpdir, 'cache%d' % _UNIQUE[0])
    if 'pdf_identifier' in options:
        options['pdf_identifier'] = options['pdf_identifier'].encode()
    if sheets:
        options['stylesheets'] = sheets
    if cache is not None:
        options['cache'] = cache
    # ---- snapshots before
    snap_opts = {k: v for k, v in options.items() if k != 'cache'}
    before = (html_snapshot(html), [css_snapshot(c) for c in sheets], digest(snap_opts), fc_snapshot(fc),
              digest(doc['html']))
    sheets_list_before = list(sheets)
    # ---- render
    pdf = None
    try:
        zoom = step.get('zoom', 1)
        sink = step.get('sink', 'bytes')
        target = None
        path = None
        if sink == 'fileobj':
            target = io.BytesIO()
        elif sink == 'path':
            _UNIQUE[0] += 1
            path = os.path.join(world.tmpdir, 'out%d.pdf' % _UNIQUE[0])
            target = path
        elif sink == 'pathlib':
            import pathlib
            _UNIQUE[0] += 1
            path = os.path.join(world.tmpdir, 'out%d.pdf' % _UNIQUE[0])
            target = pathlib.Path(path)
        if step.get('api', 'write') == 'write':
            ret = html.write_pdf(target, zoom=zoom, font_config=fc, **options)
        else:
            document = html.render(font_config=fc, **options)
            obs['layout'] = layout_fingerprint(document)
            obs['npages'] = len(document.pages)
            if step.get('copy_all'):
                document = document.copy(document.pages if step['doc'] % 2 else 'all')
            ret = document.write_pdf(target, zoom=zoom, **options)
            if step.get('rewrite'):
                # the same Document written a second time must give the same bytes
                again = document.write_pdf(None, zoom=zoom, **options)
                obs['rewrite_same'] = (hashlib.sha256(again).hexdigest() ==
                                       hashlib.sha256(ret if sink == 'bytes' else (
                                           target.getvalue() if sink == 'fileobj' else open(path, 'rb').read())).hexdigest())
        if sink == 'bytes':
            pdf = ret
        elif sink == 'fileobj':
            pdf = target.getvalue()
            obs['ret_none'] = ret is None
        else:
            pdf = open(path, 'rb').read()
            obs['ret_none'] = ret is None
        obs['pdf'] = hashlib.sha256(pdf).hexdigest()[:24]
        obs['len'] = len(pdf)
        if world.keep_dir:
            world.counter += 1
            name = os.path.join(world.keep_dir, 'step%03d.pdf' % world.counter)
            open(name, 'wb').write(pdf)
            obs['kept'] = name
    except Exception as exc:     # an exception is an observation too: it must be the same under every history
        obs['exc'] = _exc_info(exc)
    # ---- snapshots after
    after = (html_snapshot(html), [css_snapshot(c) for c in sheets], digest(snap_opts), fc_snapshot(fc),
             digest(doc['html']))
    mutated = []
    if before[0] != after[0]:
        mutated.append('html')
    if before[1] != after[1]:
        mutated.append('css')
    if before[2] != after[2] or sheets_list_before != sheets or any(a is not b for a, b in zip(sheets_list_before, sheets)):
        mutated.append('options')
    if fc is not None and before[3][0] != after[3][0]:
        mutated.append('font_config.attributes')
    obs['fc_files_added'] = (len(after[3][1]) - len(before[3][1])) if fc is not None else 0
    obs['mutated'] = mutated
    return obs


def run_history(world_args, history):
    docs, tmpdir, keep = world_args
    world = World(docs, tmpdir, keep)
    out = []
    for step in history['steps']:
        out.append(run_step(world, step))
    world.cache = None
    return out


def main():
    import logging
    for name in ('weasyprint', 'weasyprint.progress', 'fontTools'):
        logging.getLogger(name).setLevel(logging.CRITICAL + 1)
    job = json.loads(sys.stdin.read())
    import weasyprint   # noqa
    result = {'histories': [], 'module_mutated': []}
    with tempfile.TemporaryDirectory(prefix='c19-') as tmpdir:
        keep = job.get('keep_dir')
        if keep:
            os.makedirs(keep, exist_ok=True)
        mod_before = module_snapshot() if job.get('module_snapshot', True) else None
        for h in job['histories']:
            result['histories'].append({'id': h['id'], 'steps': run_history((job['docs'], tmpdir, keep), h)})
        if mod_before is not None:
            mod_after = module_snapshot()
            result['module_mutated'] = sorted(k for k in mod_before if mod_before[k] != mod_after.get(k))
    result['hashseed_seen'] = os.environ.get('PYTHONHASHSEED')
    result['hash_probe'] = hash('c19-probe') & 0xffff
    sys.stdout.write('C19JOB ' + json.dumps(result) + '\n')


if __name__ == '__main__':
    main()
