"""Implementation-side functions for C17 (run in worker processes; weasyprint imported from REPO).

1. stacking_synth / stacking_render : direct calls of the real StackingContext.from_box / from_page on synthetic
   box objects and on box trees of real renders; the result is flattened to ids.
2. render_display : full render -> uncompressed PDF -> display list decoded by c17lib (pdfread based), together
   with the layout box tree (geometry, computed colours) of the same render.
"""
import logging

KIND_OF_CLASS = {
    'BlockBox': 'KBlock', 'TableCaptionBox': 'KBlock', 'FootnoteAreaBox': 'KBlock',
    'FlexBox': 'KFlex', 'GridBox': 'KGrid', 'TableBox': 'KTable', 'InlineTableBox': 'KTable',
    'TableRowGroupBox': 'KRowGroup', 'TableRowBox': 'KRow', 'TableCellBox': 'KCell', 'LineBox': 'KLine',
    'InlineBox': 'KInline', 'TextBox': 'KText', 'InlineBlockBox': 'KInlineBlock', 'InlineFlexBox': 'KInlineFlex',
    'InlineGridBox': 'KInlineGrid', 'BlockReplacedBox': 'KBlockReplaced', 'InlineReplacedBox': 'KInlineReplaced',
    'MarginBox': 'KMargin', 'PageBox': 'KPage', 'TableColumnGroupBox': 'KOther', 'TableColumnBox': 'KOther',
}


_POINT2 = None


def point2_classes():
    """The tuple of box types of point 2 of draw_stacking_context, read from the current source (AST): the first
    `isinstance(box, (...))` test of the function that names BlockBox."""
    global _POINT2
    if _POINT2 is None:
        import ast, inspect
        from weasyprint import draw
        from weasyprint.formatting_structure import boxes as B
        tree = ast.parse(inspect.getsource(draw.draw_stacking_context))
        found = None
        for node in ast.walk(tree):
            if (isinstance(node, ast.Call) and getattr(node.func, 'id', None) == 'isinstance' and len(node.args) == 2
                    and isinstance(node.args[1], ast.Tuple)):
                names = [e.attr for e in node.args[1].elts if isinstance(e, ast.Attribute)]
                if 'BlockBox' in names and 'TableCellBox' in names:
                    found = names
                    break
        if found is None:
            raise RuntimeError('point 2 isinstance tuple of draw_stacking_context not found')
        _POINT2 = tuple(getattr(B, n) for n in found)
    return _POINT2


def class_bits(box):
    """isinstance facts that stacking.py / draw_stacking_context read, as a bit mask (checked against the
    model's tables inside Coq); the point 2 tuple is taken from the source of draw_stacking_context."""
    from weasyprint.formatting_structure import boxes as B
    tests = [
        B.ParentBox, B.BlockLevelBox, B.TableCellBox, (B.InlineBlockBox, B.InlineFlexBox, B.InlineGridBox),
        point2_classes(),
        B.TableBox, B.InlineBox, B.LineBox, B.TextBox, B.ReplacedBox, B.InlineReplacedBox, B.PageBox]
    return sum(1 << n for n, t in enumerate(tests) if isinstance(box, t))


def _unwrap(box):
    from weasyprint.layout.absolute import AbsolutePlaceholder
    return box._box if isinstance(box, AbsolutePlaceholder) else box


def box_info(box, page=None):
    """What the model reads from a box (see coq/model/C17Stacking.v, Record info)."""
    st = box.style
    z = st['z_index']
    tmx = getattr(box, 'transformation_matrix', None)
    kind = KIND_OF_CLASS.get(type(box).__name__, 'KOther')
    table_style = st
    return dict(
        kind=kind, cls=type(box).__name__, bits=class_bits(box),
        pos=(st['position'] if isinstance(st['position'], str) else 'static'),
        flt=bool(box.is_floated()), z=(None if z == 'auto' else int(z)),
        opa=bool(st['opacity'] < 1), trf=bool(st['transform']),
        tm=('TNone' if not tmx else ('TRegular' if tmx.determinant else 'TSingular')),
        ovf=bool(st['overflow'] != 'visible'), clp=bool(st['clip']), git=bool(box.is_grid_item),
        col=bool(kind in ('KTable', 'KCell') and table_style['border_collapse'] == 'collapse'),
        fit=bool(getattr(box, 'is_flex_item', False)),
        hid=bool(kind == 'KCell' and not (st['empty_cells'] == 'show' or not box.empty)),
        rcl=bool(box.is_for_root_element and page is not None and page.style['overflow'] != 'visible'))


def number_tree(box, page, out):
    """Preorder numbering of the layout tree (placeholders unwrapped): box._c17_id; out: list of
    [info, [kid ids]] indexed by id."""
    box = _unwrap(box)
    n = len(out)
    box._c17_id = n
    rec = [box_info(box, page), []]
    out.append(rec)
    for c in getattr(box, 'children', None) or []:
        rec[1].append(number_tree(c, page, out))
    return n


def flatten_ctx(sc):
    from weasyprint.stacking import StackingContext
    def node(b):
        if isinstance(b, StackingContext):
            return flatten_ctx(b)
        return ['B', b._c17_id, [node(c) for c in (getattr(b, 'children', None) or [])]]
    b = sc.box
    return ['C', b._c17_id, [node(c) for c in (getattr(b, 'children', None) or [])],
            [flatten_ctx(c) for c in sc.negative_z_contexts], [flatten_ctx(c) for c in sc.zero_z_contexts],
            [flatten_ctx(c) for c in sc.positive_z_contexts], [node(x) for x in sc.block_level_boxes],
            [flatten_ctx(c) for c in sc.float_contexts], [node(x) for x in sc.blocks_and_cells], int(sc.z_index)]


def _identity_ok(sc):
    """blocks / blocks_and_cells entries are the very objects of the new tree (the model duplicates them)."""
    from weasyprint.stacking import StackingContext
    seen = set()
    def walk(b):
        if isinstance(b, StackingContext):
            return
        seen.add(id(b))
        for c in getattr(b, 'children', None) or []:
            walk(c)
    for c in getattr(sc.box, 'children', None) or []:
        walk(c)
    ok = all(id(x) in seen for x in sc.block_level_boxes) and all(id(x) in seen for x in sc.blocks_and_cells)
    subs = sc.negative_z_contexts + sc.zero_z_contexts + sc.positive_z_contexts + sc.float_contexts
    def inner(b, acc):
        if isinstance(b, StackingContext):
            acc.append(b)
            return
        for c in getattr(b, 'children', None) or []:
            inner(c, acc)
    for c in getattr(sc.box, 'children', None) or []:
        inner(c, subs)
    return ok and all(_identity_ok(s) for s in subs)


# ------------------------------------------------------------------------------------------ synthetic trees

def _synth_box(t, counter):
    from weasyprint.formatting_structure import boxes as B
    from weasyprint.layout.absolute import AbsolutePlaceholder
    cls = getattr(B, t['cls'])
    box = cls.__new__(cls)
    box.style = {
        'position': t['pos'], 'z_index': ('auto' if t['z'] is None else t['z']),
        'opacity': 0.5 if t['opa'] else 1, 'transform': ((('translate', (1, 1)),) if t['trf'] else ()),
        'overflow': 'hidden' if t['ovf'] else 'visible', 'float': 'left' if t['flt'] else 'none', 'clip': (),
        'border_collapse': 'collapse' if t.get('col') else 'separate', 'empty_cells': 'show'}
    box.element_tag = 'x'
    box.element = None
    box.remove_decoration_sides = set()
    if t['git']:
        box.is_grid_item = True
    if t.get('fit'):
        box.is_flex_item = True
    box.empty = False
    box._c17_id = t['id']
    box.children = [_synth_box(k, counter) for k in t['kids']]
    if t.get('ph'):
        return AbsolutePlaceholder(box)
    return box


def stacking_synth(case):
    """case: dict(tree=nested dict(id, cls, pos, z, opa, trf, ovf, flt, git, ph, kids)).  Real
    StackingContext.from_box on real box classes built without layout.  Returns dict(out=flattened, bits={cls: bits})."""
    from weasyprint.stacking import StackingContext
    root = _synth_box(case['tree'], None)
    bits = {}
    def walk(b):
        b = _unwrap(b)
        bits[type(b).__name__] = class_bits(b)
        for c in b.children:
            walk(c)
    walk(root)
    sc = StackingContext.from_box(_unwrap(root), None)
    return dict(out=flatten_ctx(sc), bits=bits, identity=_identity_ok(sc))


# ---------------------------------------------------------------------------------------------- real renders

def stacking_render(case):
    """case: dict(html=...).  Per page: the abstract input tree (ids in preorder) and the flattened result of
    StackingContext.from_page."""
    from tests.testing_utils import FakeHTML
    from weasyprint.stacking import StackingContext
    from weasyprint.anchors import gather_anchors
    doc = FakeHTML(string=case['html']).render()
    res = []
    for p in doc.pages:
        page = p._page_box
        nodes = []
        number_tree(page, page, nodes)
        sc = StackingContext.from_page(page)
        out = flatten_ctx(sc)
        res.append(dict(nodes=nodes, out=out, identity=_identity_ok(sc)))
    return res


# ------------------------------------------------------------------------- full render + layout records

def _rgba(c):
    """tinycss2 color4 Color -> [r, g, b, a] (floats 0..1) or None."""
    if c is None or c == 'currentcolor':
        return None
    try:
        c = c.to('srgb')
    except Exception:
        pass
    co = list(c.coordinates) if hasattr(c, 'coordinates') else [c.red, c.green, c.blue]
    return [float(x or 0) for x in co[:3]] + [float(c.alpha if c.alpha is not None else 1)]


def _num(x):
    return float(x) if isinstance(x, (int, float)) else None


def _box_record(box, page):
    from weasyprint.formatting_structure import boxes as B
    from weasyprint.draw.color import get_color
    st = box.style
    rec = box_info(box, page)
    rec.update(
        x=_num(box.position_x), y=_num(box.position_y), w=_num(box.width), h=_num(box.height),
        tag=box.element_tag, eid=(box.element.get('id') if box.element is not None else None),
        visible=(st['visibility'] == 'visible'), opacity=float(st['opacity']),
        position=rec['pos'], floated=rec['flt'],
        overflow=st['overflow'], color=_rgba(st['color']), bgcolor=_rgba(get_color(st, 'background_color')),
        bgclip=list(st['background_clip']), anonymous=bool(getattr(box, 'is_anonymous', False)) if False else None)
    for side in ('top', 'right', 'bottom', 'left'):
        rec['m' + side[0]] = _num(getattr(box, 'margin_' + side, 0))
        rec['p' + side[0]] = _num(getattr(box, 'padding_' + side, 0))
        rec['b' + side[0]] = _num(getattr(box, 'border_%s_width' % side, 0))
        rec['bc' + side[0]] = _rgba(get_color(st, 'border_%s_color' % side))
        rec['bs' + side[0]] = st['border_%s_style' % side]
    rec['radii'] = [[_num(v.value) if hasattr(v, 'value') else _num(v) for v in st['border_%s_radius' % c]]
                    for c in ('top_left', 'top_right', 'bottom_right', 'bottom_left')]
    rec['oradii'] = []
    for c in ('top_left', 'top_right', 'bottom_right', 'bottom_left'):
        v = getattr(box, 'border_%s_radius' % c, (0, 0))
        rec['oradii'] += [float(v[0]), float(v[1])] if isinstance(v[0], (int, float)) else [0.0, 0.0]
    tf = []
    for name, args in (st['transform'] or ()):
        def conv(a):
            if hasattr(a, 'value'):
                return [float(a.value), a.unit]
            if isinstance(a, (tuple, list)):
                return [conv(x) for x in a]
            return float(a)
        tf.append([name, conv(args)])
    rec['transform'] = tf
    rec['torigin'] = [[float(v.value), v.unit] for v in st['transform_origin'][:2]]
    if isinstance(box, B.TextBox):
        rec['text'] = box.text
        rec['baseline'] = _num(box.baseline)
        rec['font_size'] = float(st['font_size'])
    if isinstance(box, B.LineBox):
        rec['baseline'] = _num(getattr(box, 'baseline', None))
    if isinstance(box, B.TableBox):
        rec['collapse'] = st['border_collapse'] == 'collapse'
    rec['is_root'] = bool(box.is_for_root_element)
    rec['has_bg'] = box.background is not None if hasattr(box, 'background') else None
    return rec


def _records(box, page, out, parent):
    box = _unwrap(box)
    n = len(out)
    box._c17_id = n
    rec = _box_record(box, page)
    rec['parent'] = parent
    rec['kids'] = []
    out.append(rec)
    for c in getattr(box, 'children', None) or []:
        rec['kids'].append(_records(c, page, out, n))
    return n


def render_display(case):
    """case: dict(html=..., opts=...).  Returns dict(pdf=latin-1 str of the uncompressed PDF, pages=[dict(
    boxes=[records in preorder], out=flattened StackingContext.from_page, width, height)])."""
    from tests.testing_utils import FakeHTML
    from weasyprint.stacking import StackingContext
    doc = FakeHTML(string=case['html']).render()
    pages = []
    for p in doc.pages:
        page = p._page_box
        recs = []
        _records(page, page, recs, None)
        sc = StackingContext.from_page(page)
        canvas = getattr(page, 'canvas_background', None)
        pages.append(dict(boxes=recs, out=flatten_ctx(sc), identity=_identity_ok(sc),
                          width=float(page.margin_width()), height=float(page.margin_height()),
                          canvas=(_rgba(canvas.color) if canvas else None)))
    pdf = doc.write_pdf(uncompressed_pdf=True)
    return dict(pdf=pdf.decode('latin-1'), pages=pages)


# ------------------------------------------------------------------- rounded boxes: exact direct calls

def rounded_direct(case):
    """case: dict(cw, ch, bw=[t,r,b,l], pd=[t,r,b,l], radii=[8 values: tl(x,y) tr br bl], px, py, ml, mt,
    mode=0..4, args=[4]) with 'n/d' strings.  Calls the real Box.rounded_box / rounded_*_box on a stub BlockBox with
    Fraction fields.  Returns [x - border_box_x, y - border_box_y, w, h, 8 radii] as 'n/d' strings."""
    from fractions import Fraction as F
    from weasyprint.formatting_structure import boxes as B
    box = object.__new__(B.BlockBox)
    box.width, box.height = F(case['cw']), F(case['ch'])
    (box.border_top_width, box.border_right_width, box.border_bottom_width, box.border_left_width) = \
        [F(v) for v in case['bw']]
    (box.padding_top, box.padding_right, box.padding_bottom, box.padding_left) = [F(v) for v in case['pd']]
    box.position_x, box.position_y = F(case['px']), F(case['py'])
    box.margin_left, box.margin_top = F(case['ml']), F(case['mt'])
    box.margin_right = box.margin_bottom = F(0)
    r = [F(v) for v in case['radii']]
    box.border_top_left_radius = (r[0], r[1])
    box.border_top_right_radius = (r[2], r[3])
    box.border_bottom_right_radius = (r[4], r[5])
    box.border_bottom_left_radius = (r[6], r[7])
    mode, args = case['mode'], [F(v) for v in case['args']]
    if mode == 0:
        out = box.rounded_box(*args)
    elif mode == 1:
        out = box.rounded_border_box()
    elif mode == 2:
        out = box.rounded_padding_box()
    elif mode == 3:
        out = box.rounded_content_box()
    else:
        out = box.rounded_box_ratio(args[0])
    x, y, w, h, tl, tr, br, bl = out
    vals = [x - box.border_box_x(), y - box.border_box_y(), w, h, tl[0], tl[1], tr[0], tr[1], br[0], br[1], bl[0], bl[1]]
    return [str(F(v)) for v in vals]
