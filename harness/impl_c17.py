"""Implementation-side functions for C17 (run in worker processes; weasyprint imported from REPO).

1. stacking_synth / stacking_render : direct calls of the real StackingContext.from_box / from_page on synthetic
   box objects and on box trees of real renders; the result is flattened to ids.
2. render_display : full render -> uncompressed PDF -> display list decoded by c17lib (pdfread based), together
   with the layout box tree (geometry, computed colours) of the same render.
"""
import logging

KIND_OF_CLASS = {
    'BlockBox': 'KBlock', 'TableCaptionBox': 'KBlock', 'FootnoteAreaBox': 'KBlock',
    'FlexBox': 'KFlex', 'GridBox': 'KGrid', 'TableBox': 'KTable', 'InlineTableBox': 'KTable',
    'TableRowGroupBox': 'KRowGroup', 'TableRowBox': 'KRow', 'TableCellBox': 'KCell', 'LineBox': 'KLine',
    'InlineBox': 'KInline', 'TextBox': 'KText', 'InlineBlockBox': 'KInlineBlock', 'InlineFlexBox': 'KInlineFlex',
    'InlineGridBox': 'KInlineGrid', 'BlockReplacedBox': 'KBlockReplaced', 'InlineReplacedBox': 'KInlineReplaced',
    'MarginBox': 'KMargin', 'PageBox': 'KPage', 'TableColumnGroupBox': 'KOther', 'TableColumnBox': 'KOther',
}


def class_bits(box):
    """isinstance facts that stacking.py / draw_stacking_context read, as a bit mask (checked against the
    model's tables inside Coq)."""
    from weasyprint.formatting_structure import boxes as B
    tests = [
        B.ParentBox, B.BlockLevelBox, B.TableCellBox, (B.InlineBlockBox, B.InlineFlexBox, B.InlineGridBox),
        (B.BlockBox, B.MarginBox, B.InlineBlockBox, B.TableCellBox, B.FlexContainerBox, B.ReplacedBox),
        B.TableBox, B.InlineBox, B.LineBox, B.TextBox, B.ReplacedBox, B.InlineReplacedBox, B.PageBox]
    return sum(1 << n for n, t in enumerate(tests) if isinstance(box, t))


def _unwrap(box):
    from weasyprint.layout.absolute import AbsolutePlaceholder
    return box._box if isinstance(box, AbsolutePlaceholder) else box


def box_info(box, page=None):
    """What the model reads from a box (see coq/model/C17Stacking.v, Record info)."""
    st = box.style
    z = st['z_index']
    tmx = getattr(box, 'transformation_matrix', None)
    kind = KIND_OF_CLASS.get(type(box).__name__, 'KOther')
    table_style = st
    return dict(
        kind=kind, cls=type(box).__name__, bits=class_bits(box),
        pos=(st['position'] if isinstance(st['position'], str) else 'static'),
        flt=bool(box.is_floated()), z=(None if z == 'auto' else int(z)),
        opa=bool(st['opacity'] < 1), trf=bool(st['transform']),
        tm=('TNone' if not tmx else ('TRegular' if tmx.determinant else 'TSingular')),
        ovf=bool(st['overflow'] != 'visible'), clp=bool(st['clip']), git=bool(box.is_grid_item),
        col=bool(kind == 'KTable' and table_style['border_collapse'] == 'collapse'),
        hid=bool(kind == 'KCell' and not (st['empty_cells'] == 'show' or not box.empty)),
        rcl=bool(box.is_for_root_element and page is not None and page.style['overflow'] != 'visible'))


def number_tree(box, page, out):
    """Preorder numbering of the layout tree (placeholders unwrapped): box._c17_id; out: list of
    [info, [kid ids]] indexed by id."""
    box = _unwrap(box)
    n = len(out)
    box._c17_id = n
    rec = [box_info(box, page), []]
    out.append(rec)
    for c in getattr(box, 'children', None) or []:
        rec[1].append(number_tree(c, page, out))
    return n


def flatten_ctx(sc):
    from weasyprint.stacking import StackingContext
    def node(b):
        if isinstance(b, StackingContext):
            return flatten_ctx(b)
        return ['B', b._c17_id, [node(c) for c in (getattr(b, 'children', None) or [])]]
    b = sc.box
    return ['C', b._c17_id, [node(c) for c in (getattr(b, 'children', None) or [])],
            [flatten_ctx(c) for c in sc.negative_z_contexts], [flatten_ctx(c) for c in sc.zero_z_contexts],
            [flatten_ctx(c) for c in sc.positive_z_contexts], [node(x) for x in sc.block_level_boxes],
            [flatten_ctx(c) for c in sc.float_contexts], [node(x) for x in sc.blocks_and_cells], int(sc.z_index)]


def _identity_ok(sc):
    """blocks / blocks_and_cells entries are the very objects of the new tree (the model duplicates them)."""
    from weasyprint.stacking import StackingContext
    seen = set()
    def walk(b):
        if isinstance(b, StackingContext):
            return
        seen.add(id(b))
        for c in getattr(b, 'children', None) or []:
            walk(c)
    for c in getattr(sc.box, 'children', None) or []:
        walk(c)
    ok = all(id(x) in seen for x in sc.block_level_boxes) and all(id(x) in seen for x in sc.blocks_and_cells)
    subs = sc.negative_z_contexts + sc.zero_z_contexts + sc.positive_z_contexts + sc.float_contexts
    def inner(b, acc):
        if isinstance(b, StackingContext):
            acc.append(b)
            return
        for c in getattr(b, 'children', None) or []:
            inner(c, acc)
    for c in getattr(sc.box, 'children', None) or []:
        inner(c, subs)
    return ok and all(_identity_ok(s) for s in subs)


# ------------------------------------------------------------------------------------------ synthetic trees

def _synth_box(t, counter):
    from weasyprint.formatting_structure import boxes as B
    from weasyprint.layout.absolute import AbsolutePlaceholder
    cls = getattr(B, t['cls'])
    box = cls.__new__(cls)
    box.style = {
        'position': t['pos'], 'z_index': ('auto' if t['z'] is None else t['z']),
        'opacity': 0.5 if t['opa'] else 1, 'transform': ((('translate', (1, 1)),) if t['trf'] else ()),
        'overflow': 'hidden' if t['ovf'] else 'visible', 'float': 'left' if t['flt'] else 'none', 'clip': (),
        'border_collapse': 'separate', 'empty_cells': 'show'}
    box.element_tag = 'x'
    box.element = None
    box.remove_decoration_sides = set()
    if t['git']:
        box.is_grid_item = True
    box.empty = False
    box._c17_id = t['id']
    box.children = [_synth_box(k, counter) for k in t['kids']]
    if t.get('ph'):
        return AbsolutePlaceholder(box)
    return box


def stacking_synth(case):
    """case: dict(tree=nested dict(id, cls, pos, z, opa, trf, ovf, flt, git, ph, kids)).  Real
    StackingContext.from_box on real box classes built without layout.  Returns dict(out=flattened, bits={cls: bits})."""
    from weasyprint.stacking import StackingContext
    root = _synth_box(case['tree'], None)
    bits = {}
    def walk(b):
        b = _unwrap(b)
        bits[type(b).__name__] = class_bits(b)
        for c in b.children:
            walk(c)
    walk(root)
    sc = StackingContext.from_box(_unwrap(root), None)
    return dict(out=flatten_ctx(sc), bits=bits, identity=_identity_ok(sc))


# ---------------------------------------------------------------------------------------------- real renders

def stacking_render(case):
    """case: dict(html=...).  Per page: the abstract input tree (ids in preorder) and the flattened result of
    StackingContext.from_page."""
    from tests.testing_utils import FakeHTML
    from weasyprint.stacking import StackingContext
    from weasyprint.anchors import gather_anchors
    doc = FakeHTML(string=case['html']).render()
    res = []
    for p in doc.pages:
        page = p._page_box
        nodes = []
        number_tree(page, page, nodes)
        sc = StackingContext.from_page(page)
        out = flatten_ctx(sc)
        res.append(dict(nodes=nodes, out=out, identity=_identity_ok(sc)))
    return res
