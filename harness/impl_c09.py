"""Implementation-side functions for C09 (run in worker processes; weasyprint imported from REPO)."""
from fractions import Fraction
from types import SimpleNamespace

_STYLES = {}
_CTX = None


def _ctx():
    global _CTX
    if _CTX is None:
        from tests.testing_utils import TEST_UA_FONT_CONFIG
        _CTX = SimpleNamespace(font_config=TEST_UA_FONT_CONFIG, dictionaries={}, strut_layouts={}, font_features={})
    return _CTX


def _style(ws, ow, wb, hy, fs):
    """A real computed style of a text box with the given properties (test font)."""
    k = (ws, ow, wb, hy, fs)
    if k not in _STYLES:
        from tests.testing_utils import render_pages
        page, = render_pages(
            '<style>p{font-family:weasyprint;font-size:%spx;line-height:1;white-space:%s;overflow-wrap:%s;'
            'word-break:%s;hyphens:%s}</style><p>a</p>' % (fs, ws, ow, wb, hy))
        html, = page.children
        body, = html.children
        p, = body.children
        line, = p.children
        tb, = line.children
        _STYLES[k] = tb.style
    return _STYLES[k]


def _num(x):
    return None if x is None else float(Fraction(x))


def sfl(case):
    """Direct call of split_first_line.  case: dict(text, ws, ow, wb, hy, fs, mw, ils, mini); mw is None or
    'n/d' (dyadic).  Returns [layout.text, length, resume_index, 'n/d' width]."""
    from weasyprint.text.line_break import split_first_line
    style = _style(case['ws'], case['ow'], case['wb'], case['hy'], case['fs'])
    layout, length, resume, width, height, baseline = split_first_line(
        case['text'], style, _ctx(), _num(case['mw']), 0, is_line_start=case['ils'], minimum=case['mini'])
    return [layout.text, length, resume, str(Fraction(width)), str(Fraction(height))]


def raw(case):
    """Raw Pango first line + log attrs, for the hypothesis G.  case: dict(text, ow, fs, w, wc)."""
    from weasyprint.text.line_break import create_layout, line_size
    from weasyprint.text.ffi import pango, ffi
    from weasyprint.text.constants import PANGO_WRAP_MODE
    style = _style('normal', 'normal', 'normal', 'manual', case['fs'])
    lay = create_layout(case['text'], style, _ctx(), _num(case['w']), 0)
    if case['ow'] != 'normal':
        lay.set_text(case['text'], break_words=True)       # insert_hyphens off, as in step 5 of split_first_line
    if case['wc']:
        pango.pango_layout_set_wrap(lay.layout, PANGO_WRAP_MODE['WRAP_CHAR'])
    fl, idx = lay.get_first_line()
    la = pango.pango_layout_get_log_attrs_readonly(lay.layout, ffi.NULL)
    n = len(lay.text) + 1
    t = lay.text
    def b2c(b):
        return None if b is None else len(t.encode()[:b].decode())
    return [t, b2c(fl.length), b2c(idx), str(Fraction(line_size(fl, style)[0])),
            ''.join('1' if la[i].is_line_break else '0' for i in range(n))]


# ------------------------------------------------------------------------------------------- offsets (Q)

def align(case):
    """text_align / justify_line / add_word_spacing on stub boxes with Fraction fields.
    case: dict(align, align_last, dir, ws, last, avail, items=[('t', text, width) | ('a', width)], nested)"""
    from weasyprint.layout import inline
    from weasyprint.formatting_structure import boxes

    class FakeLayout:
        def deactivate(self):
            pass
    saved = inline.create_layout
    inline.create_layout = lambda *a, **k: FakeLayout()
    try:
        st = {'text_align_all': case['align'], 'text_align_last': case['align_last'], 'direction': case['dir'],
              'white_space': case['ws']}

        def mk(item, x):
            if item[0] == 't':
                b = object.__new__(boxes.TextBox)
                b.text = item[1]
                b.width = Fraction(item[2])
                b.justification_spacing = 0
            elif item[0] == 'i':
                b = object.__new__(boxes.InlineBox)
                kids, xx = [], x
                for it in item[1]:
                    k = mk(it, xx)
                    kids.append(k)
                    xx += k.width
                b.children = tuple(kids)
                b.width = xx - x
            else:
                # a real InlineBlockBox with (optionally) a line of text boxes inside: Box.translate is the real one
                b = object.__new__(boxes.InlineBlockBox)
                b.width = Fraction(item[1])
                b.children = ()
                desc = item[2] if len(item) > 2 else []
                if desc:
                    ln = object.__new__(boxes.LineBox)
                    ln.style = st
                    ln.position_x = x + Fraction(desc[0])
                    ln.position_y = Fraction(0)
                    tkids, xx = [], ln.position_x
                    for v in desc[1]:
                        tb = object.__new__(boxes.TextBox)
                        tb.style = st
                        tb.text = 'x'
                        tb.children = ()
                        tb.width = Fraction(v)
                        tb.position_x, tb.position_y = xx, Fraction(0)
                        tkids.append(tb)
                        xx += tb.width
                    ln.children = tuple(tkids)
                    ln.width = xx - ln.position_x
                    b.children = (ln,)
            b.style = st
            b.position_x = x
            b.position_y = Fraction(0)
            b.is_in_normal_flow = lambda: True
            return b
        line = object.__new__(boxes.LineBox)
        line.style = st
        kids, x = [], Fraction(0)
        for it in case['items']:
            k = mk(it, x)
            kids.append(k)
            x += k.width
        line.children = tuple(kids)
        line.width = x
        line.position_x = Fraction(0)
        line.position_y = Fraction(0)
        off = inline.text_align(None, line, Fraction(case['avail']), case['last'])

        def dump(b):
            r = [str(Fraction(b.position_x)), str(Fraction(b.width))]
            if isinstance(b, (boxes.InlineBox, boxes.LineBox, boxes.InlineBlockBox)):
                return r + [[dump(c) for c in b.children]]
            return r + [str(Fraction(getattr(b, 'justification_spacing', 0)))]
        return [str(Fraction(off)), dump(line)]
    finally:
        inline.create_layout = saved


def ibw(case):
    """inline_block_width (the function under @handle_min_max_width) on a stub box with Fraction fields; shrink_to_fit
    answers min(max(pmin, available), pref).  case: dict(width 'auto' | str(Fraction), cbw, sp=[ml, mr, bl, br, pl, pr],
    pmin, pref).  Returns [str(width left in the box), the other attributes unchanged?]"""
    from weasyprint.layout import inline

    class Stub:
        pass
    pmin, pref = Fraction(case['pmin']), Fraction(case['pref'])
    saved = inline.shrink_to_fit
    inline.shrink_to_fit = lambda context, box, available: min(max(pmin, available), pref)
    try:
        box, cb = Stub(), Stub()
        names = ['margin_left', 'margin_right', 'border_left_width', 'border_right_width', 'padding_left',
                 'padding_right']
        for n_, v in zip(names, case['sp']):
            setattr(box, n_, Fraction(v))
        box.width = 'auto' if case['width'] == 'auto' else Fraction(case['width'])
        cb.width = Fraction(case['cbw'])
        before = dict(vars(box))
        r = inline.inline_block_width.without_min_max(box, None, cb)
        after = dict(vars(box))
        same = r is None and cb.width == Fraction(case['cbw']) and all(
            after[k] == before[k] for k in before if k != 'width') and set(after) == set(before)
        return [str(Fraction(box.width)), bool(same)]
    finally:
        inline.shrink_to_fit = saved


# ------------------------------------------------------------------------------------------ full renders

def _text_of(box):
    from weasyprint.formatting_structure import boxes
    if isinstance(box, boxes.TextBox):
        return box.text
    return ''.join(_text_of(c) for c in getattr(box, 'children', ()) or ())


def _dump_inline(box, out, depth):
    """flat list of the boxes of a line (pre-order) with their horizontal extents"""
    from weasyprint.formatting_structure import boxes
    kind = ('text' if isinstance(box, boxes.TextBox) else
            'inline' if isinstance(box, boxes.InlineBox) else
            'float' if box.is_floated() else
            'abs' if not box.is_in_normal_flow() else 'atomic')
    rec = dict(kind=kind, depth=depth, x=box.position_x, y=box.position_y, w=box.width, h=box.height,
               ml=box.margin_left, mr=box.margin_right, bl=box.border_left_width, br=box.border_right_width,
               pl=box.padding_left, pr=box.padding_right, mt=box.margin_top, mb=box.margin_bottom,
               eid=(box.element.get('id') if getattr(box, 'element', None) is not None else None),
               text=(box.text if kind == 'text' else None),
               fs=box.style['font_size'], ws=box.style['white_space'],
               js=getattr(box, 'justification_spacing', 0) if kind == 'text' else 0)
    out.append(rec)
    if kind == 'inline':
        n0 = len(out)
        for c in box.children:
            _dump_inline(c, out, depth + 1)
        rec['nkids'] = len(box.children)
        rec['span'] = len(out) - n0


def render_lines(case):
    """case: dict(html).  Returns every block container that holds line boxes (blocks, anonymous blocks, inline-blocks,
    table cells ...) with its lines; `main` marks the containers whose element id starts with 'p' (not the
    inline-blocks inside them); `floats` (same list in every record) = the floated boxes of the page."""
    from tests.testing_utils import render_pages
    from weasyprint.formatting_structure import boxes
    pages = render_pages(case['html'])
    res = []

    def walk(box, page_no, floats, inside_atomic):
        if box.is_floated():
            floats.append(dict(x=box.position_x, y=box.position_y, mw=box.margin_width(), mh=box.margin_height(),
                               side=box.style['float'],
                               eid=(box.element.get('id') if box.element is not None else None)))
        atomic = inside_atomic or isinstance(box, boxes.AtomicInlineLevelBox)
        if isinstance(box, boxes.BlockContainerBox) and box.children and \
                any(isinstance(c, boxes.LineBox) for c in box.children):
            lines = []
            for ln in box.children:
                if not isinstance(ln, boxes.LineBox):
                    continue
                items = []
                for c in ln.children:
                    _dump_inline(c, items, 0)
                lines.append(dict(x=ln.position_x, y=ln.position_y, w=ln.width, h=ln.height, text=_text_of(ln),
                                  items=items))
            eid = box.element.get('id') if box.element is not None else None
            res.append(dict(eid=eid, page=page_no, x=box.content_box_x(), y=box.content_box_y(),
                            w=box.width, h=box.height, lines=lines, anon=False, cls=type(box).__name__,
                            main=bool(eid and eid.startswith('p') and not atomic),
                            indent=box.style['text_indent'].value if hasattr(box.style['text_indent'], 'value') else 0,
                            direction=box.style['direction'], floats=floats))
        for c in getattr(box, 'children', ()) or ():
            if isinstance(c, boxes.LineBox):
                for d in c.descendants():
                    if isinstance(d, boxes.AtomicInlineLevelBox) or d.is_floated():
                        walk(d, page_no, floats, inside_atomic or not d.is_floated())
            else:
                walk(c, page_no, floats, atomic)
    for i, page in enumerate(pages):
        walk(page, i, [], False)
    return res


def avoid(case):
    """avoid_collisions(context, LineBox stub, containing block stub, outer=False) between float stubs, Fractions.
    case: dict(shapes=[[side, x, y, mw, mh]], cbx, cbw, dir, bw, bh, y) -> [position_x, position_y, available_width]"""
    from weasyprint.layout.float import avoid_collisions
    from weasyprint.formatting_structure import boxes

    def shape(side, x, y, mw, mh):
        s = SimpleNamespace(position_x=Fraction(x), position_y=Fraction(y), style={'float': side})
        s.margin_width = lambda mw=Fraction(mw): mw
        s.margin_height = lambda mh=Fraction(mh): mh
        return s
    ctx = SimpleNamespace(excluded_shapes=[shape(*s) for s in case['shapes']])
    box = object.__new__(boxes.LineBox)
    box.style = {'float': 'none'}
    box.position_x, box.position_y = Fraction(0), Fraction(case['y'])
    box.width, box.height = Fraction(case['bw']), Fraction(case['bh'])
    for side in ('top', 'right', 'bottom', 'left'):
        setattr(box, 'margin_' + side, Fraction(0))
        setattr(box, 'padding_' + side, Fraction(0))
        setattr(box, 'border_%s_width' % side, Fraction(0))
    cb = SimpleNamespace(width=Fraction(case['cbw']), style={'direction': case['dir']})
    cb.content_box_x = lambda: Fraction(case['cbx'])
    x, y, av = avoid_collisions(ctx, box, cb, outer=False)
    return [str(Fraction(x)), str(Fraction(y)), str(Fraction(av))]
