"""Implementation-side functions for C18 (run in worker processes; weasyprint imported from REPO)."""
import io, logging, re
from fractions import Fraction
from types import SimpleNamespace


# ------------------------------------------------------------------------------ 1. bookmark tree (direct)

def bookmarks(case):
    """case: dict(pages=[[ [level, label, closed, x, y], ...], ...], heights=[...], scale='n/d', transform=bool)
    returns the tree of Document.make_bookmark_tree as nested lists [label, page, closed, x, y, kids]
    (x, y as 'n/d' strings)."""
    from weasyprint.document import Document
    pages = []
    for marks, h in zip(case['pages'], case['heights']):
        pages.append(SimpleNamespace(
            bookmarks=[(lv, 'b%d' % lab, (Fraction(x), Fraction(y)), 'closed' if cl else 'open')
                       for lv, lab, cl, x, y in marks],
            height=Fraction(h)))
    doc = object.__new__(Document)
    doc.pages = pages
    root = doc.make_bookmark_tree(Fraction(case['scale']), transform_pages=case['transform'])

    def conv(t):
        label, (pn, x, y), kids, state = t
        assert state in ('open', 'closed')
        return [int(label[1:]), pn, state == 'closed', str(Fraction(x)), str(Fraction(y)), [conv(k) for k in kids]]
    return [conv(t) for t in root]


# ------------------------------------------------------------------------------ 2. outline objects (direct)

def _ref(v):
    if v is None:
        return None
    if isinstance(v, bytes):
        v = v.decode()
    m = re.fullmatch(r'(\d+) 0 R', str(v))
    return int(m.group(1)) if m else ('bad', str(v))


def read_outlines(pdf, first_number=0):
    """Read outline item dictionaries back from a pydyf.PDF: list of dicts sorted by object number + root."""
    import pydyf
    items = []
    for o in pdf.objects[first_number:]:
        if isinstance(o, pydyf.Dictionary) and 'Title' in o and 'Dest' in o:
            dest = o['Dest']
            items.append(dict(
                num=o.number, title=o['Title'].string, dest=_ref(dest[0]), dest_kind=str(dest[1]),
                x=dest[2], y=dest[3], zoom=dest[4],
                count=o.get('Count'), parent=_ref(o.get('Parent')), prev=_ref(o.get('Prev')),
                next=_ref(o.get('Next')), first=_ref(o.get('First')), last=_ref(o.get('Last'))))
    root = None
    if 'Outlines' in pdf.catalog:
        rn = _ref(pdf.catalog['Outlines'])
        ro = pdf.objects[rn]
        root = dict(num=rn, count=ro.get('Count'), first=_ref(ro.get('First')), last=_ref(ro.get('Last')),
                    keys=sorted(ro.keys()))
    return items, root


def outlines(case):
    """case: dict(forest=[[title, page, closed, kids], ...], npages=n, pre=k).
    Direct call of add_outlines on a fresh pydyf.PDF with n pages and k more objects."""
    import pydyf
    from weasyprint.pdf.anchors import add_outlines
    pdf = pydyf.PDF()
    for _ in range(case['npages']):
        pdf.add_page(pydyf.Dictionary({'Type': '/Page'}))
    for _ in range(case['pre']):
        pdf.add_object(pydyf.Dictionary({}))
    n0 = len(pdf.objects)

    def conv(t):
        title, page, closed, kids = t
        return ('t%d' % title, (page, title, 7), [conv(k) for k in kids], 'closed' if closed else 'open')
    ret = add_outlines(pdf, [conv(t) for t in case['forest']])
    items, root = read_outlines(pdf, n0)
    for it in items:
        it['title'] = int(it['title'][1:])
    page_refs = [_ref(r) for r in pdf.page_references]
    return dict(n0=n0, page_refs=page_refs, items=items, root=root, nobjects=len(pdf.objects),
                ret_count=ret[1], ret_refs=[o.number for o in ret[0]])


# ------------------------------------------------------------------------------ 3. links (direct)

class _Capture(logging.Handler):
    def __init__(self):
        super().__init__(level=logging.DEBUG)
        self.records = []

    def emit(self, record):
        self.records.append(record)


def _capture_logs():
    logger = logging.getLogger('weasyprint')
    h = _Capture()
    old = logger.level
    logger.setLevel(logging.DEBUG)
    logger.addHandler(h)

    def done():
        logger.removeHandler(h)
        logger.setLevel(old)
        return h.records
    return done


def _stub_box(t):
    from weasyprint.formatting_structure import boxes
    bid, anchor, link, textlike, attach, kids = t
    if textlike:
        box = object.__new__(boxes.TextBox if bid % 2 else boxes.LineBox)
    else:
        box = object.__new__(boxes.InlineBox if bid % 3 == 0 else boxes.BlockBox)
    style = {'transform': (), 'bookmark_level': 'none', 'bookmark_state': 'open',
             'link': None if link is None else ('url', ('internal' if link[0] else 'external',
                                                        ('a%d' if link[0] else 'http://x/%d') % link[1])),
             'anchor': '' if anchor is None else 'a%d' % anchor}
    children = [_stub_box(k) for k in kids]
    box.__dict__.update(
        style=style, bookmark_label='', element=None, element_tag='x',
        is_input=lambda: False, is_form=lambda: False, is_attachment=lambda: bool(attach),
        hit_area=lambda: (bid, 1000 + bid, 3, 5), all_children=lambda: children,
        # like table boxes, some stubs reach part of their boxes only through all_children() (column groups)
        children=(children[:-1] if len(children) >= 2 and bid % 4 == 0 else children))
    return box


def links(case):
    """case: dict(pages=[box tree, ...]) with box = [id, anchor|None, link|None=[internal, target], textlike,
    attach, kids].  Page(page_box) on stub boxes, then resolve_links(pages).
    returns dict(out=[[links, anchors], ...], errs=[...], pages=[[links, anchors] as gathered])."""
    from weasyprint.document import Page
    from weasyprint.pdf.anchors import resolve_links
    pages = []
    for t in case['pages']:
        root = _stub_box(t)
        root.__dict__.update(margin_width=lambda: 100, margin_height=lambda: 200)
        for side in ('top', 'right', 'bottom', 'left'):
            root.style['bleed_' + side] = SimpleNamespace(value=0)
        pages.append(Page(root))
    done = _capture_logs()
    try:
        res = list(resolve_links(pages))
    finally:
        records = done()
    errs = []
    for r in records:
        if r.levelno >= logging.ERROR:
            errs.append(int(str(r.args[0])[1:]))

    def conv_link(l):
        link_type, target, rect, box = l
        assert rect[1] == 1000 + rect[0] and rect[2] == rect[0] + 3 and rect[3] == rect[1] + 5, rect
        return [link_type, int(target.rsplit('/', 1)[-1]) if link_type != 'internal' else int(target[1:]), rect[0]]
    out = []
    for page_links, page_anchors in res:
        out.append([[conv_link(l) for l in page_links],
                    [[int(n[1:]), x] for n, x, y in page_anchors]])
    gathered = [[[conv_link(l) for l in p.links], [[int(n[1:]), v[0]] for n, v in p.anchors.items()]] for p in pages]
    return dict(out=out, errs=errs, pages=gathered)


# ------------------------------------------------------------------------------ 3b. rectangle_aabb (direct)

def aabb(case):
    """case: dict(m=None|[a,b,c,d,e,f], r=[x,y,w,h]) as 'n/d' strings; the real Matrix with Fraction entries."""
    from weasyprint.anchors import rectangle_aabb
    from weasyprint.matrix import Matrix
    m = None if case['m'] is None else Matrix(*[Fraction(v) for v in case['m']])
    out = rectangle_aabb(m, *[Fraction(v) for v in case['r']])
    return [str(Fraction(v)) for v in out]


# ------------------------------------------------------------------------------ 3c. get_link_attribute (direct)

class _Element:
    tag = 'a'

    def __init__(self, attrib):
        self.attrib = attrib

    def get(self, name, default=None):
        return self.attrib.get(name, default)


def hrefs(case):
    """case: dict(base=str|None, href=str) -> None | [kind, target]"""
    from weasyprint.urls import get_link_attribute
    res = get_link_attribute(_Element({'href': case['href']}), 'href', case['base'])
    if res is None:
        return None
    token_type, (kind, target) = res
    assert token_type == 'url'
    return [kind, target]


# ------------------------------------------------------------------------------ 4. dates (direct)

def dates(case):
    """case: dict(s=string) -> dict(out=str|None, warned=bool)"""
    from weasyprint.pdf import _w3c_date_to_pdf
    done = _capture_logs()
    try:
        out = _w3c_date_to_pdf(case['s'], 'created')
    finally:
        records = done()
    return dict(out=out, warned=any(r.levelno >= logging.WARNING for r in records))


# ------------------------------------------------------------------------------ 5. full renders (monitor)

def _pdf_string(v):
    """decode a pydyf.String the way a PDF reader decodes its serialised form."""
    import pydyf
    if v is None:
        return None
    if isinstance(v, pydyf.String):
        data = v.data
    elif isinstance(v, bytes):
        data = v
    else:
        data = str(v).encode('latin-1')
    if data.startswith(b'<'):
        raw = bytes.fromhex(data[1:-1].decode())
    else:
        assert data.startswith(b'(') and data.endswith(b')'), data
        body = data[1:-1]
        raw = bytearray()
        i = 0
        depth = 0
        while i < len(body):
            c = body[i:i + 1]
            if c == b'\\':
                i += 1
                raw += body[i:i + 1]
            else:
                if c == b'(':
                    depth += 1
                elif c == b')':
                    depth -= 1
                    if depth < 0:
                        raise ValueError('unbalanced parenthesis in PDF string %r' % data)
                raw += c
            i += 1
        if depth != 0:
            raise ValueError('unbalanced parenthesis in PDF string %r' % data)
        raw = bytes(raw)
    if raw.startswith(b'\xfe\xff'):
        return raw[2:].decode('utf-16-be')
    return raw.decode('latin-1')


def render_doc(case):
    """case: dict(html=..., zoom=1, attachments={url: content}) -> everything C18 talks about, read from the
    Document API and from the pydyf objects handed to the finisher (before serialisation)."""
    import pydyf
    from tests.testing_utils import FakeHTML, BASE_URL
    from weasyprint.urls import default_url_fetcher
    files = case.get('files', {})

    def fetcher(url, *a, **k):
        if url in files:
            return {'string': files[url].encode('utf-8'), 'mime_type': 'text/plain'}
        if url.startswith('mem:'):
            raise ValueError('no such file ' + url)
        return default_url_fetcher(url, *a, **k)
    done = _capture_logs()
    grabbed = {}

    def finisher(document, pdf):
        grabbed['pdf'] = pdf
    try:
        doc = FakeHTML(string=case['html'], base_url=(case['base_url'] if 'base_url' in case else 'http://base.test/dir/doc.html'),
                       url_fetcher=fetcher).render()
        buf = io.BytesIO()
        doc.write_pdf(buf, zoom=case.get('zoom', 1), finisher=finisher, uncompressed_pdf=True)
    finally:
        records = done()
    pdf = grabbed['pdf']
    res = {}
    res['errors'] = [(r.getMessage()) for r in records if r.levelno >= logging.ERROR]
    res['warnings'] = [(r.getMessage()) for r in records if r.levelno == logging.WARNING]
    # --- API level
    def conv(t):
        label, (pn, x, y), kids, state = t
        return [label, pn, state, x, y, [conv(k) for k in kids]]
    res['api_tree'] = [conv(t) for t in doc.make_bookmark_tree()]
    res['api_pages'] = []
    for p in doc.pages:
        res['api_pages'].append(dict(
            width=p.width, height=p.height,
            bookmarks=[[lv, lab, list(pt), st] for lv, lab, pt, st in p.bookmarks],
            links=[[lt, tg, list(rect), (box.element.get('id') if box.element is not None else None), box.element_tag]
                   for lt, tg, rect, box in p.links],
            anchors={k: list(v) for k, v in p.anchors.items()}))
    # --- element boxes (where they lie), for links: all boxes generated by elements with data-l
    geo = []
    from weasyprint.formatting_structure import boxes as bx

    def walk(box, pi):
        el = getattr(box, 'element', None)
        if el is not None and not isinstance(box, (bx.TextBox, bx.LineBox)) and isinstance(el.tag, str) and (
                box.element_tag == el.tag or box.element_tag.startswith(el.tag + '::')):
            if el.get('data-k'):      # key = data-k of the element + '::before' / '::after' for its pseudo-element boxes
                geo.append([pi, el.get('data-k') + box.element_tag[len(el.tag):], el.get('id'), el.tag,
                            list(box.hit_area()), type(box).__name__])
        for c in box.all_children():
            walk(c, pi)
    for pi, p in enumerate(doc.pages):
        walk(p._page_box, pi)
    res['geo'] = geo
    # --- PDF objects
    page_objs = [pdf.objects[int(n)] for n in pdf.pages['Kids'][::3]]
    res['page_refs'] = [o.number for o in page_objs]
    res['mediaboxes'] = [[float(v) for v in o['MediaBox']] for o in page_objs]
    items, root = read_outlines(pdf, 0)
    res['outline_items'] = items
    res['outline_root'] = root
    annots = []
    for o in page_objs:
        pa = []
        for r in o.get('Annots', []):
            a = pdf.objects[_ref(r)]
            d = dict(subtype=str(a.get('Subtype')), rect=[float(v) for v in a['Rect']])
            if 'Dest' in a:
                d['dest'] = _pdf_string(a['Dest'])
            if 'A' in a:
                d['uri'] = _pdf_string(a['A']['URI'])
                d['s'] = str(a['A']['S'])
            if 'FS' in a:
                d['fs'] = _ref(a['FS'])
            pa.append(d)
        annots.append(pa)
    res['annots'] = annots
    names = pdf.catalog.get('Names', {})
    dests = []
    if 'Dests' in names:
        arr = names['Dests']['Names']
        for i in range(0, len(arr), 2):
            d = arr[i + 1]
            dests.append([_pdf_string(arr[i]), arr[i].data.decode('latin-1'), _ref(d[0]), str(d[1]), float(d[2]), float(d[3]), d[4]])
    res['dests'] = dests
    emb = []
    if 'EmbeddedFiles' in names:
        arr = pdf.objects[_ref(names['EmbeddedFiles'])]['Names']
        for i in range(0, len(arr), 2):
            fs = pdf.objects[_ref(arr[i + 1])]
            st = pdf.objects[_ref(fs['EF']['F'])]
            emb.append(dict(name=_pdf_string(arr[i]), uf=_pdf_string(fs['UF']), desc=_pdf_string(fs.get('Desc')),
                            data=b''.join(st.stream).decode('utf-8', 'replace'), num=fs.number,
                            size=st.extra['Params']['Size']))
    res['embedded'] = emb
    filespecs = {}
    for o in pdf.objects:
        if isinstance(o, pydyf.Dictionary) and o.get('Type') == '/Filespec':
            st = pdf.objects[_ref(o['EF']['F'])]
            filespecs[o.number] = b''.join(st.stream).decode('utf-8', 'replace')
    res['filespecs'] = filespecs
    res['info'] = {k: _pdf_string(v) for k, v in pdf.info.items()}
    res['lang'] = _pdf_string(pdf.catalog.get('Lang'))
    res['npages'] = len(doc.pages)
    return res
