"""C01 - pagination conserves content."""
import random, collections
import common, fragcheck, fraggen, widegen


def avoid_document(rng):
    """small blocks with many avoided breaks and out-of-flow boxes between in-flow siblings (exercises
    find_earlier_page_break and remove_placeholders)"""
    g = widegen.G(rng, set())
    H = rng.choice([30, 40, 50, 60])
    parts = []

    def seq(depth):
        out = []
        for _ in range(rng.choice([2, 3, 4, 6])):
            r = rng.random()
            if r < 0.2:
                ws = g.words(1); g.leaf(ws, 'float', ['avoid', 'float'])
                out.append('<div style="float:%s;width:72px">%s</div>' % (rng.choice(['left', 'right']), ws[0]))
            elif r < 0.35:
                ws = g.words(1); g.leaf(ws, 'abs', ['avoid', 'abs'])
                out.append('<div style="position:absolute;right:0">%s</div>' % ws[0])
            elif r < 0.45 and depth < 2:
                st = []
                if rng.random() < 0.3: st.append('break-inside:avoid')
                if rng.random() < 0.3: st.append('break-before:avoid')
                out.append('<div style="%s">%s</div>' % (';'.join(st), seq(depth + 1)))
            else:
                nw = rng.choice([1, 1, 2, 3])
                ws = g.words(nw); g.leaf(ws, 'para', ['avoid'])
                st = []
                if rng.random() < 0.45: st.append('break-before:avoid')
                if rng.random() < 0.15: st.append('break-after:avoid')
                if rng.random() < 0.3: st.append('break-inside:avoid')
                if rng.random() < 0.3:      # a fixed height never smaller than the content
                    st.append('height:%dpx' % rng.choice([h for h in (10, 20, 30) if h >= 10 * nw]))
                    # floats can still push its lines below the page bottom: sanctioned clipping (R4 of DESIGN.md)
                    g.leaves[-1]['fixed_height'] = True
                out.append('<p style="%s">%s</p>' % (';'.join(st), '<br>'.join(ws)))
        return ''.join(out)
    html = ('<style>@page{size:200px %dpx; margin:0} html{font-family:weasyprint;font-size:10px;line-height:10px}'
            'body{margin:0} p{margin:0}</style>' % H) + seq(0)
    return html, g.leaves, H


def check(run):
    rng = random.Random(run.seed * 7919 + 1)
    thorough = run.tier == 'thorough'
    common.prove(run, 'C01', ['model/FragSpec.vo'])
    run.trusted += ['Coq 8.16.1 kernel (coqc); vm_compute for the cases.v evaluation',
                    'coq/model/Frag2.v is a hand-written model of block.py/page.py fragmentation: tied to /repo only by '
                    'the frag2-render correspondence stream (same pages, same line positions)',
                    'render harness (Python), test font letters a-h = 1em']
    run.assumptions += ['theorems cover the block/paragraph resume protocol (block_container_layout, _linebox_layout, '
                        '_break_line, _in_flow_layout, find_earlier_page_break, page loop); tables, columns, flex, grid, '
                        'floats, absolutes, footnotes are covered by the per-element monitor only',
                        'wide stream shaping: floats/absolutes/flex/grid items hold one line (never fragmented); '
                        'footnotes are not generated inside multi-column containers (open finding F67)']
    # ---- stream 1: model grammar, model pages = implementation pages, conservation judged in Coq on impl pages
    try:
        res = fragcheck.frag_stream(run, rng, 3000 if thorough else 500, 'c01frag')
        mism = [d for d, m in res if m & 1]
        run.oblige('corr:frag2-render(model pages = implementation pages)', not mism,
                   'first disagreements: %s' % [(d['H'], d['html']) for d in mism[:2]])
        run.oblige('corr:frag2-render(generated trees inside the model grammar)', not any(m & 8 for _, m in res))
        run.oblige('corr:frag2-render(model fuel)', not any(m & 16 for _, m in res))
        for d, m in res:
            if m & 2:
                run.fail('words of the rendered pages differ from the words of the document (lost, duplicated or reordered)',
                         {'stream': 'frag2-render', 'html': d['html'], 'pages': d['pages']})
                break
        multi = [d for d, _ in res if len(d['pages']) > 1]
        run.count('frag2-render', len(res), [fragcheck.doc_key(d) for d in multi],
                  samples=[res[0][0]['html'][-400:]] if res else [])
        run.stream_info('frag2-render', rule='random documents of the model grammar (fraggen.py); distinct_nontrivial counts '
                        'distinct documents that are split over at least two pages',
                        multi_page=len(multi), pages_hist=dict(collections.Counter(min(len(d['pages']), 10) for d, _ in res)))
    except RuntimeError as exc:
        run.oblige('corr:frag2-render', False, str(exc))
    # ---- stream 2: wide grammar, per-element conservation judged on implementation output (Python monitor)
    docs = fragcheck.wide_stream(run, rng, 2500 if thorough else 400, 'c01wide',
                                 feats=widegen.ALL_FEATS)
    docs += fragcheck.wide_stream(run, rng, 2000 if thorough else 400, 'c01avoid', docs=[avoid_document(rng) for _ in range(2000 if thorough else 400)])
    # tables and multi-column boxes split over several pages (cells that stall, column-span, avoided breaks)
    docs += fragcheck.wide_stream(run, rng, 1500 if thorough else 300, 'c01split',
                                  docs=[widegen.split_document(rng) for _ in range(1500 if thorough else 300)])
    # inline formatting contexts with line breaking inside decorated inline boxes (end spacing, nested boxes, rtl)
    docs += fragcheck.wide_stream(run, rng, 1500 if thorough else 300, 'c01inline',
                                  docs=[widegen.inline_document(rng) for _ in range(1500 if thorough else 300)])
    kinds = collections.Counter()
    nontrivial = []
    for html, leaves, H, pages in docs:
        for lf in leaves:
            kinds[lf['kind']] += 1
        if len(pages) > 1:
            nontrivial.append((H, len(leaves), len(pages), hash(html) & 0xffff))
        # footnotes in columns are the listed finding F67: the generator keeps them, the signature classifies them
        for failure, lf in fragcheck.judge_conservation(leaves, pages)[:2]:
            run.fail('%s: words %s of a %s (context %s)' % (failure, lf['words'][:4], lf['kind'], '/'.join(lf['ctx'])),
                     {'stream': 'wide-conservation', 'html': html, 'failure': failure, 'leaf': lf, 'pages': pages},
                     signature=fragcheck.signature_of(failure, lf))
    run.count('wide-conservation', len(docs), nontrivial, samples=[docs[0][0][-500:]] if docs else [])
    run.stream_info('wide-conservation', leaf_kinds=dict(kinds),
                    rule='widegen.py: blocks, inline markup, lists, tables (head/foot/colspan), multi-column, floats, '
                         'absolutes, fixed, footnotes, flex, grid, display:none, all break values, orphans/widows; paragraphs broken '
                         'inside decorated / nested inline boxes (many words per line, start / end spacing, rtl); judged: every '
                         'word exactly once (repeatable: table head/foot, fixed; droppable: display:none), per-element order, '
                         'consecutive pages; non-trivial = more than one page')
    # ---- the listed finding is re-run every time
    (st, o), = common.run_impl('impl_wide', 'render_words', [{'html': fragcheck.F67_WITNESS}])
    if st == 'ok' and 'faaaaaa' not in [w for p in o['pages'] for w in p]:
        run.fail('footnote lost in a multi-column container', {'stream': 'probe-F67', 'html': fragcheck.F67_WITNESS},
                 signature='lost:footnote-in-columns')


def replay(data):
    d = data.get('data', {})
    if d.get('stream') == 'frag2-render':
        rng = random.Random(0)
        print('re-render and compare with the model:')
        (st, o), = common.run_impl('impl_frag', 'render_lines', [{'html': d['html']}])
        print(st, o)
        return 1
    if d.get('stream') in ('wide-conservation', 'probe-F67'):
        (st, o), = common.run_impl('impl_wide', 'render_words', [{'html': d['html']}])
        print(st, o if st != 'ok' else o['pages'])
        if 'leaf' in d and st == 'ok':
            bad = fragcheck.judge_conservation([d['leaf']], o['pages'])
            bad = [b for b in bad if b[0] != 'unknown-word']
            print('judge:', bad)
            return 1 if bad else 0
        return 1
    return 0
