"""Implementation-side functions for C12 (run in worker processes; weasyprint imported from REPO)."""
import math


def _num(x):
    if isinstance(x, (int, float)):
        if math.isfinite(x):
            return float(x)
        return repr(x)
    return repr(x)


def _unwrap(b):
    # AbsolutePlaceholder wraps its box in ._box
    return getattr(b, '_box', b)


def _rec(b):
    el = b.element
    return dict(
        id=(el.get('id') if el is not None else None), tag=b.element_tag, cls=type(b).__name__,
        x=_num(b.position_x), y=_num(b.position_y), w=_num(b.width), h=_num(b.height),
        ml=_num(b.margin_left), mr=_num(b.margin_right), mt=_num(b.margin_top), mb=_num(b.margin_bottom),
        pl=_num(b.padding_left), pr=_num(b.padding_right), pt=_num(b.padding_top), pb=_num(b.padding_bottom),
        bl=_num(b.border_left_width), br=_num(b.border_right_width), bt=_num(b.border_top_width),
        bb=_num(b.border_bottom_width))


def _find(box, ident):
    el = getattr(box, 'element', None)
    if el is not None and el.get('id') == ident and not getattr(box, 'is_anonymous', False):
        return box
    for c in getattr(box, 'children', ()) or ():
        r = _find(_unwrap(c), ident)
        if r is not None:
            return r
    return None


def render_container(case):
    """case: dict(html=..., cid='c').  Returns dict(pages=n, c=record of the container #cid on the first page
    where it appears, items=[records of its children boxes that carry an id, in box-tree order])."""
    from tests.testing_utils import render_pages
    pages = render_pages(case['html'])
    cid = case.get('cid', 'c')
    out = {'pages': len(pages), 'c': None, 'items': [], 'frags': 0}
    for page in pages:
        c = _find(page, cid)
        if c is None:
            continue
        out['frags'] += 1
        if out['c'] is None:
            out['c'] = _rec(c)
            for ch in c.children:
                ch = _unwrap(ch)
                if ch.element is not None and ch.element.get('id'):
                    r = _rec(ch)
                    r['nchildren'] = len(getattr(ch, 'children', ()) or ())
                    out['items'].append(r)
    return out


def _lines(box, out):
    from weasyprint.formatting_structure import boxes
    if isinstance(box, boxes.LineBox):
        text = []

        def w(x):
            if hasattr(x, 'text'):
                text.append(x.text)
            for c in getattr(x, 'children', ()) or ():
                w(c)
        w(box)
        out.append((''.join(text), _num(box.position_y), _num(box.height)))
        return
    for c in getattr(box, 'children', ()) or ():
        _lines(_unwrap(c), out)


def render_flex_pages(case):
    """case: dict(html=..., cid='c') -> list of pages, each dict(c=record of the fragment of #cid or None,
    items=[record + lines [(text, y, height)] of its children with an id, in box-tree order])"""
    from tests.testing_utils import render_pages
    pages = render_pages(case['html'])
    cid = case.get('cid', 'c')
    out = []
    for page in pages:
        c = _find(page, cid)
        rec = {'c': None, 'items': [], 'page_h': _num(page.height)}
        if c is not None:
            rec['c'] = _rec(c)
            for ch in c.children:
                ch = _unwrap(ch)
                if ch.element is not None and ch.element.get('id'):
                    r = _rec(ch)
                    r['lines'] = []
                    _lines(ch, r['lines'])
                    rec['items'].append(r)
        out.append(rec)
    return out


def template_areas(case):
    """case: dict(value=<the text of a grid-template-areas value>).  Parses it as a style sheet would (tinycss2) and
    calls the validator.  Returns None when the declaration is invalid, 'none', or the rows as lists of names / None."""
    import tinycss2
    from weasyprint.css.utils import remove_whitespace
    from weasyprint.css.validation import properties
    tokens = remove_whitespace(tinycss2.parse_component_value_list(case['value']))
    r = properties.grid_template_areas(tokens)
    if r is None or r == 'none':
        return r
    return [list(row) for row in r]
