"""Implementation-side functions for C05 (run in worker processes; weasyprint imported from REPO)."""
from fractions import Fraction
from types import SimpleNamespace


def _v(x):
    return 'auto' if x == 'auto' else Fraction(x)


def blw(case):
    """case: dict(ml, mr, w, pl, pr, bl, br, px, cbw, mode) ; mode in tuple|ltr|rtl|ltrcol|rtlcol
    returns [margin_left, margin_right, width, position_x] as 'n/d' strings (or 'auto')."""
    from weasyprint.layout import block
    from weasyprint.formatting_structure import boxes
    box = SimpleNamespace(
        margin_left=_v(case['ml']), margin_right=_v(case['mr']), width=_v(case['w']),
        padding_left=Fraction(case['pl']), padding_right=Fraction(case['pr']),
        border_left_width=Fraction(case['bl']), border_right_width=Fraction(case['br']),
        position_x=Fraction(case['px']), is_column=case['mode'].endswith('col'))
    if case['mode'] == 'tuple':
        cb = (Fraction(case['cbw']), Fraction(0))
    else:
        cb = object.__new__(boxes.BlockBox)
        cb.width = Fraction(case['cbw'])
        cb.style = {'direction': 'rtl' if case['mode'].startswith('rtl') else 'ltr'}
    block.block_level_width.without_min_max(box, cb)
    return [str(box.margin_left), str(box.margin_right), str(box.width), str(box.position_x)]


def collapse(case):
    from weasyprint.layout import block
    return str(block.collapse_margin([Fraction(x) for x in case]))


def blw_minmax(case):
    """the decorated function (handle_min_max_width)."""
    from weasyprint.layout import block
    box = SimpleNamespace(
        margin_left=_v(case['ml']), margin_right=_v(case['mr']), width=_v(case['w']),
        padding_left=Fraction(case['pl']), padding_right=Fraction(case['pr']),
        border_left_width=Fraction(case['bl']), border_right_width=Fraction(case['br']),
        position_x=Fraction(case['px']), is_column=False,
        min_width=Fraction(case['minw']), max_width=(Fraction(case['maxw']) if case['maxw'] != 'inf' else float('inf')))
    cb = (Fraction(case['cbw']), Fraction(0))
    block.block_level_width(box, cb)
    return [str(box.margin_left), str(box.margin_right), str(box.width), str(box.position_x)]


USED_NAMES = ['margin_left', 'margin_right', 'margin_top', 'margin_bottom', 'padding_left', 'padding_right',
              'padding_top', 'padding_bottom', 'border_left_width', 'border_right_width', 'border_top_width',
              'border_bottom_width', 'width', 'min_width', 'max_width', 'height', 'min_height', 'max_height']
LENGTH_NAMES = ['margin_left', 'margin_right', 'margin_top', 'margin_bottom', 'padding_left', 'padding_right',
                'padding_top', 'padding_bottom', 'width', 'min_width', 'max_width', 'height', 'min_height', 'max_height']


def resolve_pct(case):
    """resolve_percentages on a stub box with exact rationals.  case: dict(kw, collapse, has=[l, r, t, b],
    lengths=[14 x 'auto' | ['px', v] | ['%', v]], borders=[l, r, t, b], cbw, cbh ('auto' or number))
    -> the 18 used values as strings."""
    from weasyprint.layout.percent import resolve_percentages
    from weasyprint.css.properties import Dimension
    style = {'box_sizing': case['kw'], 'border_collapse': 'collapse' if case['collapse'] else 'separate'}
    for name, v in zip(LENGTH_NAMES, case['lengths']):
        style[name] = 'auto' if v == 'auto' else Dimension(Fraction(v[1]), v[0])
    for side, v in zip(('left', 'right', 'top', 'bottom'), case['borders']):
        style['border_%s_width' % side] = Fraction(v)
    box = SimpleNamespace(style=style)
    for side, h in zip(('left', 'right', 'top', 'bottom'), case['has']):
        if h:
            setattr(box, 'border_%s_width' % side, Fraction(99))
    cb = (Fraction(case['cbw']), 'auto' if case['cbh'] == 'auto' else Fraction(case['cbh']))
    resolve_percentages(box, cb)
    return [str(getattr(box, n)) for n in USED_NAMES]


# ------------------------------------------------------------------ full renders: geometry of block trees

def _walk(box, out, parent=None):
    from weasyprint.formatting_structure import boxes
    if isinstance(box, boxes.BlockBox) and not isinstance(box, boxes.PageBox):
        out.append((box, parent))
    for c in getattr(box, 'children', ()) or ():
        _walk(c, out, box if isinstance(box, (boxes.BlockBox,)) else parent)


def render_geometry(case):
    """case: dict(html=..., ) -> list of block box records (tree order) with used values."""
    from tests.testing_utils import render_pages
    from weasyprint.formatting_structure import boxes
    pages = render_pages(case['html'])
    recs = []
    for pi, page in enumerate(pages):
        html = page.children[0]
        lst = []
        _walk(html, lst)
        ids = {id(b): i for i, (b, _) in enumerate(lst)}
        for b, parent in lst:
            def num(x):
                return x if isinstance(x, (int, float)) else repr(x)
            recs.append(dict(
                page=pi, idx=ids[id(b)], parent=(ids.get(id(parent)) if parent is not None else None),
                tag=b.element_tag, eid=(b.element.get('id') if b.element is not None else None),
                anon=(b.element is None or getattr(b, 'is_anonymous', False)),
                x=num(b.position_x), y=num(b.position_y), w=num(b.width), h=num(b.height),
                ml=num(b.margin_left), mr=num(b.margin_right), mt=num(b.margin_top), mb=num(b.margin_bottom),
                pl=num(b.padding_left), pr=num(b.padding_right), pt=num(b.padding_top), pb=num(b.padding_bottom),
                bl=num(b.border_left_width), br=num(b.border_right_width), bt=num(b.border_top_width),
                bb=num(b.border_bottom_width),
                minw=num(getattr(b, 'min_width', 0)), maxw=num(getattr(b, 'max_width', float('inf'))),
                minh=num(getattr(b, 'min_height', 0)), maxh=num(getattr(b, 'max_height', float('inf'))),
                direction=b.style['direction'], normal=b.is_in_normal_flow(),
                nlines=sum(1 for c in b.children if isinstance(c, boxes.LineBox)),
                s_w=str(b.style['width']), s_ml=str(b.style['margin_left']), s_mr=str(b.style['margin_right']),
                # the declarations as written (the computed style is part of what is judged)
                sty=(b.element.get('style') if b.element is not None and not getattr(b, 'is_anonymous', False) else None),
                nkids=sum(1 for c in b.children if not isinstance(c, boxes.LineBox)),
            ))
    return recs
