import sys, os, argparse, importlib, json, traceback
sys.path.insert(0, os.path.dirname(os.path.abspath(__file__)))
import common


def main():
    ap = argparse.ArgumentParser()
    ap.add_argument('prop')
    ap.add_argument('--tier', default=os.environ.get('VERIF_TIER', 'quick'))
    ap.add_argument('--replay')
    a = ap.parse_args()
    seed = int(os.environ.get('VERIF_SEED', '0'))
    prop = a.prop.upper()
    mod = importlib.import_module('p_' + prop.lower())
    if a.replay:
        sys.exit(mod.replay(json.load(open(a.replay))))
    run = common.Run(prop, a.tier, seed)
    try:
        mod.check(run)
    except Exception:
        run.oblige('harness:exception', False, traceback.format_exc())
    sys.exit(run.finish('./check %s --tier %s' % (prop, a.tier)))


if __name__ == '__main__':
    main()
