"""C13 - replaced content: sizing rules, painted rectangle, lossless embedding."""
import random, itertools, math, json
from fractions import Fraction
import common
from common import qlit

PRE = ('From Coq Require Import QArith ZArith List Bool String.\n'
       'Require Import WV.model.C13Replaced WV.model.C13Spec WV.model.C13Judge WV.model.C13Background WV.model.C13Stream.\n'
       'Import ListNotations.\nOpen Scope Q_scope.\n')

F = Fraction


def oq(x):
    return 'None' if x is None else '(Some %s)' % qlit(F(x))


def blit(b):
    return 'true' if b else 'false'


def fs(x):
    """Fractions as strings in cases (JSON-able)"""
    return None if x is None else str(F(x))


# ------------------------------------------------------------------------------------------------ generators

def rq(rng, lo=0, hi=200, dens=(1, 1, 1, 2, 3, 7)):
    return F(rng.randint(lo, hi), rng.choice(dens))


def gen_intr(rng):
    """(iw, ih, ir): mostly consistent positive triples masked by a None pattern; sometimes odd values"""
    r = rng.random()
    if r < 0.75:
        w = rng.choice([F(1), F(4), F(40), F(100, 3), F(300), rq(rng, 1, 400)])
        h = rng.choice([F(1), F(4), F(30), F(50, 7), F(150), rq(rng, 1, 400)])
        t = [w, h, w / h]
    elif r < 0.9:
        t = [rq(rng, 0, 100), rq(rng, 0, 100), rng.choice([F(0), F(1), F(2), F(1, 3), rq(rng, 0, 9)])]
    else:
        t = [rng.choice([F(0), F(-5), F(10)]), rng.choice([F(0), F(7)]), rng.choice([F(0), F(-1), F(3)])]
    mask = rng.choice([(1, 1, 1)] * 5 + list(itertools.product([0, 1], repeat=3)))
    return [v if m else None for v, m in zip(t, mask)]


SMALL_INTR = [(F(40), F(20), F(2)), (None, F(20), F(2)), (F(40), None, F(2)), (None, None, F(2)),
              (F(40), F(20), None), (F(40), None, None), (None, F(20), None), (None, None, None),
              (F(0), F(20), F(0)), (F(40), F(0), F(1)), (None, None, F(0)), (F(30), F(20), F(2))]


def gen_sizing(rng, n):
    cases = []
    base = dict(ml='0', mr='0', pl='0', pr='0', bl='0', br='0')
    # exhaustive: None patterns of the intrinsic triple x auto patterns x min/max situations x functions
    mm = [(F(0), F(0), None, None), (F(50), F(0), None, None), (F(0), F(0), F(25), None), (F(0), F(35), None, None),
          (F(0), F(0), None, F(12)), (F(50), F(35), None, None), (F(0), F(0), F(25), F(12)), (F(50), F(0), None, F(12)),
          (F(0), F(35), F(25), None), (F(30), F(0), F(10), None), (F(0), F(300), None, F(200)), (F(45), F(15), F(50), F(18))]
    for (iw, ih, ir), bw, bh, (minw, minh, maxw, maxh), fn in itertools.product(
            SMALL_INTR, [None, F(0), F(60)], [None, F(0), F(45)], mm, ['rbw_raw', 'rbw', 'rbh_raw', 'rbh', 'inline']):
        cases.append(dict(base, fn=fn, iw=fs(iw), ih=fs(ih), ir=fs(ir), bw=fs(bw), bh=fs(bh), minw=fs(minw), minh=fs(minh),
                          maxw=fs(maxw), maxh=fs(maxh), cbw='200'))
    rng.shuffle(cases)
    cases = cases[:max(600, n // 3)]
    # the min/max table on its own: all violation patterns incl. zero sizes
    for w, h, (minw, minh, maxw, maxh) in itertools.product([F(0), F(40), F(100, 3)], [F(0), F(20), F(7)], mm):
        cases.append(dict(base, fn='mmar', iw=None, ih=None, ir=rng.choice([None, '2', '2', '1/3']), bw=fs(w), bh=fs(h), minw=fs(minw), minh=fs(minh),
                          maxw=fs(maxw), maxh=fs(maxh), cbw='200'))
    while len(cases) < n:
        iw, ih, ir = gen_intr(rng)
        fn = rng.choice(['rbw_raw', 'rbw', 'rbh_raw', 'rbh', 'mmar', 'mmar', 'inline', 'inline', 'inline'])
        def dim():
            r = rng.random()
            return None if r < 0.45 else (F(0) if r < 0.5 else rq(rng, 0, 300))
        bw, bh = dim(), dim()
        if fn == 'mmar':
            bw = rq(rng, 0, 300) if rng.random() < 0.9 else F(0)
            bh = rq(rng, 0, 300) if rng.random() < 0.9 else F(0)
        def mn():
            return F(0) if rng.random() < 0.5 else rq(rng, 0, 200)
        def mx():
            return None if rng.random() < 0.5 else rq(rng, 0, 300)
        def mar():
            r = rng.random()
            return None if r < 0.2 else (F(0) if r < 0.5 else rq(rng, -10, 30))
        cases.append(dict(fn=fn, iw=fs(iw), ih=fs(ih), ir=fs(ir), bw=fs(bw), bh=fs(bh), minw=fs(mn()), minh=fs(mn()),
                          maxw=fs(mx()), maxh=fs(mx()), cbw=fs(rq(rng, 0, 400)), ml=fs(mar()), mr=fs(mar()),
                          pl=fs(rq(rng, 0, 9)), pr=fs(rq(rng, 0, 9)), bl=fs(rq(rng, 0, 4)), br=fs(rq(rng, 0, 4))))
    return cases


FNS = ['rbw_raw', 'rbw', 'rbh_raw', 'rbh', 'mmar', 'inline']


def parse_val(s):
    """-> (coq hv term, approx?)"""
    if s is None:
        return 'HNone', False
    if s == 'auto':
        return 'HAuto', False
    if s.startswith('f:'):
        v = s[2:]
        if v in ('inf', '-inf', 'nan'):
            return None, True
        return '(HNum %s)' % qlit(F(v)), True
    return '(HNum %s)' % qlit(F(s)), False


def coq_sizing_case(c, out):
    hsum = sum(F(c[k]) for k in ('ml', 'mr', 'pl', 'pr', 'bl', 'br') if c[k] is not None)
    approx = False
    if out == 'raise':
        o = 'None'
    else:
        (a, ap1), (b, ap2) = parse_val(out[0]), parse_val(out[1])
        if a is None or b is None:
            return None
        approx = ap1 or ap2
        o = '(Some (%s, %s))' % (a, b)
    return '(%d%%nat, (%s, %s), (%s, %s, %s), (%s, %s, %s, %s), (%s, %s), %s, %s)' % (
        FNS.index(c['fn']), oq(c['bw']), oq(c['bh']), oq(c['iw']), oq(c['ih']), oq(c['ir']),
        qlit(F(c['cbw'])), qlit(hsum), qlit(F(c['minw'])), qlit(F(c['minh'])), oq(c['maxw']), oq(c['maxh']),
        blit(approx), o)


SIZING_T = 'sizing_case'


def gen_constraint(rng, n):
    cases = []
    for cw, ch, r, cover in itertools.product([F(0), F(30), F(100)], [F(0), F(50), F(100, 3)],
                                              [None, F(0), F(1), F(2), F(3, 5), F(-1)], [False, True]):
        cases.append(dict(cw=fs(cw), ch=fs(ch), ir=fs(r), cover=cover))
    while len(cases) < n:
        cases.append(dict(cw=fs(rq(rng, 0, 500)), ch=fs(rq(rng, 0, 500)),
                          ir=fs(rng.choice([None, F(1), rq(rng, 0, 12), rq(rng, 1, 40, (1, 5, 9, 16))])),
                          cover=rng.random() < 0.5))
    return cases


def pair_out(out):
    if out == 'raise':
        return 'None'
    return '(Some (%s))' % ', '.join(qlit(F(x)) for x in out)


def gen_default(rng, n):
    cases = []
    for (iw, ih, ir), sw, sh in itertools.product(SMALL_INTR, [None, 'auto', F(0), F(70)], [None, 'auto', F(90)]):
        cases.append(dict(iw=fs(iw), ih=fs(ih), ir=fs(ir), sw=sw if sw == 'auto' else fs(sw),
                          sh=sh if sh == 'auto' else fs(sh), dw='300', dh='150'))
    while len(cases) < n:
        iw, ih, ir = gen_intr(rng)
        def sp():
            r = rng.random()
            return None if r < 0.25 else ('auto' if r < 0.5 else fs(rq(rng, 0, 300)))
        cases.append(dict(iw=fs(iw), ih=fs(ih), ir=fs(ir), sw=sp(), sh=sp(), dw=fs(rq(rng, 0, 500)), dh=fs(rq(rng, 0, 500))))
    return cases


FITS = ['fill', 'contain', 'cover', 'none', 'scale-down']


def gen_layout(rng, n):
    cases = []
    for (iw, ih, ir), fit, (right, bottom), (px, py) in itertools.product(
            SMALL_INTR, FITS, [(False, False), (True, True)],
            [(('pct', '0'), ('pct', '100')), (('pct', '50'), ('px', '7')), (('px', '-3'), ('pct', '25'))]):
        cases.append(dict(iw=fs(iw), ih=fs(ih), ir=fs(ir), fit=fit, right=right, bottom=bottom, px=px, py=py,
                          bw='60', bh='45', cx='11', cy='13'))
    while len(cases) < n:
        iw, ih, ir = gen_intr(rng)
        def pos():
            r = rng.random()
            if r < 0.3:
                return ('pct', rng.choice(['0', '50', '100']))
            if r < 0.7:
                return ('pct', fs(rq(rng, 0, 100)))
            if r < 0.8:
                return ('pct', fs(rq(rng, -50, 200)))
            return ('px', fs(rq(rng, -20, 60)))
        cases.append(dict(iw=fs(iw), ih=fs(ih), ir=fs(ir), fit=rng.choice(FITS), right=rng.random() < 0.3,
                          bottom=rng.random() < 0.3, px=pos(), py=pos(),
                          bw=fs(rng.choice([F(0), rq(rng, 0, 300)])), bh=fs(rq(rng, 0, 300)),
                          cx=fs(rq(rng, -10, 100)), cy=fs(rq(rng, 0, 100))))
    return cases


def lp(v):
    return '(%s %s)' % ('Px' if v[0] == 'px' else 'Pct', qlit(F(v[1])))


def coq_layout_case(c, out):
    o = 'None' if out == 'raise' else '(Some (%s))' % ', '.join(qlit(F(x)) for x in out)
    return '(%d%%nat, %s, %s, %s, %s, %s, %s, (%s, %s, %s), %s, %s, %s)' % (
        FITS.index(c['fit']), blit(c['right']), blit(c['bottom']), lp(c['px']), lp(c['py']), qlit(F(c['bw'])),
        qlit(F(c['bh'])), oq(c['iw']), oq(c['ih']), oq(c['ir']), qlit(F(c['cx'])), qlit(F(c['cy'])), o)


LAYOUT_T = 'nat * bool * bool * lenpct * lenpct * Q * Q * (oq * oq * oq) * Q * Q * option (Q * Q * Q * Q)'



# ------------------------------------------------------------------------------------------------ backgrounds

REPS = ['repeat', 'no-repeat', 'space', 'round']


def gen_bg(rng, n):
    cases = []
    def mk(i3, size, pw, ph, px, py, right, bottom, rx, ry):
        return dict(iw=fs(i3[0]), ih=fs(i3[1]), ir=fs(i3[2]), size=size, pw=fs(pw), ph=fs(ph), paw=fs(F(pw) + 6),
                    pah=fs(F(ph) + 8), ox='10', oy='20', px=px, py=py, right=right, bottom=bottom, rx=rx, ry=ry)
    sizes = ['cover', 'contain', [None, None], [('px', '30'), None], [None, ('pct', '50')], [('pct', '25'), ('px', '10')],
             [('px', '0'), None]]
    for i3, size, rx, ry in itertools.product(SMALL_INTR[:8] + [SMALL_INTR[8]], sizes, REPS, REPS):
        cases.append(mk(i3, size, 100, 90, ('pct', '50'), ('px', '5'), False, True, rx, ry))
    rng.shuffle(cases)
    cases = cases[:max(500, n // 2)]
    while len(cases) < n:
        i3 = gen_intr(rng)
        def lp():
            r = rng.random()
            if r < 0.35:
                return ('pct', rng.choice(['0', '50', '100', '25']))
            if r < 0.7:
                return ('pct', fs(rq(rng, 0, 100)))
            return ('px', fs(rq(rng, -20, 80)))
        def sz():
            r = rng.random()
            if r < 0.4:
                return None
            return ('px', fs(rq(rng, 0, 150))) if r < 0.7 else ('pct', fs(rq(rng, 0, 150)))
        size = rng.choice(['cover', 'contain', None, None, None])
        if size is None:
            size = [sz(), sz()]
        cases.append(mk(i3, size, rng.choice([F(0), rq(rng, 1, 300), rq(rng, 1, 300)]), rq(rng, 0, 300), lp(), lp(),
                        rng.random() < 0.3, rng.random() < 0.3, rng.choice(REPS), rng.choice(REPS)))
    return cases


def olp(v):
    return 'None' if v is None else '(Some %s)' % lp(v)


def coq_bg_case(c, out):
    if out == 'raise':
        o = 'ORaise'
    elif out == 'unused':
        o = 'OUnused'
    else:
        if any(x.startswith('f:') for x in out['layer'] + (out['draw'] or [])):
            return None
        d = 'None' if out['draw'] is None else '(Some (%s))' % ', '.join(qlit(F(x)) for x in out['draw'])
        o = '(OLayer (%s) %s)' % (', '.join(qlit(F(x)) for x in out['layer']), d)
    size = {'cover': 'BCover', 'contain': 'BContain'}.get(c['size']) if isinstance(c['size'], str) else \
        '(BSize %s %s)' % (olp(c['size'][0]), olp(c['size'][1]))
    return '((%s, %s, %s), %s, (%s, %s), (%s, %s), (%s, %s), (%d%%nat, %d%%nat), (%s, %s), %s)' % (
        oq(c['iw']), oq(c['ih']), oq(c['ir']), size, qlit(F(c['pw'])), qlit(F(c['ph'])), blit(c['right']), blit(c['bottom']),
        lp(c['px']), lp(c['py']), REPS.index(c['rx']), REPS.index(c['ry']), qlit(F(c['paw'])), qlit(F(c['pah'])), o)


# ------------------------------------------------------------------------------------------------ streams

def has_float(out):
    return out != 'raise' and any(isinstance(x, str) and x.startswith('f:') for x in out)


def direct_stream(run, name, impl_fn, cases, to_coq, case_type, judge, key, what):
    """run the implementation, judge inside Coq; returns list of (case, out, mask)"""
    outs = common.run_impl('impl_c13', impl_fn, cases)
    coq_cases, kept = [], []
    for c, (st, o) in zip(cases, outs):
        if st != 'ok':
            run.fail('%s raised %s' % (impl_fn, o), {'stream': name, 'case': c, 'outcome': o}, signature='c13:%s-raise' % name)
            continue
        t = to_coq(c, o)
        if t is None:
            continue
        coq_cases.append(t); kept.append((c, o))
    try:
        masks = common.eval_cases('c13' + name.replace('-', ''), PRE, case_type, coq_cases, judge)
    except RuntimeError as exc:
        run.oblige('corr:' + name, False, str(exc))
        return []
    mism = [(c, o) for (c, o), m in zip(kept, masks) if m & 1]
    run.oblige('corr:%s(hand model vs CPython, exact rationals)' % name, not mism, 'first disagreements: %s' % mism[:3])
    for (c, o), m in zip(kept, masks):
        if m & 2:
            run.fail('%s: implementation output violates %s' % (impl_fn, what), {'stream': name, 'case': c, 'impl_output': o},
                     signature='c13:%s-spec' % name)
            break
    run.count(name, len(kept), [key(c, o) for c, o in kept],
              samples=[{'case': kept[0][0], 'impl': kept[0][1]}, {'case': kept[-1][0], 'impl': kept[-1][1]}] if kept else [])
    return [(c, o, m) for (c, o), m in zip(kept, masks)]


def nonepat(c):
    return tuple(c[k] is None for k in ('iw', 'ih', 'ir'))


def check(run):
    rng = random.Random(run.seed * 7919 + 13)
    thorough = run.tier == 'thorough'
    k = 8 if thorough else 1
    common.prove(run, 'C13', ['model/C13Judge.vo'])
    run.trusted += ['Coq 8.16.1 kernel (coqc); vm_compute for the cases.v evaluation',
                    'hand-written Gallina models (coq/model/C13*.v) tied to /repo only by the correspondence streams',
                    'harness stubs (SimpleNamespace/Fraction), the PDF reader in impl_c13.py, Pillow and zlib as decoders']
    # ---- direct streams
    direct_stream(run, 'constraint-direct', 'constraint', gen_constraint(rng, 700 * k),
                  lambda c, o: '(%s, %s, %s, %s, %s)' % (qlit(F(c['cw'])), qlit(F(c['ch'])), oq(c['ir']), blit(c['cover']), pair_out(o)),
                  'Q * Q * oq * bool * option (Q * Q)', 'constraint_judge',
                  lambda c, o: (c['ir'] is None, c['cover'], o == 'raise', F(c['cw']) > F(c['ch']) * F(c['ir'] or 1), c['cw'], c['ch']),
                  'contain/cover (inside/covering, touching, ratio)')
    run.stream_info('constraint-direct', rule='108 small combinations (ratio None/0/negative included) + random rationals; '
                    'distinct = (ratio None?, cover, raises, wider-than-ratio, cw, ch)')
    direct_stream(run, 'default-sizing-direct', 'default_sizing', gen_default(rng, 900 * k),
                  lambda c, o: '((%s, %s, %s), %s, %s, %s, %s, %s)' % (
                      oq(c['iw']), oq(c['ih']), oq(c['ir']), oq(None if c['sw'] == 'auto' else c['sw']),
                      oq(None if c['sh'] == 'auto' else c['sh']), qlit(F(c['dw'])), qlit(F(c['dh'])), pair_out(o)),
                  '(oq * oq * oq) * oq * oq * Q * Q * option (Q * Q)', 'default_judge',
                  lambda c, o: (nonepat(c), c['sw'] in (None, 'auto'), c['sh'] in (None, 'auto'), o == 'raise', c['dw']),
                  'n/a')
    run.stream_info('default-sizing-direct', rule='12 intrinsic triples x {None, auto, value} specified sizes exhaustively + random; '
                    'distinct = (None pattern, specified pattern, raises, default width)')
    res = direct_stream(run, 'sizing-direct', 'sizing', gen_sizing(rng, 3000 * k), coq_sizing_case, SIZING_T, 'sizing_judge',
                        lambda c, o: (c['fn'], nonepat(c), c['bw'] is None, c['bh'] is None, o == 'raise', has_float(o),
                                      c['maxw'] is None, c['maxh'] is None, c['minw'] == '0', c['minh'] == '0', c['bw'], c['bh']),
                        'CSS 2.1 10.3.2/10.6.2/10.4 (css_used_size_fn / table_fn)')
    run.stream_info('sizing-direct', rule='replaced_box_width/height (raw and decorated), min_max_auto_replaced, '
                    'inline_replaced_box_width_height on stub boxes: 12 intrinsic triples x auto patterns x 12 min/max situations '
                    'exhaustively (sampled) + zero sizes + random rationals; distinct = (function, None pattern, auto pattern, '
                    'raises, 1e-6 path, which min/max are set, sizes)',
                    raises=sum(1 for c, o, m in res if o == 'raise'), float_path=sum(1 for c, o, m in res if has_float(o)))
    direct_stream(run, 'layout-direct', 'rb_layout', gen_layout(rng, 1500 * k), coq_layout_case, LAYOUT_T, 'layout_judge',
                  lambda c, o: (c['fit'], nonepat(c), c['right'], c['bottom'], c['px'][0], c['py'][0], o == 'raise', c['bw'], c['bh']),
                  'object-fit / object-position (contain inside, cover covers, scale-down, alignment, inside content box)')
    bg_stream(run, rng, k)
    stream_streams(run, rng, k)
    run.stream_info('layout-direct', rule='replacedbox_layout on stub boxes: 12 intrinsic triples x 5 object-fit x origins x '
                    'px/% positions exhaustively + random; distinct = (fit, None pattern, origins, units, raises, box size)')


def bg_stream(run, rng, k):
    def sk(c, o):
        size = c['size'] if isinstance(c['size'], str) else tuple(None if v is None else v[0] for v in c['size'])
        return (nonepat(c), size, c['rx'], c['ry'], o if isinstance(o, str) else 'layer', c['px'][0], c['py'][0], c['pw'], c['ph'])
    res = direct_stream(run, 'background-direct', 'bg_layer', gen_bg(rng, 1500 * k), coq_bg_case, 'bg_case', 'bg_judge', sk,
                        'background-size/position/repeat (contain, cover, round fills, space distributes, alignment)')
    run.stream_info('background-direct', rule='layout_background_layer + draw_background_image on stub boxes/streams: 9 intrinsic '
                    'triples x 7 sizes x 16 repeat pairs exhaustively (sampled) + random sizes/positions/areas; distinct = '
                    '(None pattern, size kind, repeats, outcome, units, area)',
                    raises=sum(1 for c, o, m in res if o == 'raise'), unused=sum(1 for c, o, m in res if o == 'unused'))


def slit(x):
    return '"%s"' % x


def stream_streams(run, rng, k):
    # ---- Stream.add_image: random call sequences over few ids (collisions likely), prefix-related ids included
    cases = []
    idsets = [['aa', 'bb', 'cc'], ['a', 'a1', 'a0', '1a'], ['d41d8cd98f00b204e9800998ecf8427e', '0cc175b9c0f1b6a831c399e269772661'],
              ['', '0', '1', '01']]
    for n in range(250 * k):
        ids = rng.choice(idsets)
        m = rng.choice([0, 1, 2, 3, 5, 8, 13, 30])
        calls = [[rng.randrange(len(ids)), rng.random() < 0.6, str(rng.choice([F(1), F(1), F(1, 2), F(2, 3), rq(rng, 1, 9, (10,))]))]
                 for _ in range(m)]
        cases.append(dict(ids=ids, calls=calls))
    def to_coq(c, o):
        calls = '[%s]' % '; '.join('Call %d%%nat %s %s %s' % (i, slit(c['ids'][i]), blit(b), qlit(F(r))) for i, b, r in c['calls'])
        names = '[%s]' % '; '.join(slit(x) for x in o['names'])
        imgs = '[%s]' % '; '.join('Entry %s %d%%nat %s [%s]' % (slit(n), i, blit(b), '; '.join(qlit(F(r)) for r in rs))
                                  for n, i, b, rs in o['images'])
        xo = '[%s]' % '; '.join(slit(x) for x in o['xobjects'])
        return '(%s, %s, %s, %s)' % (calls, names, imgs, xo)
    direct_stream(run, 'add-image-direct', 'add_images', cases, to_coq, 'list call * list string * list entry * list string',
                  'stream_judge', lambda c, o: (tuple(c['ids']), len(c['calls']), len(o['images'])),
                  'image_embedded_once (one entry per (id, interpolate), names returned)')
    run.stream_info('add-image-direct', rule='random sequences of 0..30 Stream.add_image calls over 2-4 image ids (prefix-related '
                    'ids included), both interpolate flags, few dpi ratios; distinct = (id set, calls, entries)')
    cases = []
    for n in range(200 * k):
        keys = ['k%d' % i for i in range(rng.choice([1, 2, 3, 6]))]
        cases.append(dict(dicts=[[x for x in keys if rng.random() < 0.6] for _ in range(rng.choice([1, 2, 3, 5, 9]))]))
    def to_coq2(c, o):
        ds = '[%s]' % '; '.join('[%s]' % '; '.join(slit(x) for x in d) for d in c['dicts'])
        counts = '[%s]' % '; '.join('(%s, %d%%nat, %d%%nat)' % (slit(x), o['built'].get(x, 0), o['added'].get(x, 0)) for x in o['keys'])
        if not o['same']:
            counts = '[("different references", 0%nat, 0%nat)]'
        return '(%s, %s)' % (ds, counts)
    direct_stream(run, 'use-references-direct', 'use_refs', cases, to_coq2, 'list (list string) * list (string * nat * nat)',
                  'refs_judge', lambda c, o: (len(c['dicts']), len(o['keys']), sum(len(d) for d in c['dicts'])),
                  'each image XObject built and added to the PDF once')
    run.stream_info('use-references-direct', rule='1..9 resource dictionaries (page, groups, patterns) naming 1..6 images, processed '
                    'by pdf._use_references with counting stub images; distinct = (dictionaries, keys, references)')


def replay(data):
    d = data.get('data', {})
    print('nothing to replay for', d.get('stream'))
    return 0
