"""C13 - replaced content: sizing rules, painted rectangle, lossless embedding."""
import random, itertools, math, json
from fractions import Fraction
import common
from common import qlit

PRE = ('From Coq Require Import QArith ZArith List Bool String.\n'
       'Require Import WV.model.C13Replaced WV.model.C13Spec WV.model.C13Judge WV.model.C13Background WV.model.C13Stream.\n'
       'Import ListNotations.\nOpen Scope Q_scope.\n')

F = Fraction


def oq(x):
    return 'None' if x is None else '(Some %s)' % qlit(F(x))


def blit(b):
    return 'true' if b else 'false'


def fs(x):
    """Fractions as strings in cases (JSON-able)"""
    return None if x is None else str(F(x))


# ------------------------------------------------------------------------------------------------ generators

def rq(rng, lo=0, hi=200, dens=(1, 1, 1, 2, 3, 7)):
    return F(rng.randint(lo, hi), rng.choice(dens))


def gen_intr(rng):
    """(iw, ih, ir): mostly consistent positive triples masked by a None pattern; sometimes odd values"""
    r = rng.random()
    if r < 0.75:
        w = rng.choice([F(1), F(4), F(40), F(100, 3), F(300), rq(rng, 1, 400)])
        h = rng.choice([F(1), F(4), F(30), F(50, 7), F(150), rq(rng, 1, 400)])
        t = [w, h, w / h]
    elif r < 0.9:
        t = [rq(rng, 0, 100), rq(rng, 0, 100), rng.choice([F(0), F(1), F(2), F(1, 3), rq(rng, 0, 9)])]
    else:
        t = [rng.choice([F(0), F(-5), F(10)]), rng.choice([F(0), F(7)]), rng.choice([F(0), F(-1), F(3)])]
    mask = rng.choice([(1, 1, 1)] * 5 + list(itertools.product([0, 1], repeat=3)))
    return [v if m else None for v, m in zip(t, mask)]


SMALL_INTR = [(F(40), F(20), F(2)), (None, F(20), F(2)), (F(40), None, F(2)), (None, None, F(2)),
              (F(40), F(20), None), (F(40), None, None), (None, F(20), None), (None, None, None),
              (F(0), F(20), F(0)), (F(40), F(0), F(1)), (None, None, F(0)), (F(30), F(20), F(2))]


def gen_sizing(rng, n):
    cases = []
    base = dict(ml='0', mr='0', pl='0', pr='0', bl='0', br='0')
    # exhaustive: None patterns of the intrinsic triple x auto patterns x min/max situations x functions
    mm = [(F(0), F(0), None, None), (F(50), F(0), None, None), (F(0), F(0), F(25), None), (F(0), F(35), None, None),
          (F(0), F(0), None, F(12)), (F(50), F(35), None, None), (F(0), F(0), F(25), F(12)), (F(50), F(0), None, F(12)),
          (F(0), F(35), F(25), None), (F(30), F(0), F(10), None), (F(0), F(300), None, F(200)), (F(45), F(15), F(50), F(18))]
    for (iw, ih, ir), bw, bh, (minw, minh, maxw, maxh), fn in itertools.product(
            SMALL_INTR, [None, F(0), F(60)], [None, F(0), F(45)], mm, ['rbw_raw', 'rbw', 'rbh_raw', 'rbh', 'inline']):
        cases.append(dict(base, fn=fn, iw=fs(iw), ih=fs(ih), ir=fs(ir), bw=fs(bw), bh=fs(bh), minw=fs(minw), minh=fs(minh),
                          maxw=fs(maxw), maxh=fs(maxh), cbw='200'))
    rng.shuffle(cases)
    cases = cases[:max(600, n // 3)]
    # the min/max table on its own: all violation patterns incl. zero sizes
    for w, h, (minw, minh, maxw, maxh) in itertools.product([F(0), F(40), F(100, 3)], [F(0), F(20), F(7)], mm):
        cases.append(dict(base, fn='mmar', iw=None, ih=None, ir=rng.choice([None, '2', '2', '1/3']), bw=fs(w), bh=fs(h), minw=fs(minw), minh=fs(minh),
                          maxw=fs(maxw), maxh=fs(maxh), cbw='200'))
    while len(cases) < n:
        iw, ih, ir = gen_intr(rng)
        fn = rng.choice(['rbw_raw', 'rbw', 'rbh_raw', 'rbh', 'mmar', 'mmar', 'inline', 'inline', 'inline'])
        def dim():
            r = rng.random()
            return None if r < 0.45 else (F(0) if r < 0.5 else rq(rng, 0, 300))
        bw, bh = dim(), dim()
        if fn == 'mmar':
            bw = rq(rng, 0, 300) if rng.random() < 0.9 else F(0)
            bh = rq(rng, 0, 300) if rng.random() < 0.9 else F(0)
        def mn():
            return F(0) if rng.random() < 0.5 else rq(rng, 0, 200)
        def mx():
            return None if rng.random() < 0.5 else rq(rng, 0, 300)
        def mar():
            r = rng.random()
            return None if r < 0.2 else (F(0) if r < 0.5 else rq(rng, -10, 30))
        cases.append(dict(fn=fn, iw=fs(iw), ih=fs(ih), ir=fs(ir), bw=fs(bw), bh=fs(bh), minw=fs(mn()), minh=fs(mn()),
                          maxw=fs(mx()), maxh=fs(mx()), cbw=fs(rq(rng, 0, 400)), ml=fs(mar()), mr=fs(mar()),
                          pl=fs(rq(rng, 0, 9)), pr=fs(rq(rng, 0, 9)), bl=fs(rq(rng, 0, 4)), br=fs(rq(rng, 0, 4))))
    return cases


FNS = ['rbw_raw', 'rbw', 'rbh_raw', 'rbh', 'mmar', 'inline']


def parse_val(s):
    """-> (coq hv term, approx?)"""
    if s is None:
        return 'HNone', False
    if s == 'auto':
        return 'HAuto', False
    if s.startswith('f:'):
        v = s[2:]
        if v in ('inf', '-inf', 'nan'):
            return None, True
        return '(HNum %s)' % qlit(F(v)), True
    return '(HNum %s)' % qlit(F(s)), False


def coq_sizing_case(c, out):
    hsum = sum(F(c[k]) for k in ('ml', 'mr', 'pl', 'pr', 'bl', 'br') if c[k] is not None)
    approx = False
    if out == 'raise':
        o = 'None'
    else:
        (a, ap1), (b, ap2) = parse_val(out[0]), parse_val(out[1])
        if a is None or b is None:
            return None
        approx = ap1 or ap2
        o = '(Some (%s, %s))' % (a, b)
    return '(%d%%nat, (%s, %s), (%s, %s, %s), (%s, %s, %s, %s), (%s, %s), %s, %s)' % (
        FNS.index(c['fn']), oq(c['bw']), oq(c['bh']), oq(c['iw']), oq(c['ih']), oq(c['ir']),
        qlit(F(c['cbw'])), qlit(hsum), qlit(F(c['minw'])), qlit(F(c['minh'])), oq(c['maxw']), oq(c['maxh']),
        blit(approx), o)


SIZING_T = 'sizing_case'


def gen_constraint(rng, n):
    cases = []
    for cw, ch, r, cover in itertools.product([F(0), F(30), F(100)], [F(0), F(50), F(100, 3)],
                                              [None, F(0), F(1), F(2), F(3, 5), F(-1)], [False, True]):
        cases.append(dict(cw=fs(cw), ch=fs(ch), ir=fs(r), cover=cover))
    while len(cases) < n:
        cases.append(dict(cw=fs(rq(rng, 0, 500)), ch=fs(rq(rng, 0, 500)),
                          ir=fs(rng.choice([None, F(1), rq(rng, 0, 12), rq(rng, 1, 40, (1, 5, 9, 16))])),
                          cover=rng.random() < 0.5))
    return cases


def pair_out(out):
    if out == 'raise':
        return 'None'
    return '(Some (%s))' % ', '.join(qlit(F(x)) for x in out)


def gen_default(rng, n):
    cases = []
    for (iw, ih, ir), sw, sh in itertools.product(SMALL_INTR, [None, 'auto', F(0), F(70)], [None, 'auto', F(90)]):
        cases.append(dict(iw=fs(iw), ih=fs(ih), ir=fs(ir), sw=sw if sw == 'auto' else fs(sw),
                          sh=sh if sh == 'auto' else fs(sh), dw='300', dh='150'))
    while len(cases) < n:
        iw, ih, ir = gen_intr(rng)
        def sp():
            r = rng.random()
            return None if r < 0.25 else ('auto' if r < 0.5 else fs(rq(rng, 0, 300)))
        cases.append(dict(iw=fs(iw), ih=fs(ih), ir=fs(ir), sw=sp(), sh=sp(), dw=fs(rq(rng, 0, 500)), dh=fs(rq(rng, 0, 500))))
    return cases


FITS = ['fill', 'contain', 'cover', 'none', 'scale-down']


def gen_layout(rng, n):
    cases = []
    for (iw, ih, ir), fit, (right, bottom), (px, py) in itertools.product(
            SMALL_INTR, FITS, [(False, False), (True, True)],
            [(('pct', '0'), ('pct', '100')), (('pct', '50'), ('px', '7')), (('px', '-3'), ('pct', '25'))]):
        cases.append(dict(iw=fs(iw), ih=fs(ih), ir=fs(ir), fit=fit, right=right, bottom=bottom, px=px, py=py,
                          bw='60', bh='45', cx='11', cy='13'))
    while len(cases) < n:
        iw, ih, ir = gen_intr(rng)
        def pos():
            r = rng.random()
            if r < 0.3:
                return ('pct', rng.choice(['0', '50', '100']))
            if r < 0.7:
                return ('pct', fs(rq(rng, 0, 100)))
            if r < 0.8:
                return ('pct', fs(rq(rng, -50, 200)))
            return ('px', fs(rq(rng, -20, 60)))
        cases.append(dict(iw=fs(iw), ih=fs(ih), ir=fs(ir), fit=rng.choice(FITS), right=rng.random() < 0.3,
                          bottom=rng.random() < 0.3, px=pos(), py=pos(),
                          bw=fs(rng.choice([F(0), rq(rng, 0, 300)])), bh=fs(rq(rng, 0, 300)),
                          cx=fs(rq(rng, -10, 100)), cy=fs(rq(rng, 0, 100))))
    return cases


def lp(v):
    return '(%s %s)' % ('Px' if v[0] == 'px' else 'Pct', qlit(F(v[1])))


def coq_layout_case(c, out):
    o = 'None' if out == 'raise' else '(Some (%s))' % ', '.join(qlit(F(x)) for x in out)
    return '(%d%%nat, %s, %s, %s, %s, %s, %s, (%s, %s, %s), %s, %s, %s)' % (
        FITS.index(c['fit']), blit(c['right']), blit(c['bottom']), lp(c['px']), lp(c['py']), qlit(F(c['bw'])),
        qlit(F(c['bh'])), oq(c['iw']), oq(c['ih']), oq(c['ir']), qlit(F(c['cx'])), qlit(F(c['cy'])), o)


LAYOUT_T = 'nat * bool * bool * lenpct * lenpct * Q * Q * (oq * oq * oq) * Q * Q * option (Q * Q * Q * Q)'



# ------------------------------------------------------------------------------------------------ backgrounds

REPS = ['repeat', 'no-repeat', 'space', 'round']


def gen_bg(rng, n):
    cases = []
    def mk(i3, size, pw, ph, px, py, right, bottom, rx, ry):
        return dict(iw=fs(i3[0]), ih=fs(i3[1]), ir=fs(i3[2]), size=size, pw=fs(pw), ph=fs(ph), paw=fs(F(pw) + 6),
                    pah=fs(F(ph) + 8), ox='10', oy='20', px=px, py=py, right=right, bottom=bottom, rx=rx, ry=ry)
    sizes = ['cover', 'contain', [None, None], [('px', '30'), None], [None, ('pct', '50')], [('pct', '25'), ('px', '10')],
             [('px', '0'), None]]
    for i3, size, rx, ry in itertools.product(SMALL_INTR[:8] + [SMALL_INTR[8]], sizes, REPS, REPS):
        cases.append(mk(i3, size, 100, 90, ('pct', '50'), ('px', '5'), False, True, rx, ry))
    rng.shuffle(cases)
    cases = cases[:max(500, n // 2)]
    while len(cases) < n:
        i3 = gen_intr(rng)
        def lp():
            r = rng.random()
            if r < 0.35:
                return ('pct', rng.choice(['0', '50', '100', '25']))
            if r < 0.7:
                return ('pct', fs(rq(rng, 0, 100)))
            return ('px', fs(rq(rng, -20, 80)))
        def sz():
            r = rng.random()
            if r < 0.4:
                return None
            return ('px', fs(rq(rng, 0, 150))) if r < 0.7 else ('pct', fs(rq(rng, 0, 150)))
        size = rng.choice(['cover', 'contain', None, None, None])
        if size is None:
            size = [sz(), sz()]
        cases.append(mk(i3, size, rng.choice([F(0), rq(rng, 1, 300), rq(rng, 1, 300)]), rq(rng, 0, 300), lp(), lp(),
                        rng.random() < 0.3, rng.random() < 0.3, rng.choice(REPS), rng.choice(REPS)))
    return cases


def olp(v):
    return 'None' if v is None else '(Some %s)' % lp(v)


def coq_bg_case(c, out):
    if out == 'raise':
        o = 'ORaise'
    elif out == 'unused':
        o = 'OUnused'
    else:
        if any(x.startswith('f:') for x in out['layer'] + (out['draw'] or [])):
            return None
        d = 'None' if out['draw'] is None else '(Some (%s))' % ', '.join(qlit(F(x)) for x in out['draw'])
        o = '(OLayer (%s) %s)' % (', '.join(qlit(F(x)) for x in out['layer']), d)
    size = {'cover': 'BCover', 'contain': 'BContain'}.get(c['size']) if isinstance(c['size'], str) else \
        '(BSize %s %s)' % (olp(c['size'][0]), olp(c['size'][1]))
    return '((%s, %s, %s), %s, (%s, %s), (%s, %s), (%s, %s), (%d%%nat, %d%%nat), (%s, %s), %s)' % (
        oq(c['iw']), oq(c['ih']), oq(c['ir']), size, qlit(F(c['pw'])), qlit(F(c['ph'])), blit(c['right']), blit(c['bottom']),
        lp(c['px']), lp(c['py']), REPS.index(c['rx']), REPS.index(c['ry']), qlit(F(c['paw'])), qlit(F(c['pah'])), o)



# ------------------------------------------------------------------------------------------------ render monitor

CBW, CBH = 200, 120
# JPEG pixels are judged under optimize_images too (F64 fixed: tables kept; residual generation loss has its own signature)
OPTIMIZE_IS_LOSSLESS_FOR_JPEG = True   # judged; the open finding is met through its signature


def gen_pool(rng):
    pool = {}
    for k in range(rng.choice([2, 3, 3, 4])):
        r = rng.random()
        seed = rng.randrange(10 ** 6)
        if r < 0.5:
            mode = rng.choice(['L', 'LA', 'RGB', 'RGBA', 'P', '1'])
            pool['im%d.png' % k] = dict(kind='png', mode=mode, w=rng.randint(1, 12), h=rng.randint(1, 12), seed=seed,
                                        trns=(mode == 'P' and rng.random() < 0.4))
        elif r < 0.75:
            pool['im%d.jpg' % k] = dict(kind='jpeg', mode=rng.choice(['L', 'RGB', 'CMYK']), w=rng.randint(1, 16), h=rng.randint(1, 16),
                                        seed=seed, quality=rng.choice([60, 90, 100]))
        else:
            pat = rng.choice(['wh', 'wh', 'whv', 'v', 'wv', 'hv', 'w', 'h', ''])
            pool['im%d.svg' % k] = dict(kind='svg', seed=seed, w=rng.choice([8, 20, 33]) if 'w' in pat else None,
                                        h=rng.choice([6, 10, 25]) if 'h' in pat else None,
                                        vb=[rng.choice([10, 20, 7]), rng.choice([10, 5, 9])] if 'v' in pat else None)
    return pool


def intrinsic_of(spec, res):
    """what CSS / SVG say the intrinsic (width, height, ratio) are, from the generator's parameters"""
    if spec['kind'] != 'svg':
        return (F(spec['w']) / res, F(spec['h']) / res, F(spec['w'], spec['h']))
    w = None if spec['w'] is None else F(spec['w'])
    h = None if spec['h'] is None else F(spec['h'])
    if w is not None and h is not None:
        return (w, h, w / h)
    if spec['vb']:
        ratio = F(spec['vb'][0], spec['vb'][1])
        if w is not None:
            h = w / ratio
        elif h is not None:
            w = h * ratio
        return (w, h, ratio)
    return (w, h, None)


def css_len(v):
    return 'auto' if v is None else '%s%s' % (v[1], {'px': 'px', 'pct': '%', 'em': 'em'}[v[0]])


def norm_dim(u, v):
    """em lengths are computed against the font-size of the element that declares them"""
    if v is not None and v[0] == 'em':
        return ('px', str(F(v[1]) * F(u.get('fs', 10))))
    return v


def gen_dim(rng, auto=0.45):
    r = rng.random()
    if r < auto:
        return None
    if r < auto + (1 - auto) * 0.6:
        return ('px', str(rng.choice([0, 10, 30, 57, 150, 250])))
    return ('pct', str(rng.choice([10, 50, 100, 130])))


def gen_pos(rng):
    r = rng.random()
    if r < 0.6:
        return ('pct', str(rng.choice([0, 25, 50, 100, 100, 130])))
    return ('px', str(rng.choice([-5, 0, 7, 30])))


def gen_replaced_use(rng, k, pool):
    name = rng.choice(sorted(pool))
    spec = pool[name]
    tag = rng.choice(['img', 'img', 'img', 'object', 'embed', 'content', 'marker'])
    if tag == 'marker' and spec['kind'] == 'svg' and (spec['w'] is None or spec['h'] is None):
        tag = 'img'
    display = rng.choice(['inline', 'inline', 'block', 'inline-block', 'float', 'abs'])
    definite = display == 'abs' or rng.random() < 0.5
    u = dict(kind='replaced', id='u%d' % k, name=name, tag=tag, display=display, definite=definite,
             width=None, height=None, minw=None, minh=None, maxw=None, maxh=None, fit='fill', right=False, bottom=False,
             px=('pct', '50'), py=('pct', '50'), res=None, pixelated=rng.random() < 0.15)
    if tag == 'content':
        u['display'] = 'inline'
    if tag not in ('marker', 'content'):
        u['width'], u['height'] = gen_dim(rng), gen_dim(rng)
        for key in ('minw', 'minh', 'maxw', 'maxh'):
            u[key] = gen_dim(rng, 0.75)
        u['fit'] = rng.choice(FITS)
        if rng.random() < 0.7:
            u['px'], u['py'] = gen_pos(rng), gen_pos(rng)
            u['right'], u['bottom'] = rng.random() < 0.3, rng.random() < 0.3
        if rng.random() < 0.3:
            u['res'] = rng.choice(['2', '0.5', '4'])
    return u


def gen_bg_use(rng, k, pool):
    name = rng.choice(sorted(pool))
    def one():
        return gen_dim(rng, 0.4)
    size = rng.choice(['auto', 'contain', 'cover', 'pair', 'pair', 'pair'])
    return dict(kind='bg', id='bg%d' % k, name=name, W=rng.choice([100, 157]), H=rng.choice([60, 90]), P=rng.choice([0, 7]),
                B=rng.choice([0, 3]), size=[one(), one()] if size == 'pair' else ([None, None] if size == 'auto' else size),
                px=gen_pos(rng), py=gen_pos(rng), right=rng.random() < 0.3, bottom=rng.random() < 0.3,
                rx=rng.choice(REPS), ry=rng.choice(REPS), origin=rng.choice(['padding-box', 'border-box', 'content-box']),
                clip=rng.choice(['border-box', 'padding-box', 'content-box']), res=rng.choice([None, None, '2']),
                pixelated=rng.random() < 0.15)


def use_html(u):
    url = u['name']
    if u['kind'] == 'bg':
        size = u['size'] if isinstance(u['size'], str) else '%s %s' % (css_len(u['size'][0]), css_len(u['size'][1]))
        pos = '%s %s %s %s' % ('right' if u['right'] else 'left', css_len(u['px']), 'bottom' if u['bottom'] else 'top', css_len(u['py']))
        st = ('width:%dpx;height:%dpx;padding:%dpx;border:%dpx solid #ccc;margin:0 0 5px 0;background-image:url(%s);'
              'background-size:%s;background-position:%s;background-repeat:%s %s;background-origin:%s;background-clip:%s'
              % (u['W'], u['H'], u['P'], u['B'], url, size, pos, u['rx'], u['ry'], u['origin'], u['clip']))
        if u['res']:
            st += ';image-resolution:%sdppx' % u['res']
        if u['pixelated']:
            st += ';image-rendering:pixelated'
        return '<div id="%s" style="%s"></div>' % (u['id'], st)
    st = []
    for prop, key in (('width', 'width'), ('height', 'height'), ('min-width', 'minw'), ('min-height', 'minh'),
                      ('max-width', 'maxw'), ('max-height', 'maxh')):
        if u[key] is not None:
            st.append('%s:%s' % (prop, css_len(u[key])))
    st.append('object-fit:%s' % u['fit'])
    st.append('object-position:%s %s %s %s' % ('right' if u['right'] else 'left', css_len(u['px']),
                                               'bottom' if u['bottom'] else 'top', css_len(u['py'])))
    if u['res']:
        st.append('image-resolution:%sdppx' % u['res'])
    if u['pixelated']:
        st.append('image-rendering:pixelated')
    d = u['display']
    if d == 'float':
        st.append('float:left')
    elif d == 'abs':
        st.append('position:absolute;left:3px;top:4px')
    elif d != 'inline':
        st.append('display:%s' % d)
    style = ';'.join(st)
    cont = 'width:%dpx;%sposition:relative;margin:0 0 5px 0;overflow:hidden' % (CBW, 'height:%dpx;' % CBH if u['definite'] else '')
    tag = u['tag']
    if tag == 'img':
        inner = '<img id="%s" src="%s" style="%s">' % (u['id'], url, style)
    elif tag == 'object':
        inner = '<object id="%s" data="%s" style="%s"></object>' % (u['id'], url, style)
    elif tag == 'embed':
        inner = '<embed id="%s" src="%s" style="%s">' % (u['id'], url, style)
    elif tag == 'content':
        inner = '<style>#%s::before{content:url(%s);%s}</style><span id="%s">ab</span>' % (
            u['id'], url, 'image-rendering:pixelated' if u['pixelated'] else '', u['id'])
    else:
        inner = '<ul style="margin:0;padding:0 0 0 60px"><li id="%s" style="list-style-image:url(%s);%s">ab</li></ul>' % (
            u['id'], url, 'image-rendering:pixelated' if u['pixelated'] else '')
    return '<div style="%s">%s</div>' % (cont, inner)



def gen_canvas_doc(rng):
    """a background declared on <body> (html has none) or on <html>: propagated to the canvas, painted with the
    declaring element's style (image-resolution, font-size for em, size/position/repeat) on the page area"""
    pool = {}
    r = rng.random()
    if r < 0.7:
        pool['c0.png'] = dict(kind='png', mode=rng.choice(['RGB', 'RGBA', 'L']), w=rng.randint(2, 12), h=rng.randint(2, 12),
                              seed=rng.randrange(10 ** 6), trns=False)
    elif r < 0.85:
        pool['c0.jpg'] = dict(kind='jpeg', mode='RGB', w=rng.randint(4, 16), h=rng.randint(4, 16), seed=rng.randrange(10 ** 6), quality=90)
    else:
        pool['c0.svg'] = dict(kind='svg', seed=rng.randrange(10 ** 6), w=rng.choice([8, 20]), h=rng.choice([6, 10]), vb=None)
    u = gen_bg_use(rng, 0, pool)
    mx, my = rng.choice([(0, 0), (0, 0), (20, 10), (7, 13)])
    def em_or(v):
        return ('em', rng.choice(['1', '2', '1.5'])) if rng.random() < 0.3 else v
    if not isinstance(u['size'], str):
        u['size'] = [em_or(u['size'][0]), em_or(u['size'][1])]
    u.update(id='canvas', W=300 - 2 * mx, H=200 - 2 * my, P=0, B=0, fs=20, where=rng.choice(['body', 'html']),
             res=rng.choice([None, '2', '2', '0.5', '4']), px=em_or(u['px']), py=em_or(u['py']))
    size = u['size'] if isinstance(u['size'], str) else '%s %s' % (css_len(u['size'][0]), css_len(u['size'][1]))
    pos = '%s %s %s %s' % ('right' if u['right'] else 'left', css_len(u['px']), 'bottom' if u['bottom'] else 'top', css_len(u['py']))
    decl = ('font-size:20px;background-image:url(%s);background-size:%s;background-position:%s;background-repeat:%s %s;'
            'background-origin:%s;background-clip:%s' % (u['name'], size, pos, u['rx'], u['ry'], u['origin'], u['clip']))
    if u['res']:
        decl += ';image-resolution:%sdppx' % u['res']
    if u['pixelated']:
        decl += ';image-rendering:pixelated'
    html = ('<style>@page{size:300px 200px;margin:%dpx %dpx}html{margin:0;padding:0;%s}body{margin:0;height:50px;%s}</style>'
            '<body><p style="margin:0;font-size:10px">ab</p>' % (my, mx, decl if u['where'] == 'html' else '', decl if u['where'] == 'body' else ''))
    return dict(images=pool, uses=[u], html=html, pdf_options={'uncompressed_pdf': True})


def gen_monitor_doc(rng):
    pool = gen_pool(rng)
    uses = []
    for k in range(rng.choice([3, 5, 7])):
        uses.append(gen_bg_use(rng, k, pool) if rng.random() < 0.3 else gen_replaced_use(rng, k, pool))
    html = ('<style>@page{size:400px 4000px;margin:0}html,body{margin:0;padding:0;font-family:weasyprint;font-size:10px;'
            'line-height:10px}</style>' + ''.join(use_html(u) for u in uses))
    r = rng.random()
    opts = {}
    if r < 0.12:
        opts = {'optimize_images': True}
    elif r < 0.18:
        opts = {'jpeg_quality': 30}
    elif r < 0.24:
        opts = {'dpi': 20}
    return dict(images=pool, uses=uses, html=html, pdf_options=dict(opts, uncompressed_pdf=rng.random() < 0.5))


def fixed_docs():
    """witnesses of the defects found while building this check (A-F, all fixed in /repo): always rendered"""
    pool = {'r.png': dict(kind='png', mode='RGB', w=10, h=10, seed=1, trns=False),
            'w.png': dict(kind='png', mode='RGBA', w=4, h=2, seed=2, trns=False),
            'vb.svg': dict(kind='svg', seed=3, w=None, h=None, vb=[20, 10]),
            'wo.svg': dict(kind='svg', seed=4, w=50, h=None, vb=None)}
    def rep(k, name, **kw):
        u = dict(kind='replaced', id='u%d' % k, name=name, tag='img', display='inline', definite=False, width=None, height=None,
                 minw=None, minh=None, maxw=None, maxh=None, fit='fill', right=False, bottom=False, px=('pct', '50'),
                 py=('pct', '50'), res=None, pixelated=False)
        u.update(kw)
        return u
    def bg(k, name, **kw):
        u = dict(kind='bg', id='bg%d' % k, name=name, W=100, H=90, P=0, B=0, size=[None, None], px=('pct', '0'), py=('pct', '0'),
                 right=False, bottom=False, rx='repeat', ry='repeat', origin='padding-box', clip='border-box', res=None,
                 pixelated=False)
        u.update(kw)
        return u
    uses = [rep(0, 'vb.svg', display='abs', definite=True),                                   # A
            rep(1, 'r.png', height=('pct', '50'), maxh=('px', '10')),                         # B
            rep(2, 'r.png', height=('px', '200'), maxh=('px', '100')),                        # C
            rep(3, 'r.png', height=('px', '20'), minh=('px', '50')),                          # C
            rep(4, 'wo.svg', maxw=('px', '25')),                                              # D
            bg(5, 'w.png', H=0, size='contain', rx='round', ry='round'),                      # E
            bg(6, 'w.png', size=[('px', '0'), None], rx='round', ry='no-repeat'),             # E
            bg(7, 'w.png', right=True, rx='no-repeat', ry='round'),                           # F
            bg(8, 'w.png', px=('pct', '50'), py=('px', '5'), bottom=True, rx='round', ry='no-repeat')]   # F
    html = ('<style>@page{size:400px 4000px;margin:0}html,body{margin:0;padding:0;font-family:weasyprint;font-size:10px;'
            'line-height:10px}</style>' + ''.join(use_html(u) for u in uses))
    probe = dict(images={'o.png': dict(kind='png', mode='RGB', w=6, h=3, seed=5, trns=False)}, uses=[], probe='orientation',
                 html='<style>@page{size:400px 400px;margin:0}body{margin:0}</style><img id="o0" src="o.png">'
                      '<img id="o1" src="o.png" style="image-orientation:90deg">',
                 pdf_options={'uncompressed_pdf': True})
    return [dict(images=pool, uses=uses, html=html, pdf_options={'uncompressed_pdf': True}), probe]


def resolve_len(v, ref, default):
    if v is None:
        return default
    if v[0] == 'px':
        return F(v[1])
    return default if ref is None else F(v[1]) * ref / 100


def fq(x):
    """observed float/int -> exact Fraction literal"""
    return qlit(F(x))


def coq_mon_case(u, spec, box, draw):
    res = F(u['res']) if u['res'] and spec['kind'] != 'svg' else F(1)
    i3 = intrinsic_of(spec, res)
    hdef = F(CBH) if u['definite'] else None
    cw = resolve_len(u['width'], F(CBW), None)
    ch = resolve_len(u['height'], hdef, None)
    minw = resolve_len(u['minw'], F(CBW), F(0))
    minh = resolve_len(u['minh'], hdef, F(0))
    maxw = resolve_len(u['maxw'], F(CBW), None)
    maxh = resolve_len(u['maxh'], hdef, None)
    d = 'None' if draw is None else '(Some (%s, %s, %s, %s))' % (fq(draw['x']), fq(draw['y']), fq(draw['w']), fq(draw['h']))
    if u['tag'] == 'marker' and draw is not None:
        # an outside marker is shifted by a transform at draw time: its horizontal placement is not judged here
        box = dict(box, cx=draw['x'])
    return '((%s, %s), (%s, %s, %s), (%s, 0, %s, %s), (%s, %s), (%s, %s), (%d%%nat, %s, %s, %s, %s), (%s, %s), %s, %s)' % (
        oq(cw), oq(ch), oq(i3[0]), oq(i3[1]), oq(i3[2]), qlit(F(CBW)), qlit(minw), qlit(minh), oq(maxw), oq(maxh),
        fq(box['w']), fq(box['h']), FITS.index(u['fit']), blit(u['right']), blit(u['bottom']), lp(u['px']), lp(u['py']),
        fq(box['cx']), fq(box['cy']), blit(spec['kind'] != 'svg'), d)


def box_dims(u, which):
    w, h = F(u['W']), F(u['H'])
    if which in ('padding-box', 'border-box'):
        w, h = w + 2 * u['P'], h + 2 * u['P']
    if which == 'border-box':
        w, h = w + 2 * u['B'], h + 2 * u['B']
    off = {'border-box': 0, 'padding-box': u['B'], 'content-box': u['B'] + u['P']}[which]
    return w, h, F(off)


def coq_bgmon_case(u, spec, layer, draw):
    res = F(u['res']) if u['res'] and spec['kind'] != 'svg' else F(1)
    i3 = intrinsic_of(spec, res)
    pw, ph, off = box_dims(u, u['origin'])
    paw, pah, _ = box_dims(u, u['clip'])
    size = {'cover': 'BCover', 'contain': 'BContain'}.get(u['size']) if isinstance(u['size'], str) else \
        '(BSize %s %s)' % (olp(norm_dim(u, u['size'][0])), olp(norm_dim(u, u['size'][1])))
    u = dict(u, px=norm_dim(u, u['px']), py=norm_dim(u, u['py']))
    if layer is None or layer['unused']:
        out = 'None'
        ox, oy = off, F(0)
    else:
        ox, oy = F(layer['positioning'][0]), F(layer['positioning'][1])
        tile = 'None' if draw is None else '(Some (%s, %s, %s, %s))' % (fq(draw['x']), fq(draw['y']), fq(draw['w']), fq(draw['h']))
        steps = 'None' if draw is None or draw['pattern'] is None else '(Some (%s, %s))' % (
            fq(draw['pattern']['xstep']), fq(draw['pattern']['ystep']))
        out = '(Some ((%s), %s, %s))' % (', '.join(fq(v) for v in layer['size'] + layer['position']), tile, steps)
    return '((%s, %s, %s), %s, (%s, %s), (%s, %s), (%s, %s), (%d%%nat, %d%%nat), (%s, %s), (%s, %s), %s)' % (
        oq(i3[0]), oq(i3[1]), oq(i3[2]), size, qlit(pw), qlit(ph), blit(u['right']), blit(u['bottom']), lp(u['px']), lp(u['py']),
        REPS.index(u['rx']), REPS.index(u['ry']), qlit(paw), qlit(pah), qlit(ox), qlit(oy), out)


def mon_fail(run, what, d, extra, sig):
    run.fail(what, dict(stream='render-monitor', html=d['html'], images=d['images'], pdf_options=d['pdf_options'],
                        uses=d['uses'], **extra),
             signature=sig)


def monitor_prepare(run, docs, outs):
    mon_cases, mon_meta, bg_cases, bg_meta = [], [], [], []
    n_x = n_draws = n_svg = 0
    seen = set()
    def fail(what, d, extra, sig):
        mon_fail(run, what, d, extra, sig)
    for d, (st, o) in zip(docs, outs):
        if st != 'ok':
            fail('render raised %s' % ((o if st == 'timeout' else (o['type'], o['site'], o['msg'])),), d, {'outcome': str(o)[:800]},
                 'crash:%s' % ((o or {}).get('site'),) if st == 'exc' else 'timeout')
            continue
        if o['pdf_problems']:
            fail('PDF structure problems: %s' % o['pdf_problems'], d, {}, 'c13:pdf-structure')
        if d.get('probe') == 'orientation':
            sizes = {b['id']: (b['w'], b['h']) for b in o['boxes']}
            if sizes != {'o0': (6, 3), 'o1': (3, 6)}:
                fail('one image used with two image-orientation values: sizes %s, expected o0 6x3 and o1 3x6' % sizes, d,
                     {'sizes': str(sizes)}, 'c13:image-cache-ignores-orientation')
            continue
        uses = {u['id']: u for u in d['uses']}
        boxes = {}
        for b in o['boxes']:
            if b['id'] in uses:
                boxes.setdefault(b['id'], []).append(b)
        lossy_jpeg = 'jpeg_quality' in d['pdf_options'] or (d['pdf_options'].get('optimize_images')
                                                          and not OPTIMIZE_IS_LOSSLESS_FOR_JPEG)
        lossy_all = 'dpi' in d['pdf_options']
        # draws <-> owners (call order)
        if len(o['draw_log']) != len(o['draws']):
            fail('%d RasterImage.draw calls but %d image Do operators in the PDF' % (len(o['draw_log']), len(o['draws'])), d, {},
                 'c13:draw-count')
            continue
        by_owner = {}
        for owner, dr in zip(o['draw_log'], o['draws']):
            if owner is not None:
                by_owner.setdefault(owner[1], []).append(dr)
            if dr['skew'] != [0.0, 0.0]:
                fail('image drawn with a skewed matrix', d, {'draw': dr}, 'c13:skew')
        n_draws += len(o['draws'])
        expected_x = set()
        # replaced boxes
        for uid, u in uses.items():
            spec = d['images'][u['name']]
            if u['kind'] == 'replaced':
                bl = boxes.get(uid, [])
                if len(bl) != 1:
                    fail('element #%s gave %d replaced boxes' % (uid, len(bl)), d, {'element': uid}, 'c13:box-count')
                    continue
                b = bl[0]
                drs = by_owner.get(b['key'], [])
                if len(drs) > 1:
                    fail('box #%s painted %d times' % (uid, len(drs)), d, {'element': uid}, 'c13:painted-twice')
                dr = drs[0] if drs else None
                if spec['kind'] == 'svg':
                    n_svg += 1
                mon_cases.append(coq_mon_case(u, spec, b, dr))
                mon_meta.append((d, uid))
                seen.add((u['tag'], u['display'], u['width'] and u['width'][0], u['height'] and u['height'][0], u['fit'],
                          spec['kind'], spec.get('mode'), u['definite']))
                if dr is not None:
                    expected_x.add((u['name'], not u['pixelated']))
                    xo = o['xobjects'].get(str(dr['obj'])) or o['xobjects'].get(dr['obj'])
                    check_xobject(fail, d, uid, u['name'], spec, xo, lossy_jpeg, lossy_all)
            else:
                layers = [l for l in o['bgs'] if l['id'] == uid]
                layer = layers[0] if layers else None
                drs = by_owner.get(layer['key'], []) if layer and not layer['unused'] else []
                dr = drs[0] if drs else None
                if spec['kind'] == 'svg':
                    dr = None if layer is None or layer['unused'] else 'svg'
                if layer is None:
                    fail('no background layer for #%s' % uid, d, {'element': uid}, 'c13:bg-missing')
                    continue
                if dr == 'svg':
                    # vector image: layer geometry only (no image XObject); give the judge the model's own tile
                    bg_cases.append(coq_bgmon_case(u, spec, dict(layer, size=layer['size'], position=layer['position']), None)
                                    .replace(', None, None))', ', None, None))'))
                    bg_meta.append((d, uid, True))
                else:
                    bg_cases.append(coq_bgmon_case(u, spec, layer, dr))
                    bg_meta.append((d, uid, False))
                    if dr is not None:
                        expected_x.add((u['name'], not u['pixelated']))
                        xo = o['xobjects'].get(str(dr['obj'])) or o['xobjects'].get(dr['obj'])
                        check_xobject(fail, d, uid, u['name'], spec, xo, lossy_jpeg, lossy_all)
                seen.add(('bg', u.get('where', 'box'), u['res'], u['rx'], u['ry'], u['size'] if isinstance(u['size'], str) else
                          tuple(v and v[0] for v in u['size']), u['origin'], u['clip'], spec['kind']))
        # each distinct image embedded once
        n_x += len(o['xobjects'])
        if len(o['xobjects']) != len(expected_x):
            fail('%d image XObjects in the PDF for %d distinct (image, interpolate) painted: %s' % (
                len(o['xobjects']), len(expected_x), sorted(expected_x)), d, {'xobjects': o['xobjects']}, 'c13:embedded-once')
        # every image fetched once
        for name in set(o['fetched']):
            if o['fetched'].count(name) != 1:
                fail('image %s fetched %d times' % (name, o['fetched'].count(name)), d, {}, 'c13:fetched-once')
    return dict(evals=[('mon', mon_cases, mon_meta, 'mon_case', 'monitor_judge'),
                       ('bgmon', bg_cases, bg_meta, 'bgmon_case', 'bgmon_judge')],
                n_x=n_x, n_draws=n_draws, n_svg=n_svg, seen=seen)


def monitor_finish(run, docs, mon):
    def fail(what, d, extra, sig):
        mon_fail(run, what, d, extra, sig)
    n_x, n_draws, n_svg, seen = mon['n_x'], mon['n_draws'], mon['n_svg'], mon['seen']
    mon_cases, bg_cases = mon['evals'][0][1], mon['evals'][1][1]
    for (tag, cases, meta, ctype, judge), fut in zip(mon['evals'], mon['futures']):
        try:
            masks = fut.result()
        except RuntimeError as exc:
            run.oblige('monitor:' + tag, False, str(exc))
            continue
        names = {1: 'used size / layer differs from the model', 2: 'violates the CSS specification',
                 4: 'painted rectangle in the PDF differs from the model'}
        reported = set()
        for m, meta, case in zip(masks, meta, cases):
            svg_bg = tag == 'bgmon' and meta[2]
            if svg_bg:
                m &= ~4
            for bitv, what in names.items():
                if m & bitv and (tag, bitv) not in reported:
                    reported.add((tag, bitv))
                    fail('%s #%s: %s' % ('replaced box' if tag == 'mon' else 'background', meta[1], what), meta[0],
                         {'element': meta[1], 'coq_case': case, 'mask': m}, 'c13:monitor-%s-%d' % (tag, bitv))
        run.oblige('monitor:%s evaluated' % tag, True, '')
    run.count('render-monitor', len(docs), seen, samples=[docs[0]['html'][:700]])
    run.stream_info('render-monitor', replaced_boxes=len(mon_cases), background_layers=len(bg_cases), image_draws=n_draws,
                    image_xobjects=n_x, svg_uses=n_svg,
                    rule='documents with 2-4 generated images (PNG L/LA/RGB/RGBA/P(+tRNS)/1, JPEG L/RGB/CMYK, SVG with/without '
                         'width/height/viewBox) served from memory, used 3-7 times as img/object/embed/content/list-style-image/'
                         'background with width/height/min/max in {auto,px,%}, every object-fit, object-position, image-resolution, '
                         'image-rendering, background-size/position/repeat/origin/clip; options optimize_images/jpeg_quality/dpi; '
                         'distinct = (use kind, display, units, fit, image kind, mode)')


def check_xobject(fail, d, uid, name, spec, xo, lossy_jpeg, lossy_all):
    if xo is None or 'error' in xo:
        fail('image XObject of #%s cannot be decoded: %s' % (uid, xo), d, {'element': uid}, 'c13:xobject-decode')
        return
    if lossy_all or (lossy_jpeg and spec['kind'] == 'jpeg'):
        return
    if name not in xo['match'] and spec['kind'] == 'jpeg' and d['pdf_options'].get('optimize_images'):
        re = xo.get('reencoded', {}).get(name)
        if re is None or not re['same_qtables']:
            # F64 (fixed by 9248bed): the JPEG must at least keep the quantisation tables of its source
            fail('optimize_images (documented lossless) re-quantised JPEG %s painted for #%s: %s' % (name, uid, re), d,
                 {'element': uid, 'xobject': xo}, 'c13:optimize-images-jpeg-lossy')
        else:
            # what is left of it: the picture is still decoded and encoded again (same tables, same sampling), which is
            # not the identity on the samples
            fail('optimize_images (documented lossless) decodes and re-encodes JPEG %s painted for #%s: same quantisation '
                 'tables, decoded samples differ by up to %d/255' % (name, uid, re['maxdiff']), d,
                 {'element': uid, 'xobject': xo}, 'c13:jpeg-reencode-generation-loss')
        return
    if name not in xo['match']:
        fail('image XObject painted for #%s (%s %s) does not decode to the pixels/alpha of its source (matches %s)' % (
            uid, spec['kind'], spec.get('mode'), xo['match']), d, {'element': uid, 'xobject': xo}, 'c13:lossless')



# ------------------------------------------------------------------------------------------------ image XObjects:
# source mode x orientation x options

PRE_Z = ('From Coq Require Import ZArith List Bool.\nRequire Import WV.model.C13XObject.\n'
         'Import ListNotations.\nOpen Scope Z_scope.\n')
XMODES = ['L', 'LA', 'RGB', 'RGBA', 'P', '1', 'CMYK', 'I;16']
XSOURCES = [dict(fmt='png', mode='1'), dict(fmt='png', mode='L'), dict(fmt='png', mode='LA'), dict(fmt='png', mode='RGB'),
            dict(fmt='png', mode='RGBA'), dict(fmt='png', mode='P'), dict(fmt='png', mode='P', trns=True), dict(fmt='png', mode='I;16'),
            dict(fmt='jpeg', mode='L'), dict(fmt='jpeg', mode='RGB'), dict(fmt='jpeg', mode='RGB', progressive=True),
            dict(fmt='jpeg', mode='CMYK', app14=True), dict(fmt='jpeg', mode='CMYK', app14=False),
            dict(fmt='mpo', mode='RGB')]
XOPTIONS = [{}, {'optimize_images': True}, {'jpeg_quality': 85}]


def x_orientations():
    """(css value, exif tag or None, expected EXIF-style code 1..8)"""
    out = [('none', None, 1), ('none', 6, 1), ('from-image', None, 1)]
    out += [('from-image', e, e) for e in range(1, 9)]
    table = {(0, False): 1, (1, False): 6, (2, False): 3, (3, False): 8, (0, True): 2, (1, True): 5, (2, True): 4, (3, True): 7}
    for q in range(4):
        for flip in (False, True):
            out.append(('%ddeg%s' % (90 * q, ' flip' if flip else ''), None, table[(q, flip)]))
    out += [('flip', None, 2), ('-90deg', None, 8), ('450deg flip', 3, 5), ('0.25turn', None, 6)]
    return out


def gen_xobject_docs(rng, k):
    items = []
    n = 0
    for rep in range(k):
        for src in XSOURCES:
            for css, exif, code in x_orientations():
                for opts in XOPTIONS:
                    if rep and rng.random() < 0.5:
                        continue
                    jpeg = src['fmt'] != 'png'
                    if jpeg:
                        w, h = rng.choice([(64, 32), (32, 64), (96, 32), (32, 32)])
                    else:
                        w, h = rng.choice([(3, 2), (2, 3), (4, 1), (1, 3), (2, 2), (4, 3)])
                    spec = dict(fmt=src['fmt'], mode=src['mode'], w=w, h=h, seed=rng.randrange(10 ** 6), trns=src.get('trns', False),
                                app14=src.get('app14', True), exif=exif, progressive=src.get('progressive', False))
                    items.append(dict(id='x%d' % n, spec=spec, orientation=css, code=code, options=opts))
                    n += 1
    docs = []
    for opts in XOPTIONS:
        sel = [it for it in items if it['options'] == opts]
        rng.shuffle(sel)
        for i in range(0, len(sel), 6):
            docs.append(dict(items=sel[i:i + 6], options=opts))
    # one URL used with several orientations in one document (F63: the image cache / image id must depend on the
    # orientation): twins of the first item of a document, same source, other orientation
    oris = x_orientations()
    for d in docs[::3]:
        a = d['items'][0]
        for css, exif, code in rng.sample(oris, 2):
            if exif != a['spec']['exif'] and css == 'from-image':
                css, code = 'none', 1
            elif css == 'from-image':
                code = a['spec']['exif'] or 1
            if css == 'none':
                code = 1
            d['items'].append(dict(id='x%d' % n, src=a['id'], spec=a['spec'], orientation=css, code=code, options=a['options']))
            n += 1
    return docs


def zl(px):
    return '[%s]' % '; '.join('%d' % v for v in px)


def coq_xo_case(it, o):
    spec, p, t = it['spec'], o['painted'], o['truth']
    jpeg = spec['fmt'] != 'png'
    cs = {'DeviceGray': 0, 'DeviceRGB': 1, 'DeviceCMYK': 2}.get(p['cs'], 3)
    tol = 16 if jpeg else (1 if spec['mode'] == 'I;16' else 0)
    return '((%d%%nat, %s, %s, %s), %d%%nat, (%d, %d), (%d, %d), [%s], %d, (%d%%nat, %s, %s, %d, %d, %d, %s), [%s])' % (
        XMODES.index(spec['mode']), blit(spec['trns']), blit(spec['app14']), blit(jpeg), it['code'], spec['w'], spec['h'],
        t['grid'][0], t['grid'][1], '; '.join(zl(x) for x in t['samples']), tol,
        cs, blit(bool(p['inverted'])), blit(p['smask']), p['declared'][0], p['declared'][1], p['bpc'],
        blit(p['filter'] == 'DCTDecode'), '; '.join(zl(x) for x in p['samples']))


def xobject_prepare(run, docs, outs):
    cases, meta = [], []
    seen = set()
    deferred = []          # reported after the Coq-judged failures (so that those get the replay files)
    def fail(what, d, it, extra, sig):
        deferred.append((what, dict(stream='xobject-modes', item=it, options=d['options'], **extra), sig))
    for d, (st, o) in zip(docs, outs):
        if st != 'ok':
            run.fail('xobject_probe raised %s' % ((o if st == 'timeout' else (o['type'], o['site'], o['msg'])),),
                     dict(stream='xobject-modes', items=d['items'], options=d['options'], outcome=str(o)[:800]),
                     signature='crash:%s' % ((o or {}).get('site'),) if st == 'exc' else 'timeout')
            continue
        if o['problems'] or o['ndraws'] != o['nlog']:
            run.fail('PDF problems %s / %d image Do for %d draw calls' % (o['problems'], o['ndraws'], o['nlog']),
                     dict(stream='xobject-modes', items=d['items'], options=d['options']), signature='c13:xobject-pdf')
            continue
        for it in d['items']:
            spec = it['spec']
            r = o['items'].get(it['id'])
            if r is None:
                fail('image %s (%s %s, image-orientation:%s) was not painted' % (it['id'], spec['fmt'], spec['mode'], it['orientation']),
                     d, it, {}, 'c13:xobject-missing')
                continue
            p = r['painted']
            broken = 'error' in p or any(len(x) == 0 for x in p.get('samples', [[]]))
            if broken or p.get('inverted') is None:
                fail('image XObject for %s %s cannot be decoded / has an odd /Decode: %s' % (spec['fmt'], spec['mode'], p), d, it, {},
                     'c13:xobject-decode')
                continue
            jpeg = spec['fmt'] != 'png'
            if jpeg and 'jpeg_quality' not in d['options']:
                if it['code'] == 1 and not d['options'].get('optimize_images') and not r['same_bytes']:
                    fail('JPEG whose orientation is the identity (image-orientation:%s, EXIF orientation %s) and no option is not '
                         'passed through byte for byte%s' % (it['orientation'], spec['exif'],
                                                            ' and is re-quantised' if p['qtables'] != r['src_qtables'] else ''),
                         d, it, {}, 'c13:jpeg-exif-identity-reencoded')
                elif not r['same_bytes'] and p['qtables'] != r['src_qtables']:
                    if d['options'].get('optimize_images'):
                        fail('optimize_images (documented lossless) re-quantised JPEG %s' % it['id'], d, it, {},
                             'c13:optimize-images-jpeg-lossy')
                    else:
                        fail('JPEG re-quantised (no lossy option) because of image-orientation:%s / EXIF %s' % (
                            it['orientation'], spec['exif']), d, it, {}, 'c13:jpeg-requantized-on-orientation')
            cases.append(coq_xo_case(it, r))
            meta.append((d, it))
        # identity of the embedded images: one URL with the same CSS orientation is embedded once, with different
        # orientations never through the same XObject unless the oriented pictures are the same
        by_src = {}
        for it in d['items']:
            r = o['items'].get(it['id'])
            if r is not None and 'obj' in r:
                by_src.setdefault(it.get('src') or it['id'], []).append((it, r['obj']))
        for src, lst in by_src.items():
            for (a, oa), (b, ob) in itertools.combinations(lst, 2):
                if a['orientation'] == b['orientation'] and oa != ob:
                    fail('one image with one orientation embedded twice (objects %s, %s)' % (oa, ob), d, b, {}, 'c13:embedded-once')
                if a['code'] != b['code'] and oa == ob:
                    fail('one image used with image-orientation %s and %s is painted through the same XObject' % (
                        a['orientation'], b['orientation']), d, b, {'twin': a}, 'c13:image-cache-ignores-orientation')
            seen.add((spec['fmt'], spec['mode'], spec['trns'], spec['app14'], it['orientation'], spec['exif'],
                      tuple(sorted(d['options']))))
    return dict(cases=cases, meta=meta, seen=seen, deferred=deferred)


def xobject_finish(run, xo, ndocs):
    try:
        masks = xo['future'].result()
    except RuntimeError as exc:
        run.oblige('corr:xobject-modes', False, str(exc))
        for what, data, sig in xo['deferred']:
            run.fail(what, data, signature=sig)
        return
    mism = [(m[1]['id'], m[1]['spec'], m[1]['orientation'], m[0]['options']) for m, k in zip(xo['meta'], masks) if k & 1]
    run.oblige('corr:xobject-modes(XObject attribute model vs the XObject parsed from the PDF)', not mism,
               'first disagreements: %s' % mism[:3])
    done = set()
    for (d, it), k, case in zip(xo['meta'], masks, xo['cases']):
        spec = it['spec']
        what = '%s %s%s%s, image-orientation:%s, EXIF %s, options %s' % (
            spec['fmt'], spec['mode'], ' +tRNS' if spec['trns'] else '', ' (no APP14)' if spec['mode'] == 'CMYK' and not spec['app14'] else '',
            it['orientation'], spec['exif'], d['options'])
        if k & 2 and 2 not in done:
            done.add(2)
            run.fail('painted samples / dimensions / alpha of the embedded image are not those of the oriented source: ' + what,
                     dict(stream='xobject-modes', item=it, options=d['options'], coq_case=case, mask=k), signature='c13:xobject-painted')
        elif k & 8 and 8 not in done:
            done.add(8)
            run.fail('image-orientation angle applied counter-clockwise: ' + what,
                     dict(stream='xobject-modes', item=it, options=d['options'], coq_case=case, mask=k), signature='c13:xobject-painted')
        if k & 1 and 1 not in done:
            done.add(1)
            run.fail('image XObject attributes (ColorSpace, /Decode, SMask, Width/Height, BitsPerComponent, Filter) differ from the '
                     'model: ' + what, dict(stream='xobject-modes', item=it, options=d['options'], coq_case=case, mask=k),
                     signature='c13:xobject-attrs')
    for what, data, sig in xo['deferred']:
        run.fail(what, data, signature=sig)
    run.count('xobject-modes', len(xo['cases']), xo['seen'], samples=[xo['cases'][0][:400]] if xo['cases'] else [])
    run.stream_info('xobject-modes', documents=ndocs,
                    rule='every source {PNG 1/L/LA/RGB/RGBA/P/P+tRNS/16-bit grey, JPEG L/RGB/progressive RGB/CMYK with and without the Adobe '
                         'APP14 marker, MPO} x every image-orientation {none, from-image with EXIF 1..8 or none, 0/90/180/270deg with '
                         'and without flip, flip, negative / >360 / turn angles, angle overriding EXIF} x {no option, optimize_images, '
                         'jpeg_quality}, each rendered to PDF; the XObject is parsed (pdfread) and judged in Coq: attributes against '
                         'expected_attrs, painted samples (through /Decode and SMask) against the oriented source (all pixels for '
                         'PNG, quadrant centres for JPEG);; distinct = (format, mode, tRNS, APP14, '
                         'orientation, EXIF, options)')



# ------------------------------------------------------------------------------------------------ SVG viewBox -> viewport

PRE_S = ('From Coq Require Import QArith List Bool.\nRequire Import WV.model.C13Replaced WV.model.C13Svg.\n'
         'Import ListNotations.\nOpen Scope Q_scope.\n')
ALIGNS = ['Min', 'Mid', 'Max']
PARS = [None, 'none'] + ['x%sY%s%s' % (a, b, m) for a in ALIGNS for b in ALIGNS for m in ('', ' meet', ' slice')]


def par_code(par):
    if par is None:
        return 5
    if par == 'none':
        return 0
    align, _, mos = par.partition(' ')
    return 1 + 3 * ALIGNS.index(align[1:4]) + ALIGNS.index(align[5:]) + (9 if mos == 'slice' else 0)


def gen_pr(rng, n):
    cases = []
    for par in PARS:
        for vb in (['10', '20', '40', '20'], ['-5', '-8', '20', '40'], ['0', '0', '30', '30']):
            for w, h in (('100', '100'), ('120', '30')):
                cases.append(dict(vb=vb, via=rng.choice(['node', 'arg']), par=par, root=rng.random() < 0.5, intr=[None, None], w=w, h=h))
    for par in (None, 'none', 'xMaxYMin slice'):
        for root, intr in ((True, ['30', '20']), (True, [None, '20']), (False, ['30', '20'])):
            cases.append(dict(vb=None, via='node', par=par, root=root, intr=intr, w='100', h='100'))
        cases.append(dict(vb=['3', '4', '0', '20'], via='node', par=par, root=True, intr=[None, None], w='50', h='60'))
    while len(cases) < n:
        vb = [fs(rq(rng, -50, 50)), fs(rq(rng, -50, 50)), fs(rq(rng, 1, 200)), fs(rq(rng, 1, 200))]
        cases.append(dict(vb=vb, via=rng.choice(['node', 'arg']), par=rng.choice(PARS), root=rng.random() < 0.5,
                          intr=[None, None], w=fs(rng.choice([F(0), rq(rng, 1, 400)])), h=fs(rq(rng, 0, 400))))
    return cases


def coq_pr_case(c, o):
    if o == 'raise' or any(x.startswith('f:') for x in o):
        return None
    vb = 'None' if c['vb'] is None else '(Some (%s))' % ', '.join(qlit(F(x)) for x in c['vb'])
    intr = '(Some (%s, %s))' % (qlit(F(c['intr'][0])), qlit(F(c['intr'][1]))) \
        if c['vb'] is None and c['root'] and None not in c['intr'] else 'None'
    return '(%s, %s, %d%%nat, %s, %s, (%s))' % (vb, intr, par_code(c['par']), qlit(F(c['w'])), qlit(F(c['h'])),
                                              ', '.join(qlit(F(x)) for x in o))


def gen_svg_docs(rng, k):
    items = []
    n = 0
    for rep in range(k):
        for par in PARS:
            for kind in ('img', 'bg', 'inline'):
                vb = [rng.choice([0, 0, 7, 10, -5, 33]), rng.choice([0, 12, 20, -8]), rng.choice([20, 40, 41, 57]) + n % 7,
                      rng.choice([10, 20, 30, 64])]
                vw, vh = rng.choice([(100, 100), (120, 30), (60, 90), (150, 40), (2 * vb[2], 2 * vb[3])])
                it = dict(id='s%d' % n, kind=kind, vb=vb, par=par, color=rng.randrange(1, 0xffffff), fit='fill',
                          right=False, bottom=False, px=('pct', '50'), py=('pct', '50'), vw=vw, vh=vh)
                if kind == 'img':
                    it['fit'] = rng.choice(['fill', 'fill', 'fill', 'contain', 'cover', 'none', 'scale-down'])
                    it['px'], it['py'] = gen_pos(rng), gen_pos(rng)
                    it['right'], it['bottom'] = rng.random() < 0.3, rng.random() < 0.3
                    it['css'] = 'width:%dpx;height:%dpx;object-fit:%s;object-position:%s %s %s %s' % (
                        vw, vh, it['fit'], 'right' if it['right'] else 'left', css_len(it['px']),
                        'bottom' if it['bottom'] else 'top', css_len(it['py']))
                elif kind == 'bg':
                    it['bpos'] = (rng.choice([0, 10, -6]), rng.choice([0, 20, 5]))
                    it['css'] = 'width:170px;height:110px;background-size:%dpx %dpx;background-position:%dpx %dpx' % (
                        vw, vh, it['bpos'][0], it['bpos'][1])
                else:
                    it['css'] = 'width:%dpx;height:%dpx' % (vw, vh)
                items.append(it)
                n += 1
    rng.shuffle(items)
    return [dict(items=items[i:i + 8]) for i in range(0, len(items), 8)]


def coq_svgmon_case(it, geo, rect):
    vb = ', '.join(qlit(F(v)) for v in it['vb'])
    if it['kind'] == 'img':
        ratio = F(it['vb'][2], it['vb'][3])
        vp = '(VFit %d%%nat %s %s %s %s %s %s (None, None, (Some %s)) %s %s)' % (
            FITS.index(it['fit']), blit(it['right']), blit(it['bottom']), lp(it['px']), lp(it['py']), fq(geo['w']), fq(geo['h']),
            qlit(ratio), fq(geo['cx']), fq(geo['cy']))
    elif it['kind'] == 'bg':
        vp = '(VDirect %s %s %s %s)' % (fq(F(geo['positioning'][0]) + F(geo['position'][0])),
                                        fq(F(geo['positioning'][1]) + F(geo['position'][1])), fq(geo['size'][0]), fq(geo['size'][1]))
    else:
        vp = '(VDirect %s %s %s %s)' % (fq(geo['cx']), fq(geo['cy']), fq(geo['w']), fq(geo['h']))
    return '((%s), %d%%nat, %s, (%s, %s, %s, %s))' % (vb, par_code(it['par']), vp, fq(rect['x']), fq(rect['y']), fq(rect['w']),
                                                     fq(rect['h']))


def svg_prepare(run, docs, outs):
    cases, meta, seen = [], [], set()
    for d, (st, o) in zip(docs, outs):
        if st != 'ok':
            run.fail('svg_probe raised %s' % ((o if st == 'timeout' else (o['type'], o['site'], o['msg'])),),
                     dict(stream='svg-viewbox', items=d['items'], outcome=str(o)[:800]),
                     signature='crash:%s' % ((o or {}).get('site'),) if st == 'exc' else 'timeout')
            continue
        for it in d['items']:
            r = o['items'].get(it['id']) or {}
            geo, rects = r.get('geo'), r.get('rects') or []
            what = '%s, viewBox %s, preserveAspectRatio %s, viewport %sx%s, object-fit %s' % (
                it['kind'], it['vb'], it['par'], it['vw'], it['vh'], it['fit'])
            if geo is None or len(rects) != 1 or rects[0]['skew'] != [0.0, 0.0]:
                run.fail('SVG %s: %d viewBox rectangles painted (geometry %s)' % (what, len(rects), geo),
                         dict(stream='svg-viewbox', item=it), signature='c13:svg-rect-count')
                continue
            if it['kind'] == 'bg' and [geo['size'][0], geo['size'][1]] != [it['vw'], it['vh']]:
                run.fail('SVG background layer size %s, background-size %sx%s' % (geo['size'], it['vw'], it['vh']),
                         dict(stream='svg-viewbox', item=it), signature='c13:svg-bg-size')
                continue
            cases.append(coq_svgmon_case(it, geo, rects[0]))
            meta.append(it)
            seen.add((it['kind'], it['par'], it['fit'], it['vb'][0] != 0, it['vb'][1] != 0,
                      it['vw'] * it['vb'][3] != it['vh'] * it['vb'][2]))
    return dict(cases=cases, meta=meta, seen=seen)


def svg_finish(run, sv, ndocs):
    try:
        masks = sv['future'].result()
    except RuntimeError as exc:
        run.oblige('corr:svg-viewbox', False, str(exc))
        return
    mism = [(it['kind'], it['vb'], it['par'], it['css']) for it, k in zip(sv['meta'], masks) if k & 1]
    run.oblige('corr:svg-viewbox(preserve_ratio model vs the rectangle painted in the PDF)', not mism, 'first disagreements: %s' % mism[:3])
    done = set()
    for it, k, case in zip(sv['meta'], masks, sv['cases']):
        for b, what in ((2, 'is not where SVG 1.1 7.8 puts it'), (1, 'differs from the preserve_ratio model')):
            if k & b and b not in done:
                done.add(b)
                run.fail('SVG as %s: the viewBox %s with preserveAspectRatio=%s in a %sx%s viewport (object-fit %s) %s' % (
                    it['kind'], it['vb'], it['par'], it['vw'], it['vh'], it['fit'], what),
                    dict(stream='svg-viewbox', item=it, coq_case=case, mask=k), signature='c13:svg-viewbox-%d' % b)
    run.count('svg-viewbox', len(sv['cases']), sv['seen'], samples=[sv['cases'][0][:300]] if sv['cases'] else [])
    run.stream_info('svg-viewbox', documents=ndocs,
                    rule='SVG documents with one viewBox-filling <rect>, viewBox min-x/min-y zero and non-zero, every '
                         'preserveAspectRatio (default, none, 9 alignments x default/meet/slice), viewport ratio equal to or different '
                         'from the viewBox ratio, used as <img> (every object-fit, object-position), as no-repeat background '
                         '(background-size/position) and as inline <svg>; the rectangle painted in the content stream (re + cm, '
                         'through form XObjects) is judged in Coq against preserve_ratio and against viewbox_placed; distinct = '
                         '(use, preserveAspectRatio, object-fit, non-zero min-x, non-zero min-y, ratio differs)')


# ------------------------------------------------------------------------------------------------ streams

def has_float(out):
    return out != 'raise' and any(isinstance(x, str) and x.startswith('f:') for x in out)


class Job:
    """one direct-call stream: cases -> implementation outputs (one shared worker pool) -> Coq judge (concurrent)"""
    def __init__(self, name, impl_fn, cases, to_coq, case_type, judge, key, what, info=None):
        self.name, self.impl_fn, self.cases, self.to_coq = name, impl_fn, cases, to_coq
        self.case_type, self.judge, self.key, self.what, self.info = case_type, judge, key, what, info
        self.outs = self.future = None
        self.pre = None
        self.kept, self.coq_cases = [], []

    def prepare(self, run):
        for c, (st, o) in zip(self.cases, self.outs):
            if st != 'ok':
                run.fail('%s raised %s' % (self.impl_fn, o), {'stream': self.name, 'case': c, 'outcome': o},
                         signature='c13:%s-raise' % self.name)
                continue
            t = self.to_coq(c, o)
            if t is None:
                continue
            self.coq_cases.append(t); self.kept.append((c, o))

    def finish(self, run):
        name, kept = self.name, self.kept
        try:
            masks = self.future.result()
        except RuntimeError as exc:
            run.oblige('corr:' + name, False, str(exc))
            return
        mism = [(c, o) for (c, o), m in zip(kept, masks) if m & 1]
        run.oblige('corr:%s(hand model vs CPython, exact rationals)' % name, not mism, 'first disagreements: %s' % mism[:3])
        for (c, o), m in zip(kept, masks):
            if m & 2:
                run.fail('%s: implementation output violates %s' % (self.impl_fn, self.what),
                         {'stream': name, 'case': c, 'impl_output': o}, signature='c13:%s-spec' % name)
                break
        run.count(name, len(kept), [self.key(c, o) for c, o in kept],
                  samples=[{'case': kept[0][0], 'impl': kept[0][1]}, {'case': kept[-1][0], 'impl': kept[-1][1]}] if kept else [])
        extra = self.info([(c, o, m) for (c, o), m in zip(kept, masks)]) if self.info else {}
        run.stream_info(name, **extra)


def nonepat(c):
    return tuple(c[k] is None for k in ('iw', 'ih', 'ir'))


def check(run):
    import time
    from concurrent.futures import ThreadPoolExecutor
    rng = random.Random(run.seed * 7919 + 13)
    thorough = run.tier == 'thorough'
    k = 8 if thorough else 1
    common.prove(run, 'C13', ['model/C13Judge.vo'])
    run.trusted += ['Coq 8.16.1 kernel (coqc); vm_compute for the cases.v evaluation',
                    'hand-written Gallina models (coq/model/C13*.v) tied to /repo only by the correspondence streams',
                    'harness stubs (SimpleNamespace/Fraction); harness/pdfread.py, the content-stream walker and PNG un-predictor '
                    'in impl_c13.py; Pillow and zlib as decoders of the embedded streams and of the sources',
                    'observation points wrapped from the worker process: draw.draw_replacedbox, draw.draw_background_image, '
                    'RasterImage.draw (owner of each image Do)',
                    'translator tools/py2coq.py + interpreter coq/base/Py.v for the regenerated gen/GenReplaced.v and '
                    'gen/GenReplacedBox.v (replaced_box_width/_height under their decorators, min_max_auto_replaced, '
                    'replacedbox_layout); oracles of the C13_source_* theorems: image.get_intrinsic_size (answers the intrinsic '
                    'triple) and the decorated block_level_width called at point 3 of replaced_box_width (sets box.width); '
                    'max_width / max_height finite (float inf is outside the value domain of Py.v: the inf case is tied by '
                    'the sizing-direct correspondence stream only)',
                    'gen/GenInlineReplaced.v (inline_replaced_box_layout, inline_replaced_box_width_height, whole bodies): '
                    'their callees are oracle statements that answer the mutated box (inline_replaced_box_width_height; '
                    'replaced_box_width / replaced_box_height, decorated and `.without_min_max`, min_max_auto_replaced): the '
                    'theorems fix which are called, in which order and on which box, not what the callees do (that is '
                    'C13_source_replaced_box_* / _min_max_auto_replaced); the attribute without_min_max of a function under a '
                    'handle_min_max_* decorator is resolved by name (checked: one module-level def under that decorator)']
    run.assumptions += ['SVG rendering itself (viewBox-to-viewport mapping inside svg/) is not judged: for vector images only the used '
                        'size / background layer geometry is checked',
                        'pixel-level losslessness, Pillow, zlib: runtime monitor only (decoded XObject = Pillow decoding of the source)',
                        'the 300x150 fallback is not clipped to the device size (CSS 2.1 "should"); a zero intrinsic ratio raises '
                        '(ZeroDivisionError) and float inf ratios of zero-height rasters are outside the rational model',
                        'horizontal placement of outside list markers and border-image are not covered; JPEG samples are judged at the '
                        'centres of four constant quadrants (tolerance 16/255), PNG samples exactly']
    jobs = [
        Job('constraint-direct', 'constraint', gen_constraint(rng, 700 * k),
            lambda c, o: '(%s, %s, %s, %s, %s)' % (qlit(F(c['cw'])), qlit(F(c['ch'])), oq(c['ir']), blit(c['cover']), pair_out(o)),
            'Q * Q * oq * bool * option (Q * Q)', 'constraint_judge',
            lambda c, o: (c['ir'] is None, c['cover'], o == 'raise', F(c['cw']) > F(c['ch']) * F(c['ir'] or 1), c['cw'], c['ch']),
            'contain/cover (inside/covering, touching, ratio)'),
        Job('default-sizing-direct', 'default_sizing', gen_default(rng, 900 * k),
            lambda c, o: '((%s, %s, %s), %s, %s, %s, %s, %s)' % (
                oq(c['iw']), oq(c['ih']), oq(c['ir']), oq(None if c['sw'] == 'auto' else c['sw']),
                oq(None if c['sh'] == 'auto' else c['sh']), qlit(F(c['dw'])), qlit(F(c['dh'])), pair_out(o)),
            '(oq * oq * oq) * oq * oq * Q * Q * option (Q * Q)', 'default_judge',
            lambda c, o: (nonepat(c), c['sw'] in (None, 'auto'), c['sh'] in (None, 'auto'), o == 'raise', c['dw']), 'n/a'),
        Job('sizing-direct', 'sizing', gen_sizing(rng, 3000 * k), coq_sizing_case, SIZING_T, 'sizing_judge',
            lambda c, o: (c['fn'], nonepat(c), c['bw'] is None, c['bh'] is None, o == 'raise', has_float(o),
                          c['maxw'] is None, c['maxh'] is None, c['minw'] == '0', c['minh'] == '0', c['bw'], c['bh']),
            'CSS 2.1 10.3.2/10.6.2/10.4 (css_used_size_fn / table_fn)',
            lambda res: dict(raises=sum(1 for c, o, m in res if o == 'raise'), float_path=sum(1 for c, o, m in res if has_float(o)))),
        Job('layout-direct', 'rb_layout', gen_layout(rng, 1500 * k), coq_layout_case, LAYOUT_T, 'layout_judge',
            lambda c, o: (c['fit'], nonepat(c), c['right'], c['bottom'], c['px'][0], c['py'][0], o == 'raise', c['bw'], c['bh']),
            'object-fit / object-position (contain inside, cover covers, scale-down, alignment, inside content box)'),
        bg_job(rng, k),
        Job('preserve-ratio-direct', 'preserve_ratio_direct', gen_pr(rng, 600 * k), coq_pr_case, 'pr_case', 'pr_judge',
            lambda c, o: (c['par'], c['vb'] is None, c['via'], c['root'], o == 'raise', c['w'], c['h']),
            'SVG 1.1 7.8 (viewBox onto the viewport: none / meet / slice, alignment)')] + stream_jobs(rng, k)
    jobs[-3].pre = PRE_S
    rules = {
        'constraint-direct': '108 small combinations (ratio None/0/negative included) + random rationals; '
                             'distinct = (ratio None?, cover, raises, wider-than-ratio, cw, ch)',
        'default-sizing-direct': '12 intrinsic triples x {None, auto, value} specified sizes exhaustively + random; '
                                 'distinct = (None pattern, specified pattern, raises, default width)',
        'sizing-direct': 'replaced_box_width/height (raw and decorated), min_max_auto_replaced, inline_replaced_box_width_height on '
                         'stub boxes: 12 intrinsic triples x auto patterns x 12 min/max situations exhaustively (sampled) + zero '
                         'sizes + random rationals; distinct = (function, None pattern, auto pattern, raises, 1e-6 path, which '
                         'min/max are set, sizes)',
        'layout-direct': 'replacedbox_layout on stub boxes: 12 intrinsic triples x 5 object-fit x origins x px/% positions '
                         'exhaustively + random; distinct = (fit, None pattern, origins, units, raises, box size)',
        'background-direct': 'layout_background_layer + draw_background_image on stub boxes/streams: 9 intrinsic triples x 7 sizes x '
                             '16 repeat pairs exhaustively (sampled) + random sizes/positions/areas; distinct = (None pattern, size '
                             'kind, repeats, outcome, units, area)',
        'add-image-direct': 'random sequences of 0..30 Stream.add_image calls over 2-4 image ids (prefix-related ids included), both '
                            'interpolate flags, few dpi ratios; distinct = (id set, calls, entries)',
        'preserve-ratio-direct': 'svg.utils.preserve_ratio on stub nodes with Fractions: every preserveAspectRatio x viewBoxes with '
                                 'zero / non-zero / negative origin x viewports, root without viewBox (intrinsic size), zero-width '
                                 'viewBox, + random rationals; distinct = (preserveAspectRatio, no viewBox, how passed, root, raises, viewport)',
        'use-references-direct': '1..9 resource dictionaries (page, groups, patterns) naming 1..6 images, processed by '
                                 'pdf._use_references with counting stub images; distinct = (dictionaries, keys, references)'}
    docs = fixed_docs() + [gen_monitor_doc(rng) for _ in range(200 * k)] + [gen_canvas_doc(rng) for _ in range(40 * k)]
    xdocs = gen_xobject_docs(rng, 3 if thorough else 1)
    sdocs = gen_svg_docs(rng, 4 if thorough else 1)
    # ---- one worker pool for every implementation call
    t0 = time.time()
    allc = [dict(fn=j.impl_fn, case=c) for j in jobs for c in j.cases]
    allc += [dict(fn='render_images', case=dict(images=d['images'], html=d['html'], pdf_options=d['pdf_options'])) for d in docs]
    allc += [dict(fn='xobject_probe', case=dict(items=[dict(id=i['id'], src=i.get('src'), spec=i['spec'], orientation=i['orientation'])
                                                       for i in d['items']], options=d['options'])) for d in xdocs]
    allc += [dict(fn='svg_probe', case=dict(items=d['items'])) for d in sdocs]
    outs = common.run_impl('impl_c13', 'dispatch', allc, limit=60, chunksize=4)
    pos = 0
    for j in jobs:
        j.outs = outs[pos:pos + len(j.cases)]
        pos += len(j.cases)
    mon_outs = outs[pos:pos + len(docs)]
    x_outs = outs[pos + len(docs):pos + len(docs) + len(xdocs)]
    s_outs = outs[pos + len(docs) + len(xdocs):]
    t1 = time.time()
    # ---- Coq judges, concurrently
    with ThreadPoolExecutor(max_workers=6) as ex:
        for j in jobs:
            j.prepare(run)
            j.future = ex.submit(common.eval_cases, 'c13' + j.name.replace('-', ''), j.pre or PRE, j.case_type, j.coq_cases, j.judge)
        mon = monitor_prepare(run, docs, mon_outs)
        mon['futures'] = [ex.submit(common.eval_cases, 'c13' + tag, PRE, ctype, cases, judge)
                          for tag, cases, meta, ctype, judge in mon['evals']]
        xo = xobject_prepare(run, xdocs, x_outs)
        xo['future'] = ex.submit(common.eval_cases, 'c13xo', PRE_Z, 'xo_case', xo['cases'], 'xo_judge')
        sv = svg_prepare(run, sdocs, s_outs)
        sv['future'] = ex.submit(common.eval_cases, 'c13sv', PRE_S, 'svgmon_case', sv['cases'], 'svgmon_judge')
    xobject_finish(run, xo, len(xdocs))
    svg_finish(run, sv, len(sdocs))
    for j in jobs:
        j.finish(run)
        run.stream_info(j.name, rule=rules[j.name])
    monitor_finish(run, docs, mon)
    run.stream_info('render-monitor', impl_wall_s_all_streams=round(t1 - t0, 1), coq_wall_s_all_streams=round(time.time() - t1, 1))


def bg_job(rng, k):
    def sk(c, o):
        size = c['size'] if isinstance(c['size'], str) else tuple(None if v is None else v[0] for v in c['size'])
        return (nonepat(c), size, c['rx'], c['ry'], o if isinstance(o, str) else 'layer', c['px'][0], c['py'][0], c['pw'], c['ph'])
    return Job('background-direct', 'bg_layer', gen_bg(rng, 1500 * k), coq_bg_case, 'bg_case', 'bg_judge', sk,
               'background-size/position/repeat (contain, cover, round fills, space distributes, alignment)',
               lambda res: dict(raises=sum(1 for c, o, m in res if o == 'raise'), unused=sum(1 for c, o, m in res if o == 'unused')))


def slit(x):
    return '"%s"' % x


def stream_jobs(rng, k):
    # ---- Stream.add_image: random call sequences over few ids (collisions likely), prefix-related ids included
    cases = []
    idsets = [['aa', 'bb', 'cc'], ['a', 'a1', 'a0', '1a'], ['d41d8cd98f00b204e9800998ecf8427e', '0cc175b9c0f1b6a831c399e269772661'],
              ['', '0', '1', '01']]
    for n in range(250 * k):
        ids = rng.choice(idsets)
        m = rng.choice([0, 1, 2, 3, 5, 8, 13, 30])
        calls = [[rng.randrange(len(ids)), rng.random() < 0.6, str(rng.choice([F(1), F(1), F(1, 2), F(2, 3), rq(rng, 1, 9, (10,))]))]
                 for _ in range(m)]
        cases.append(dict(ids=ids, calls=calls))
    def to_coq(c, o):
        calls = '[%s]' % '; '.join('Call %d%%nat %s %s %s' % (i, slit(c['ids'][i]), blit(b), qlit(F(r))) for i, b, r in c['calls'])
        names = '[%s]' % '; '.join(slit(x) for x in o['names'])
        imgs = '[%s]' % '; '.join('Entry %s %d%%nat %s [%s]' % (slit(n), i, blit(b), '; '.join(qlit(F(r)) for r in rs))
                                  for n, i, b, rs in o['images'])
        xo = '[%s]' % '; '.join(slit(x) for x in o['xobjects'])
        return '(%s, %s, %s, %s)' % (calls, names, imgs, xo)
    j1 = Job('add-image-direct', 'add_images', cases, to_coq, 'list call * list string * list entry * list string',
             'stream_judge', lambda c, o: (tuple(c['ids']), len(c['calls']), len(o['images'])),
             'image_embedded_once (one entry per (id, interpolate), names returned)')
    cases = []
    for n in range(200 * k):
        keys = ['k%d' % i for i in range(rng.choice([1, 2, 3, 6]))]
        cases.append(dict(dicts=[[x for x in keys if rng.random() < 0.6] for _ in range(rng.choice([1, 2, 3, 5, 9]))]))
    def to_coq2(c, o):
        ds = '[%s]' % '; '.join('[%s]' % '; '.join(slit(x) for x in d) for d in c['dicts'])
        counts = '[%s]' % '; '.join('(%s, %d%%nat, %d%%nat)' % (slit(x), o['built'].get(x, 0), o['added'].get(x, 0)) for x in o['keys'])
        if not o['same']:
            counts = '[("different references", 0%nat, 0%nat)]'
        return '(%s, %s)' % (ds, counts)
    j2 = Job('use-references-direct', 'use_refs', cases, to_coq2, 'list (list string) * list (string * nat * nat)',
             'refs_judge', lambda c, o: (len(c['dicts']), len(o['keys']), sum(len(d) for d in c['dicts'])),
             'each image XObject built and added to the PDF once')
    return [j1, j2]


class _ReplayRun:
    """collects what a Run would report, for --replay"""
    def __init__(self):
        self.fails, self.obl = [], []
        self.known = {k.get('signature') for k in common.load_known() if k.get('property') == 'C13' and k.get('status') == 'open'}
    def fail(self, what, data, signature=None):
        if signature is not None and signature in self.known:
            print('replay: (open known finding met: %s)' % signature)
            return
        self.fails.append((what, signature))
    def oblige(self, name, ok, detail=''):
        self.obl.append((name, ok, detail))
    def count(self, *a, **k):
        pass
    def stream_info(self, *a, **k):
        pass


def replay(data):
    from concurrent.futures import ThreadPoolExecutor
    d = data.get('data', {})
    stream = d.get('stream')
    rr = _ReplayRun()
    if stream == 'xobject-modes':
        items = [d['item']] if 'item' in d else d.get('items', [])
        doc = dict(items=items, options=d.get('options', {}))
        outs = common.run_impl('impl_c13', 'xobject_probe', [dict(items=[dict(id=i['id'], src=i.get('src'), spec=i['spec'],
                                                                               orientation=i['orientation'])
                                                                          for i in items], options=doc['options'])])
        print('replay: implementation output', str(outs)[:1500])
        xo = xobject_prepare(rr, [doc], outs)
        with ThreadPoolExecutor(1) as ex:
            xo['future'] = ex.submit(common.eval_cases, 'c13rxo', PRE_Z, 'xo_case', xo['cases'], 'xo_judge')
        xobject_finish(rr, xo, 1)
    elif stream == 'svg-viewbox':
        items = [d['item']] if 'item' in d else d.get('items', [])
        for it in items:
            for k in ('px', 'py', 'bpos'):
                if isinstance(it.get(k), list):
                    it[k] = tuple(it[k])
        doc = dict(items=items)
        outs = common.run_impl('impl_c13', 'svg_probe', [dict(items=items)])
        print('replay: implementation output', str(outs)[:1500])
        sv = svg_prepare(rr, [doc], outs)
        with ThreadPoolExecutor(1) as ex:
            sv['future'] = ex.submit(common.eval_cases, 'c13rsv', PRE_S, 'svgmon_case', sv['cases'], 'svgmon_judge')
        svg_finish(rr, sv, 1)
    elif stream == 'render-monitor':
        def tup(u):
            u = dict(u)
            for k in ('width', 'height', 'minw', 'minh', 'maxw', 'maxh', 'px', 'py'):
                if isinstance(u.get(k), list):
                    u[k] = tuple(u[k])
            if isinstance(u.get('size'), list):
                u['size'] = [None if v is None else tuple(v) for v in u['size']]
            return u
        doc = dict(images=d['images'], html=d['html'], pdf_options=d['pdf_options'], uses=[tup(u) for u in d['uses']])
        outs = common.run_impl('impl_c13', 'render_images', [dict(images=doc['images'], html=doc['html'], pdf_options=doc['pdf_options'])])
        mon = monitor_prepare(rr, [doc], outs)
        with ThreadPoolExecutor(2) as ex:
            mon['futures'] = [ex.submit(common.eval_cases, 'c13r' + tag, PRE, ctype, cases, judge)
                              for tag, cases, meta, ctype, judge in mon['evals']]
        monitor_finish(rr, [doc], mon)
    else:
        rng = random.Random(0)
        jobs = {j.name: j for j in [
            Job('constraint-direct', 'constraint', [],
                lambda c, o: '(%s, %s, %s, %s, %s)' % (qlit(F(c['cw'])), qlit(F(c['ch'])), oq(c['ir']), blit(c['cover']), pair_out(o)),
                'Q * Q * oq * bool * option (Q * Q)', 'constraint_judge', lambda c, o: 0, 'contain/cover'),
            Job('default-sizing-direct', 'default_sizing', [],
                lambda c, o: '((%s, %s, %s), %s, %s, %s, %s, %s)' % (
                    oq(c['iw']), oq(c['ih']), oq(c['ir']), oq(None if c['sw'] == 'auto' else c['sw']),
                    oq(None if c['sh'] == 'auto' else c['sh']), qlit(F(c['dw'])), qlit(F(c['dh'])), pair_out(o)),
                '(oq * oq * oq) * oq * oq * Q * Q * option (Q * Q)', 'default_judge', lambda c, o: 0, 'n/a'),
            Job('sizing-direct', 'sizing', [], coq_sizing_case, SIZING_T, 'sizing_judge', lambda c, o: 0, 'CSS 2.1 10.3.2/10.6.2/10.4'),
            Job('layout-direct', 'rb_layout', [], coq_layout_case, LAYOUT_T, 'layout_judge', lambda c, o: 0, 'object-fit/position'),
            Job('background-direct', 'bg_layer', [], coq_bg_case, 'bg_case', 'bg_judge', lambda c, o: 0, 'background layer'),
            Job('preserve-ratio-direct', 'preserve_ratio_direct', [], coq_pr_case, 'pr_case', 'pr_judge', lambda c, o: 0, 'SVG 1.1 7.8')]
            + stream_jobs(rng, 0)}
        j = jobs.get(stream)
        if j is None or 'case' not in d:
            print('nothing to replay for', stream)
            return 0
        c = d['case']
        for k in ('px', 'py'):
            if isinstance(c.get(k), list):
                c[k] = tuple(c[k])
        if isinstance(c.get('size'), list):
            c['size'] = [None if v is None else tuple(v) for v in c['size']]
        j.cases = [c]
        j.outs = common.run_impl('impl_c13', j.impl_fn, [c])
        print('replay: implementation output', j.outs)
        j.prepare(rr)
        with ThreadPoolExecutor(1) as ex:
            j.future = ex.submit(common.eval_cases, 'c13r' + j.name.replace('-', ''), PRE_S if j.name == 'preserve-ratio-direct' else PRE,
                                 j.case_type, j.coq_cases, j.judge)
        j.finish(rr)
    bad = [o for o in rr.obl if not o[1]]
    for w, sg in rr.fails:
        print('replay: FAIL', w[:400])
    for n, ok, det in bad:
        print('replay: BROKEN', n, det[:600])
    print('replay:', 'reproduced' if (rr.fails or bad) else 'not reproduced')
    return 1 if (rr.fails or bad) else 0
