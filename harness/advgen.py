"""Adversarial-but-legal document generator for C02 (rendering is total): every display type inside every other,
zero / tiny / huge / negative lengths, empty elements, deep nesting, content taller/wider than the page, every
break value, tiny pages, output options."""
import random

DISPLAYS = ['block', 'inline', 'inline-block', 'list-item', 'flow-root', 'table', 'inline-table', 'table-row-group',
            'table-header-group', 'table-footer-group', 'table-row', 'table-cell', 'table-column',
            'table-column-group', 'table-caption', 'flex', 'inline-flex', 'grid', 'inline-grid', 'none']
LENGTHS = ['0', '1px', '-1px', '50px', '3000px', '-50px', '0.001px', '10%', '150%', '-10%', '3em', 'auto', '7px']
POS_LENGTHS = ['0', '1px', '50px', '3000px', '0.001px', '10%', '150%', '3em', '7px']
BREAKS = ['auto', 'avoid', 'avoid-page', 'avoid-column', 'page', 'column', 'left', 'right', 'recto', 'verso', 'always']
TAGS = ['div', 'span', 'p', 'section', 'b']
OPTIONS = [{}, {'uncompressed_pdf': True}, {'pdf_version': '1.4'}, {'pdf_variant': 'pdf/a-3b'}, {'pdf_variant': 'pdf/ua-1'},
           {'zoom': 0.1}, {'zoom': 7.3}, {'pdf_forms': True}, {'full_fonts': True}, {'hinting': True}, {'srgb': True},
           {'custom_metadata': True}, {'pdf_identifier': b'abc'}]


def style(rng, depth, avoid=()):
    css = []
    r = rng.random

    def maybe(p, prop, values):
        if r() < p:
            css.append('%s:%s' % (prop, rng.choice(values)))
    disp = [d for d in DISPLAYS if d not in avoid]
    maybe(0.55, 'display', disp)
    maybe(0.2, 'width', LENGTHS)
    maybe(0.2, 'height', LENGTHS)
    maybe(0.08, 'min-width', POS_LENGTHS)
    maybe(0.08, 'max-width', POS_LENGTHS)
    maybe(0.08, 'min-height', POS_LENGTHS)
    maybe(0.08, 'max-height', POS_LENGTHS)
    maybe(0.2, 'margin', LENGTHS)
    maybe(0.1, 'margin-top', LENGTHS)
    maybe(0.15, 'padding', POS_LENGTHS)
    maybe(0.15, 'border', ['1px solid', '0 solid', '100px double red', '3px dashed', '2px dotted', 'medium groove'])
    maybe(0.12, 'position', ['relative', 'absolute', 'fixed', 'static'])
    if css and css[-1].startswith('position'):
        maybe(0.6, 'top', LENGTHS)
        maybe(0.4, 'left', LENGTHS)
        maybe(0.3, 'right', LENGTHS)
        maybe(0.3, 'bottom', LENGTHS)
    maybe(0.1, 'float', ['left', 'right', 'none'])
    maybe(0.05, 'clear', ['left', 'right', 'both'])
    maybe(0.06, 'columns', ['2', '3', '1', '10px', '2 10px'])
    maybe(0.06, 'break-before', BREAKS)
    maybe(0.06, 'break-after', BREAKS)
    maybe(0.06, 'break-inside', ['auto', 'avoid', 'avoid-page', 'avoid-column'])
    maybe(0.05, 'overflow', ['hidden', 'visible', 'auto'])
    maybe(0.06, 'font-size', ['0', '1px', '10px', '300px'])
    maybe(0.04, 'line-height', ['0', '1', '10px', '300px', 'normal'])
    maybe(0.04, 'white-space', ['normal', 'nowrap', 'pre', 'pre-wrap', 'pre-line'])
    maybe(0.03, 'text-indent', ['-50px', '50px', '100%'])
    maybe(0.03, 'orphans', ['1', '4', '100'])
    maybe(0.03, 'widows', ['1', '4', '100'])
    maybe(0.03, 'box-decoration-break', ['clone', 'slice'])
    maybe(0.03, 'z-index', ['-1', '0', '5'])
    maybe(0.03, 'opacity', ['0', '0.5', '1'])
    maybe(0.03, 'transform', ['rotate(10deg)', 'scale(0)', 'translate(10px, 5px)'])
    maybe(0.03, 'box-sizing', ['border-box', 'content-box'])
    maybe(0.03, 'flex', ['1', '0 0 auto', '2 1 0', 'none', '1 1 50%', '0 0 100%', '0 1 0%'])
    # percentages in flex / grid properties resolve against sizes that may be indefinite (auto heights)
    maybe(0.03, 'flex-basis', ['50%', '0', '100%', '10px', 'content', 'auto', '0%'])
    maybe(0.02, 'gap', ['0', '5px', '30px', '10%', '5% 20%'])
    maybe(0.01, 'row-gap', ['10%', '100%', '3px'])
    maybe(0.02, 'flex-direction', ['row', 'column', 'row-reverse', 'column-reverse'])
    maybe(0.02, 'flex-wrap', ['wrap', 'nowrap', 'wrap-reverse'])
    maybe(0.02, 'grid-template-columns', ['1fr 1fr', '10px auto', 'repeat(3, 1fr)', '100px'])
    return ';'.join(css)


def element(rng, depth, avoid):
    tag = rng.choice(TAGS)
    st = style(rng, depth, avoid)
    kids = ''
    if depth < rng.choice([2, 3, 4, 6]):
        for _ in range(rng.choice([0, 1, 1, 2, 3])):
            kids += element(rng, depth + 1, avoid)
    r = rng.random()
    if r < 0.45:
        kids += rng.choice(['abc', 'abc def gh', 'a ' * 40, '', ' ', 'abcdefghabcdefghabcdefghabcdefgh', 'a\nb\tc'])
    return '<%s style="%s">%s</%s>' % (tag, st, kids, tag)


def document(rng, avoid=()):
    w = rng.choice([1, 10, 50, 100, 200, 500])
    h = rng.choice([10, 30, 100, 200, 1000])
    m = rng.choice(['0', '1px', '10px', '50%'])
    body = ''.join(element(rng, 0, avoid) for _ in range(rng.choice([1, 2, 3])))
    html = ('<style>@page{size:%dpx %dpx;margin:%s} html{font-family:weasyprint;font-size:10px}</style>%s' % (w, h, m, body))
    return html, rng.choice(OPTIONS)


# ------------------------------------------------------------------------------------------------ HTML features
PNG1 = ('data:image/png;base64,iVBORw0KGgoAAAANSUhEUgAAAAIAAAACCAYAAABytg0kAAAAEklEQVQImWNgYGD4z8DAwMAAAAYAAf8S8K0AAAAA'
        'SUVORK5CYII=')
SVG1 = "data:image/svg+xml,<svg xmlns='http://www.w3.org/2000/svg' width='10' height='5'><rect width='10' height='5'/></svg>"
SPANS = ['0', '1', '2', '3', '5', '100', '-1', 'x']


def cell_content(rng, depth):
    r = rng.random()
    if r < 0.45:
        return rng.choice(['a', 'abc def', 'a<br>b<br>c', '', ' ', 'abcdefghabcdefgh'])
    if r < 0.6:
        return '<p style="%s">abc def gh</p>' % style(rng, depth + 1, avoid=('none',))
    if r < 0.7 and depth < 2:
        return table(rng, depth + 1)
    if r < 0.8:
        return '<img src="%s" style="%s">' % (rng.choice([PNG1, SVG1, 'missing.png']), style(rng, depth + 1))
    if r < 0.9:
        return rng.choice(['<input value="x">', '<input type=checkbox checked>', '<select><option>a<option selected>b</select>',
                           '<textarea>t\nu</textarea>', '<button>b</button>'])
    return '<ul><li>a<li value=5>b</ul>'


def table(rng, depth=0):
    ncols = rng.choice([1, 2, 3, 4])
    nrows = rng.choice([1, 2, 3, 5])

    def cell(tag='td'):
        attrs = ''
        if rng.random() < 0.35:
            attrs += ' rowspan=%s' % rng.choice(SPANS)
        if rng.random() < 0.3:
            attrs += ' colspan=%s' % rng.choice(SPANS)
        if rng.random() < 0.25:
            attrs += ' style="%s"' % style(rng, depth + 1, avoid=('none',))
        return '<%s%s>%s</%s>' % (tag, attrs, cell_content(rng, depth), tag)

    def rows(n, tag='td'):
        return ''.join('<tr%s>%s</tr>' % (' style="%s"' % style(rng, depth + 1) if rng.random() < 0.15 else '',
                                         ''.join(cell(tag) for _ in range(rng.choice([0, 1, ncols, ncols, ncols + 1]))))
                       for _ in range(n))
    parts = []
    if rng.random() < 0.3:
        parts.append('<caption style="caption-side:%s">cap</caption>' % rng.choice(['top', 'bottom']))
    if rng.random() < 0.3:
        parts.append('<colgroup span=%s style="width:%s"></colgroup><col span=%s style="width:%s">' % (
            rng.choice(SPANS), rng.choice(LENGTHS), rng.choice(SPANS), rng.choice(LENGTHS)))
    if rng.random() < 0.4:
        parts.append('<thead>%s</thead>' % rows(rng.choice([1, 2]), 'th'))
    if rng.random() < 0.3:
        parts.append('<tfoot>%s</tfoot>' % rows(1))
    for _ in range(rng.choice([1, 1, 2])):
        parts.append('<tbody>%s</tbody>' % rows(nrows))
    rng.shuffle(parts)
    css = ['border-collapse:' + rng.choice(['collapse', 'separate']), 'table-layout:' + rng.choice(['auto', 'fixed'])]
    if rng.random() < 0.5:
        css.append('width:' + rng.choice(LENGTHS))
    if rng.random() < 0.3:
        css.append('border-spacing:' + rng.choice(['0', '2px', '5px 1px', '50px']))
    if rng.random() < 0.3:
        css.append('border:' + rng.choice(['1px solid', '5px double', '3px groove']))
    if rng.random() < 0.15:
        css.append('direction:rtl')
    return '<table style="%s">%s</table>' % (';'.join(css), ''.join(parts))


def html_document(rng):
    """real HTML elements with their attributes: tables (row/col spans of every size, col/colgroup spans, head/foot/
    caption in any order, nested tables, both border models and layouts), images, form controls, lists - on small pages"""
    w = rng.choice([30, 100, 200, 500])
    h = rng.choice([10, 30, 60, 100, 200])
    m = rng.choice(['0', '1px', '10px'])
    parts = []
    for _ in range(rng.choice([1, 2, 3])):
        r = rng.random()
        if r < 0.7:
            parts.append(table(rng))
        elif r < 0.85:
            parts.append(element(rng, 1, ()))
        else:
            parts.append('<ol start=%s reversed>%s</ol>' % (rng.choice(['1', '-3', '100', 'x']), '<li>a<li value=2>b<li>c'))
    html = ('<style>@page{size:%dpx %dpx;margin:%s} html{font-family:weasyprint;font-size:10px;line-height:10px}'
            'td,th{padding:%s}</style>%s' % (w, h, m, rng.choice(['0', '1px', '5px']), ''.join(parts)))
    return html, rng.choice(OPTIONS)
