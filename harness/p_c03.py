"""C03 - content stays on its page and every page makes progress."""
import random, collections
import common, fragcheck, fraggen, widegen

EPS = 1e-6


def judge_fit(pages):
    """every in-flow line box / table row ends above the page bottom unless it is the first content of the page
    (nothing in flow starts above it)."""
    bad = []
    for pi, pg in enumerate(pages):
        inflow = [it for it in pg['items'] if it[4]]
        if not inflow:
            continue
        top = min(it[1] for it in inflow)
        for kind, y, h, w, _ in inflow:
            # first content = nothing in flow ends at or above its top
            preceded = any(h2 > 0 and y2 + h2 <= y + EPS for _, y2, h2, _, _ in inflow)
            if y + h > pg['height'] + EPS and preceded:
                bad.append(('ends-below-page-bottom', dict(page=pi, kind=kind, y=y, h=h, word=w, page_height=pg['height'])))
        # a block's own bottom padding/border also fits, unless it holds the first content of the page or a line
        # that legitimately overflows
        first_idx = next((i for i, it in enumerate(pg['items']) if it[4] and it[1] <= top + EPS), None)
        for by, bh, a, b, deco, nlines, orphans, widows, bi, *more in pg.get('blocks', ()):
            fit_split = bool(more and more[0])
            # only the box's own bottom padding/border is outside: its content ends on the page
            if by + bh > pg['height'] + EPS and deco > 0 and by + bh - deco <= pg['height'] + EPS:
                inner = [it for it in pg['items'][a:b] if it[4]]
                if not inner:
                    continue
                holds_first = first_idx is not None and a <= first_idx < b
                if holds_first and not (nlines >= orphans + widows and bi == 'auto') and not (fit_split and bi == 'auto'):
                    # first content of the page and no earlier legal break inside it: unavoidable
                    continue
                bad.append(('block-decoration-below-page-bottom',
                            dict(page=pi, kind='block', y=by, h=bh, page_height=pg['height'], lines=nlines)))
    return bad


def judge_progress(pages, leaves):
    """a page that shows non-repeatable content shows some content no earlier page showed; the number of pages
    without any non-repeatable content is bounded by the number of elements (blank pages for side breaks, pages
    holding only empty boxes or repeated furniture)"""
    repeat = set(w for lf in leaves if lf['repeat'] for w in lf['words'])
    seen = set()
    bad = []
    empty = 0
    for pi, pg in enumerate(pages):
        own = [w for w in pg['words'] if w not in repeat]
        new = [w for w in own if w not in seen]
        seen.update(own)
        if own and not new:
            kinds = sorted(set(lf['kind'] for lf in leaves for w in own if w in lf['words']))
            bad.append(('page-shows-only-old-content', dict(page=pi, kind='+'.join(kinds))))
        if not own:
            empty += 1
    if empty > len(leaves) + 2:
        bad.append(('too-many-pages-without-content', dict(empty=empty, leaves=len(leaves))))
    return bad


def deco_document(rng):
    g = widegen.G(rng, set())
    H = rng.choice([40, 50, 60, 80, 100])
    parts = []
    for _ in range(rng.choice([1, 2, 3])):
        ws = g.words(rng.choice([4, 6, 9, 12]))
        g.leaf(ws, 'para', ['deco'])
        st = 'padding-bottom:%dpx;border-bottom:%dpx solid;margin-bottom:%dpx' % (
            rng.choice([0, 3, 5, 10]), rng.choice([0, 1, 4]), rng.choice([0, 5]))
        if rng.random() < 0.3:
            st += ';orphans:%d;widows:%d' % (rng.choice([1, 2]), rng.choice([1, 2]))
        parts.append('<p style="%s">%s</p>' % (st, '<br>'.join(ws)))
    html = ('<style>@page{size:100px %dpx; margin:0} html{font-family:weasyprint;font-size:10px;line-height:10px}'
            'body{margin:0} p{margin:0}</style>' % H) + ''.join(parts)
    return html, g.leaves, H


def clone_document(rng):
    """a box-decoration-break: clone box with a bottom border / padding around several paragraphs, split over pages,
    first on its page or after a filler: every fragment's repeated bottom decoration has to fit when an earlier break
    between two of its children leaves room for it"""
    g = widegen.G(rng, set())
    H = rng.choice([50, 60, 80, 100])
    parts = []
    if rng.random() < 0.4:
        ws = g.words(rng.choice([1, 2]))
        g.leaf(ws, 'para', ['clone-filler'])
        parts.append('<p>%s</p>' % '<br>'.join(ws))
    inner = []
    for _ in range(rng.choice([4, 5, 6, 8])):
        ws = g.words(rng.choice([1, 2, 3]))
        g.leaf(ws, 'para', ['clone'])
        inner.append('<p style="%s">%s</p>' % (rng.choice(['', '', 'padding-top:5px', 'border-top:2px solid']), '<br>'.join(ws)))
    st = 'box-decoration-break:clone;border-bottom:%dpx solid;padding-bottom:%dpx' % (
        rng.choice([4, 10, 15, 20]), rng.choice([0, 0, 5]))
    if rng.random() < 0.3:
        st += ';border-top:%dpx solid' % rng.choice([2, 10])
    parts.append('<div style="%s">%s</div>' % (st, ''.join(inner)))
    html = ('<style>@page{size:100px %dpx; margin:0} html{font-family:weasyprint;font-size:10px;line-height:10px}'
            'body{margin:0} p{margin:0}</style>' % H) + ''.join(parts)
    return html, g.leaves, H


def check(run):
    rng = random.Random(run.seed * 7919 + 3)
    thorough = run.tier == 'thorough'
    common.prove(run, 'C03', ['model/FragSpec.vo'])
    run.trusted += ['Coq 8.16.1 kernel; vm_compute for cases.v',
                    'hand model coq/model/Frag2.v tied to /repo by frag2-render (same pages, same line positions)',
                    'render harness (Python)']
    run.assumptions += ['the theorem is about line boxes of the block/paragraph grammar; table rows, columns, float and '
                        'footnote areas are covered by the wide monitor only',
                        'overflow tolerance 1e-9 of LayoutContext.overflows coincides with > on the integer inputs of the '
                        'correspondence (reading R2 of DESIGN.md)',
                        'progress in the sense "a page never shows only content already shown" is monitored; a page that shows '
                        'nothing because only empty boxes were placed on it is the listed finding empty-page-from-empty-boxes']
    try:
        res = fragcheck.frag_stream(run, rng, 3000 if thorough else 500, 'c03frag',
                                    heights=[10, 20, 30, 50, 70, 100, 15, 25, 35, 5, 12])
        mism = [d for d, m in res if m & 1]
        run.oblige('corr:frag2-render(model pages = implementation pages)', not mism,
                   'first disagreements: %s' % [(d['H'], d['html']) for d in mism[:2]])
        for d, m in res:
            if m & 4:
                run.fail('a line that is not the first of its page ends below the page bottom',
                         {'stream': 'frag2-render', 'html': d['html'], 'pages': d['pages'], 'H': d['H']})
                break
        # progress on the model grammar: a page without lines is a blank page required by a side break
        for d, m in res:
            for clause, detail in fragcheck.judge_blank_pages(d)[:1]:
                run.fail('%s %s' % (clause, detail), {'stream': 'frag2-render', 'html': d['html'], 'pages': d['pages'],
                                                      'H': d['H'], 'clause': clause}, signature='progress:%s' % clause)
        run.count('frag2-render', len(res), [fragcheck.doc_key(d) for d, _ in res if len(d['pages']) > 1],
                  samples=[res[0][0]['html'][-400:]] if res else [])
        run.stream_info('frag2-render', rule='fraggen.py incl. pages shorter than one line; judged in Coq: model = implementation, '
                        'fits_b on the implementation pages', short_pages=sum(1 for d, _ in res if d['H'] < 10))
    except RuntimeError as exc:
        run.oblige('corr:frag2-render', False, str(exc))
    # ---- wide monitor (+ long paragraphs with bottom padding/border, split over pages)
    docs = [widegen.document(rng, widegen.ALL_FEATS) for _ in range(2000 if thorough else 350)]
    docs += [deco_document(rng) for _ in range(600 if thorough else 120)]
    docs += [clone_document(rng) for _ in range(400 if thorough else 100)]
    # tables and multi-column boxes split over several pages, column-span blocks first on a page
    docs += [widegen.split_document(rng) for _ in range(800 if thorough else 200)]
    outs = common.run_impl('impl_wide', 'render_fit', [{'html': h} for h, _, _ in docs], limit=90)
    nitems = 0
    keys = []
    for (html, leaves, H), (st, o) in zip(docs, outs):
        if st == 'timeout':
            run.fail('render timeout', {'stream': 'wide-fit', 'html': html}, signature='timeout'); continue
        if st == 'exc':
            run.fail('render raised %s at %s' % (o['type'], o['site']), {'stream': 'wide-fit', 'html': html, 'exc': o},
                     signature='crash:%s' % (o['site'],)); continue
        nitems += sum(len(p['items']) for p in o)
        if len(o) > 1:
            keys.append((H, len(o), hash(html) & 0xffff))
        for clause, detail in (judge_fit(o) + judge_progress(o, leaves))[:1]:
            run.fail('%s %s' % (clause, detail), {'stream': 'wide-fit', 'html': html, 'clause': clause, 'detail': detail, 'leaves': leaves},
                     signature=('table-split:cell-content-once[restart-after-empty-fragment]'
                                if clause == 'page-shows-only-old-content' and detail.get('kind') == 'cell'
                                else 'fit:%s:%s' % (clause, detail.get('kind', ''))))
    run.count('wide-fit', len(docs), keys, samples=[docs[0][0][-400:]])
    run.stream_info('wide-fit', items=nitems, rule='widegen.py; every in-flow LineBox and TableRowBox of every page judged; '
                    'non-trivial = more than one page')


def replay(data):
    d = data.get('data', {})
    if d.get('stream') == 'wide-fit':
        (st, o), = common.run_impl('impl_wide', 'render_fit', [{'html': d['html']}])
        bad = (judge_fit(o) + judge_progress(o, d.get('leaves', []))) if st == 'ok' else [(st, o)]
        print(bad[:5])
        return 1 if bad else 0
    if d.get('stream') == 'frag2-render':
        (st, o), = common.run_impl('impl_frag', 'render_lines', [{'html': d['html']}])
        print(st, o)
        return 1
    return 0
