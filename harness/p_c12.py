"""C12 - flex and grid containers distribute space and place items as specified."""
import random, math, json
from fractions import Fraction
import common
from common import qlit


def zlit(n):
    return '(%d)%%Z' % n

PRE = ('From Coq Require Import QArith List ZArith Bool.\n'
       'Require Import WV.model.C12Flex WV.model.C12FlexLines WV.model.C12FlexSpec.\n'
       'Import ListNotations.\nOpen Scope Q_scope.\n')

KW = ['normal', 'flex-start', 'flex-end', 'start', 'end', 'left', 'right', 'center', 'space-between',
      'space-around', 'space-evenly', 'stretch']
KWC = ['KNormal', 'KFlexStart', 'KFlexEnd', 'KStart', 'KEnd', 'KLeft', 'KRight', 'KCenter', 'KBetween',
       'KAround', 'KEvenly', 'KStretch']
WRAP = ['nowrap', 'wrap', 'wrap-reverse']

# residual deviations of the implementation from css-flexbox / css-align, by trigger region (reported)
SIG_COLLR = 'flex:justify-left-right-column'          # open known finding (e)
SIG_AUTO_TB = 'flex:auto-margin-top-bottom-zeroed'   # step 7 sets auto margin_top/bottom to 0 before step 12/13


def fnum(x):
    """number -> css text (ints and dyadic fractions print exactly)"""
    x = Fraction(x)
    if x.denominator == 1:
        return str(x.numerator)
    return repr(float(x))


def optq(x):
    return 'None' if x is None else '(Some %s)' % qlit(x)


# ------------------------------------------------------------------------------------------ flex rows

def gen_row(rng, profile):
    """A flex row container with fixed-size, text-free items.  profile: 'plain' (no trigger of a known
    deviation), 'wide' (everything)."""
    wide = profile == 'wide'
    col = rng.random() < 0.3
    n = rng.choice([1, 2, 2, 3, 3, 3, 4, 5, 6, 8])
    W = rng.choice([100, 200, 300, 300, 400, 500, rng.randint(50, 600)])
    gap = rng.choice([0, 0, 4, 10, 16, 20])
    wrap = rng.choice([0, 0, 0, 1, 1, 2])
    reverse = rng.random() < 0.25
    kw = rng.choice(['normal', 'flex-start'] + KW)
    frac = wide and rng.random() < 0.3
    items = []
    style = rng.choice(['flexy', 'flexy', 'rigid', 'mixed', 'shrinky'])
    for i in range(n):
        it = {'id': i}
        it['order'] = rng.choice([0, 0, 0, 0, 1, -1, 2]) if rng.random() < 0.4 else 0
        base = rng.choice([0, 10, 20, 40, 50, 80, 100, 150, 200, rng.randint(0, 250)])
        if style == 'shrinky':
            base = rng.choice([100, 150, 200, 300, rng.randint(60, 400)])
        r = rng.random()
        if r < 0.6:
            it['basis'] = ('px', base)
        elif r < 0.85:
            it['basis'] = ('width', base)
        else:
            p = rng.choice([10, 25, 50, 75])
            it['basis'] = ('pct', p)
        gs = [0, 1, 1, 2, 3] + ([Fraction(1, 2), Fraction(1, 4)] if frac else [])
        if style == 'rigid':
            it['grow'], it['shrink'] = 0, rng.choice([0, 0, 1])
        else:
            it['grow'], it['shrink'] = rng.choice(gs), rng.choice(gs[1:] + [0] if style != 'mixed' else gs)
        it['min'] = rng.choice([None, None, None, 0, 20, 50, 120, rng.randint(0, 150)])
        it['max'] = rng.choice([None, None, None, 30, 60, 100, 250, rng.randint(10, 300)])
        for side in ('ml', 'mr'):
            r = rng.random()
            it[side] = 0 if r < 0.6 else ('auto' if r < 0.7 else rng.choice([5, 10, 3, -5] if wide else [5, 10, 3]))
        it['bl'], it['br'] = rng.choice([0, 0, 0, 1, 3]), rng.choice([0, 0, 0, 2])
        it['pl'] = it['pr'] = 0
        if wide and rng.random() < 0.15:
            it['pl'], it['pr'] = rng.choice([0, 4, 10]), rng.choice([0, 6])
        items.append(it)
    if rng.random() < 0.25:
        # boundary: the first k items fill the main size exactly (hypothetical outer sizes + gaps)
        k = rng.randint(1, n)
        tot = 0
        for it in items[:k]:
            b = Fraction(it['basis'][1]) * (W if it['basis'][0] == 'pct' else 100) / 100
            h = max(Fraction(it['min'] or 0), min(b, it['max']) if it['max'] is not None else b)
            tot += h + sum(it[m] for m in ('ml', 'mr') if it[m] != 'auto') + it['bl'] + it['br'] + it['pl'] + it['pr']
        tot += (k - 1) * gap
        if tot == int(tot) and tot > 0 and not any(it['basis'][0] == 'pct' for it in items):
            W = int(tot)
    return {'col': col, 'W': W, 'gap': gap, 'wrap': wrap, 'reverse': reverse, 'kw': kw, 'items': items,
            'ox': [rng.choice([0, 7]), rng.choice([0, 2]), rng.choice([0, 3])]}


def row_html(c):
    """main axis: x (row) or y (column, definite height).  The item dicts use the row names
    (ml/mr/bl/br/pl/pr/min/max = start/end side and main size) for both directions."""
    col = c.get('col', False)
    o1, o2, o3 = c['ox']
    if col:
        M, S, E, XS, XV = 'height', 'top', 'bottom', 'width', '400px'
        dirn = 'column-reverse' if c['reverse'] else 'column'
        gaps = ['row-gap:%dpx' % c['gap'], 'column-gap:0']
    else:
        M, S, E, XS, XV = 'width', 'left', 'right', 'height', 'auto'
        dirn = 'row-reverse' if c['reverse'] else 'row'
        gaps = ['column-gap:%dpx' % c['gap'], 'row-gap:0']
    st = ['display:flex', '%s:%dpx' % (M, c['W']), '%s:%s' % (XS, XV)] + gaps + [
        'flex-direction:%s' % dirn, 'flex-wrap:%s' % WRAP[c['wrap']],
        'justify-content:%s' % c['kw'], 'align-items:flex-start', 'margin-%s:%dpx' % (S, o1),
        'border-%s:%dpx solid' % (S, o2), 'padding-%s:%dpx' % (S, o3)]
    out = ['<style>@page{size:3000px 3000px;margin:0}body{margin:0}#c>div{%s:10px}</style>' % XS,
           '<div id="c" style="%s">' % ';'.join(st)]
    for it in c['items']:
        s = ['flex-grow:%s' % fnum(it['grow']), 'flex-shrink:%s' % fnum(it['shrink'])]
        kind, v = it['basis']
        if kind == 'px':
            s.append('flex-basis:%spx' % fnum(v))
        elif kind == 'pct':
            s.append('flex-basis:%s%%' % fnum(v))
        else:
            s.append('flex-basis:auto;%s:%spx' % (M, fnum(v)))
        if it['min'] is not None:
            s.append('min-%s:%spx' % (M, fnum(it['min'])))
        if it['max'] is not None:
            s.append('max-%s:%spx' % (M, fnum(it['max'])))
        s.append('margin-%s:%s' % (S, 'auto' if it['ml'] == 'auto' else '%spx' % fnum(it['ml'])))
        s.append('margin-%s:%s' % (E, 'auto' if it['mr'] == 'auto' else '%spx' % fnum(it['mr'])))
        s.append('border-%s:%dpx solid' % (S, it['bl']))
        s.append('border-%s:%dpx solid' % (E, it['br']))
        s.append('padding-%s:%dpx' % (S, it['pl']))
        s.append('padding-%s:%dpx' % (E, it['pr']))
        if it['order']:
            s.append('order:%d' % it['order'])
        out.append('<div id="i%d" style="%s"></div>' % (it['id'], ';'.join(s)))
    out.append('</div>')
    return ''.join(out)


def row_base(c, it):
    kind, v = it['basis']
    return Fraction(v) * c['W'] / 100 if kind == 'pct' else Fraction(v)


def coq_ritem(c, it):
    return ('(mkR %s %s %s %s %s %s %s %s %s %s %s)' % (
        zlit(it['id']), zlit(it['order']), qlit(row_base(c, it)), qlit(it['min'] or 0), optq(it['max']),
        qlit(it['grow']), qlit(it['shrink']), qlit(it['pl'] + it['pr']), qlit(it['bl'] + it['br']),
        optq(None if it['ml'] == 'auto' else it['ml']), optq(None if it['mr'] == 'auto' else it['mr'])))


def row_impl_out(c, o):
    """impl records -> [(id, line index, x, w)] or None when the output is unusable"""
    recs = o['items']
    if o['c'] is None or len(recs) != len(c['items']):
        return None
    col = c.get('col', False)
    mainp, crossp, mains = ('y', 'x', 'h') if col else ('x', 'y', 'w')
    cs = sorted({r[crossp] for r in recs if isinstance(r[crossp], float)})
    out = []
    for r in recs:
        if not all(isinstance(r[k], float) for k in ('x', 'y', 'w', 'h')):
            return None
        out.append((int(r['id'][1:]), cs.index(r[crossp]), Fraction(r[mainp]), Fraction(r[mains])))
    return out


def coq_row_case(c, out):
    outs = '; '.join('(%s, %s, %s, %s)' % (zlit(i), zlit(l), qlit(x), qlit(w)) for i, l, x, w in out)
    return '(%s, %d%%nat, %s, %s, (%s, %s, %s), [%s], [%s])' % (
        'true' if c.get('col') else 'false', c['wrap'], 'true' if c['reverse'] else 'false', KWC[KW.index(c['kw'])], qlit(sum(c['ox'])), qlit(c['W']),
        qlit(c['gap']), '; '.join(coq_ritem(c, it) for it in c['items']), outs)


def row_triggers(c, mask):
    """which reported deviation region (if any) a css-reference disagreement falls in"""
    if c.get('col') and any(it['ml'] == 'auto' or it['mr'] == 'auto' for it in c['items']):
        return SIG_AUTO_TB
    if c.get('col') and c['kw'] == 'right':
        return SIG_COLLR
    return None


def row_features(c):
    its = c['items']
    return (len(its), c.get('col', False), c['wrap'], c['reverse'], c['kw'], c['gap'] > 0,
            any(it['ml'] == 'auto' or it['mr'] == 'auto' for it in its),
            any(it['min'] is not None for it in its), any(it['max'] is not None for it in its),
            any(it['order'] for it in its), sum(1 for it in its if it['grow']), sum(1 for it in its if it['shrink']))


def report_known(run, sig, what, data):
    """Deviations already analysed (listed in the report): they count as failing inputs only when the
    signature is registered as an open finding; otherwise they are recorded in the evidence."""
    if any(k.get('signature') == sig for k in run.known):
        run.fail(what, data, signature=sig)
    else:
        d = run.cov['streams'].setdefault('known-deviations', {'cases': 0, 'by_signature': {}, 'witness': {}})
        d['by_signature'][sig] = d['by_signature'].get(sig, 0) + 1
        d['witness'].setdefault(sig, data.get('html', '')[:1500])


class GatedRun:
    """run.fail goes through report_known for the grid mechanisms that are analysed in the report (they become
    failing inputs as soon as their signature is listed as an open finding); everything else is passed on."""
    def __init__(self, run):
        self._run = run

    def __getattr__(self, k):
        return getattr(self._run, k)

    def fail(self, what, data, signature=None):
        if signature is not None and (signature.startswith('grid:') or
                                      (signature.startswith('crash:') and 'grid.py' in signature)):
            return report_known(self._run, signature, what, data)
        return self._run.fail(what, data, signature=signature)


def stream_rows(run, profile, name, cases, docs, outs):
    coq_cases, kept = [], []
    for c, d, (st, o) in zip(cases, docs, outs):
        if st != 'ok':
            run.fail('flex render %s: %s' % (st, (o or {}).get('site') if o else None),
                     {'stream': name, 'case': c, 'html': d['html'], 'outcome': o},
                     signature='crash:%s' % ((o or {}).get('site'),) if st == 'exc' else 'timeout')
            continue
        out = row_impl_out(c, o)
        if out is None:
            run.fail('flex render lost items or produced non-numeric geometry',
                     {'stream': name, 'case': c, 'html': d['html'], 'impl': o}, signature='flex:unusable-output')
            continue
        coq_cases.append(coq_row_case(c, out))
        kept.append((c, d, out))
    try:
        masks = common.eval_cases('c12' + name.replace('-', ''), PRE, 'row_case', coq_cases, 'row_judge', per_file=60)
    except RuntimeError as exc:
        run.oblige('corr:%s' % name, False, str(exc))
        return
    mism = [(c, d['html'], [(i, l, float(x), float(w)) for i, l, x, w in out])
            for (c, d, out), m in zip(kept, masks) if m & 1]
    run.oblige('corr:%s(model row_code vs rendered item boxes)' % name, not mism, 'first disagreements: %s' % mism[:2])
    nspec = 0
    for (c, d, out), m in zip(kept, masks):
        if m & 2:
            sig = row_triggers(c, m)
            data = {'stream': name, 'case': c, 'html': d['html'],
                    'impl': [(i, l, float(x), float(w)) for i, l, x, w in out]}
            if sig is None:
                nspec += 1
                if nspec <= 3:
                    run.fail('flex row differs from the css-flexbox reference (9.3/9.7/9.5)', data)
            else:
                report_known(run, sig, 'flex row differs from the css-flexbox reference: ' + sig, data)
    run.count(name, len(kept), [row_features(c) for c, _, _ in kept],
              samples=[{'html': kept[0][1]['html'], 'impl': [(i, l, float(x), float(w)) for i, l, x, w in kept[0][2]]}]
              if kept else [])
    run.stream_info(name, rule='single/multi-line row containers, 1..8 fixed-size text-free items; flex-basis px/%%/auto+width, '
                    'grow/shrink/min/max/margins(auto)/borders/order from small sets, gaps 0..20, all justify-content keywords; '
                    'profile=%s; distinct = feature tuple' % profile,
                    spec_disagreements_unsigned=nspec, css_reference_agrees=sum(1 for m in masks if not m & 2))


def check(run):
    rng = random.Random(run.seed * 7919 + 12)
    thorough = run.tier == 'thorough'
    common.prove(run, 'C12', ['model/C12Flex.vo', 'model/C12FlexLines.vo', 'model/C12FlexSpec.vo', 'model/C12Grid.vo',
                              'proofs/C12_gen_grid_base.vo', 'proofs/C12_gen_grid_place.vo',
                              'proofs/C12_gen_grid_children.vo', 'proofs/C12_gen_grid_second.vo',
                              'proofs/C12_gen_flex_base.vo',
                              'proofs/C12_gen_flex_run.vo', 'proofs/C12_gen_flex.vo'])
    run.trusted += ['Coq 8.16.1 kernel (coqc); vm_compute for the cases.v evaluation',
                    'harness/p_c12.py, p_c12grid.py: translation of the generated CSS into model inputs (used flex basis, '
                    'min/max, outer extras, line numbers, track lists) and of rendered boxes into judge inputs',
                    'monitors flex-monitor-wrap / flex-monitor-cross / grid-monitor are judged in Python']
    run.assumptions += ['hand-written models (C12Flex, C12FlexLines, C12Grid) are tied to flex.py / grid.py by render '
                        'correspondence (tolerance 1e-6 px, integer/dyadic inputs); by the translator only the grid '
                        'placement helpers _intersect, _intersect_with_children, _get_span, _get_line, _get_placement '
                        '(gen/GenGrid.v, theorems C12_source_*), for grid lines without names: the named-line searches '
                        'are printed as "%unsupported" calls and proved unreachable there; of _get_second_placement only '
                        'the sparse branch for second_start auto (C12_source_second_*: the set of occupied tracks is '
                        'given by its elements); its loop building the set, the dense branch and the `count()` search '
                        'for a span are tied by render correspondence only',
                        'flex.py step 6 (9.7.1, 9.7.3, 9.7.4, 9.7.5.b-e) is tied by the translator slice by slice '
                        '(gen/GenFlexResolve.v, theorems C12_source_flex_*): items are attribute bags read as values, '
                        'loops that store attributes of the items are printed by the rule rebuild_for of tools/py2coq.py '
                        '(the objects of a line are pairwise distinct); outside: a max size of inf in 9.7.5.d, the '
                        '`while not all(frozen)` test and the composition of the slices, 9.7.6',
                        'flex theorems assume 0 <= flex-grow, 0 <= flex-shrink, 0 <= base, min <= max (the parser accepts '
                        'negative factors: reported)',
                        'cross-axis sizing/alignment (steps 7-16), rtl, intrinsic (content-based) flex bases and grid '
                        'tracks, named grid lines are monitored, not proved',
                        'available_main_space == inf (column container of indefinite height before step 4) is not modelled']
    k = 10 if thorough else 1
    plan = [('rows', 'plain', 'flex-row', 400 * k), ('rows', 'wide', 'flex-row-wide', 200 * k),
            ('mon', 'wrap', 'flex-monitor-wrap', 300 * k), ('mon', 'cross', 'flex-monitor-cross', 300 * k),
            ('mon', 'grid', 'grid-monitor', 300 * k)]
    batches = []
    for what, arg, name, n in plan:
        if what == 'rows':
            cases = [gen_row(rng, arg) for _ in range(n)]
            docs = [{'html': row_html(c)} for c in cases]
        else:
            cases = [MON[arg][0](rng) for _ in range(n)]
            docs = [{'html': MON[arg][1](c)} for c in cases]
        batches.append((what, arg, name, cases, docs))
    # grid placement and track sizing (models in coq/model/C12Grid.v; streams in harness/p_c12grid.py)
    import p_c12grid
    p_c12grid.grid_streams(GatedRun(run), rng, thorough)
    # one worker pool for all the renders of this run
    outs = common.run_impl('impl_c12', 'render_container', [d for b in batches for d in b[4]], limit=60)
    pos = 0
    for what, arg, name, cases, docs in batches:
        o = outs[pos:pos + len(docs)]
        pos += len(docs)
        if what == 'rows':
            stream_rows(run, arg, name, cases, docs, o)
        else:
            stream_monitor(run, arg, name, cases, docs, o)
    stream_pages(run, rng, 2000 if thorough else 250, 'flex-pages')
    stream_twice(run, rng, 1500 if thorough else 200, 'laid-out-twice')
    stream_witnesses(run, 'witnesses')
    stream_areas_text(run, random.Random(run.seed * 7919 + 1207), 4000 if thorough else 600, 'grid-areas-text')


def replay(data):
    d = data.get('data', {})
    if d.get('stream') == 'grid-areas-text':
        c = d['case']
        (st, o), = common.run_impl('impl_c12', 'template_areas', [{'value': c['value']}])
        ref = areas_reference(c['rows'])
        print('replay: implementation', st, o, 'css-grid 7.3', ref)
        return 0 if st == 'ok' and o == ref else 1
    if d.get('stream', '').startswith('flex-row'):
        c = d['case']
        (st, o), = common.run_impl('impl_c12', 'render_container', [{'html': row_html(c)}])
        if st != 'ok':
            print('replay: render', st, o)
            return 1
        out = row_impl_out(c, o)
        if out is None:
            print('replay: unusable output', o)
            return 1
        m = common.eval_cases('c12replay', PRE, 'row_case', [coq_row_case(c, out)], 'row_judge')
        print('replay: impl', [(i, l, float(x), float(w)) for i, l, x, w in out], 'judge mask', m)
        return 1 if m[0] & 3 else 0
    if d.get('stream', '').startswith('grid-place') or d.get('stream', '').startswith('grid-tracks'):
        import p_c12grid
        return p_c12grid.grid_replay(d)
    if d.get('stream') == 'witnesses':
        w = [x for x in WITNESSES if x[0] == d['witness']][0]
        (st, o), = common.run_impl('impl_c12', 'render_container', [{'html': WITNESS_STYLE + w[1]}], limit=30)
        ok = st == 'ok' and o['c'] is not None and len(o['items']) == w[2] and o['pages'] <= w[3]
        print('replay:', st, None if st != 'ok' else (o['pages'], len(o['items'])))
        return 0 if ok else 1
    if d.get('stream') == 'laid-out-twice':
        c = d['case']
        (s1, o1), (s2, o2) = common.run_impl('impl_c12', 'render_container',
                                             [{'html': twice_html(c, False)}, {'html': twice_html(c, True)}])
        bad = judge_twice(c, o1, o2) if s1 == s2 == 'ok' else [(s1, s2)]
        print('replay:', bad[:5])
        return 1 if bad else 0
    if d.get('stream') == 'flex-pages':
        c = d['case']
        (st, o), = common.run_impl('impl_c12', 'render_flex_pages', [{'html': pages_html(c)}])
        bad = judge_pages(c, o) if st == 'ok' else [(st, o)]
        print('replay:', bad[:5])
        return 1 if bad else 0
    if d.get('stream', '').startswith('flex-monitor') or d.get('stream') == 'grid-monitor':
        c = d['case']
        gen, html, judge = MON[c['kind']]
        (st, o), = common.run_impl('impl_c12', 'render_container', [{'html': html(c)}])
        bad = judge(c, o) if st == 'ok' else [(st, o)]
        print('replay:', bad[:5])
        return 1 if bad else 0
    print('nothing to replay for', d.get('stream'))
    return 0


# ------------------------------------------------------------------------------------------ flex monitor
# Wider grammar judged in Python by the geometric reading of the property (no model): wrap / reverse /
# align-items / align-self / text items / auto margins.

EPS = 1e-6
ALIGN = ['flex-start', 'flex-end', 'center', 'stretch', 'normal']


def gen_mon_wrap(rng):
    """multi-line row container, items of one cross size: order, gaps, containment, line stacking"""
    n = rng.choice([2, 3, 4, 5, 6, 8])
    W = rng.choice([100, 150, 200, 300, rng.randint(60, 400)])
    items = []
    for i in range(n):
        it = {'id': i, 'order': rng.choice([0, 0, 0, 1, -1, 2]) if rng.random() < 0.3 else 0,
              'text': rng.choice(['', '', 'abc', 'abcdefgh', 'ab cd']) if rng.random() < 0.4 else '',
              'grow': rng.choice([0, 0, 1, 2]), 'shrink': rng.choice([0, 1, 1, 3]),
              'basis': rng.choice(['auto', '%dpx' % rng.choice([20, 50, 80, 120]), '%d%%' % rng.choice([25, 50])]),
              'w': rng.choice([None, 30, 60, 90]), 'min': rng.choice([None, None, 0, 40]), 'max': rng.choice([None, None, 100]),
              'ml': rng.choice([0, 0, 5, 'auto']), 'mr': rng.choice([0, 0, 3, 'auto']),
              'bp': rng.choice([0, 0, 1, 4])}
        items.append(it)
    return {'kind': 'wrap', 'W': W, 'cgap': rng.choice([0, 5, 10, 20]), 'rgap': rng.choice([0, 4, 12]),
            'wrap': rng.choice(['wrap', 'wrap', 'wrap-reverse', 'nowrap']), 'reverse': rng.random() < 0.3,
            'kw': rng.choice(['normal', 'flex-start', 'flex-end', 'center', 'space-between', 'space-around', 'space-evenly']),
            'items': items}


def mon_wrap_html(c):
    st = ['display:flex', 'width:%dpx' % c['W'], 'column-gap:%dpx' % c['cgap'], 'row-gap:%dpx' % c['rgap'],
          'flex-wrap:%s' % c['wrap'], 'flex-direction:%s' % ('row-reverse' if c['reverse'] else 'row'),
          'justify-content:%s' % c['kw'], 'align-items:flex-start', 'margin:5px 0 0 11px']
    out = ['<style>@page{size:3000px 3000px;margin:0}body{margin:0;font-family:weasyprint;font-size:10px;line-height:10px}'
           '#c>div{height:20px}</style><div id="c" style="%s">' % ';'.join(st)]
    for it in c['items']:
        s = ['flex:%s %s %s' % (it['grow'], it['shrink'], it['basis'])]
        if it['w'] is not None:
            s.append('width:%dpx' % it['w'])
        if it['min'] is not None:
            s.append('min-width:%dpx' % it['min'])
        if it['max'] is not None:
            s.append('max-width:%dpx' % it['max'])
        s.append('margin-left:%s' % ('auto' if it['ml'] == 'auto' else '%dpx' % it['ml']))
        s.append('margin-right:%s' % ('auto' if it['mr'] == 'auto' else '%dpx' % it['mr']))
        s.append('border-left:%dpx solid;padding-right:%dpx' % (it['bp'], it['bp']))
        if it['order']:
            s.append('order:%d' % it['order'])
        out.append('<div id="i%d" style="%s">%s</div>' % (it['id'], ';'.join(s), it['text']))
    out.append('</div>')
    return ''.join(out)


def _mbox(r):
    """margin box (x0, x1, y0, y1) of an item record"""
    x1 = r['x'] + r['ml'] + r['bl'] + r['pl'] + r['w'] + r['pr'] + r['br'] + r['mr']
    y1 = r['y'] + r['mt'] + r['bt'] + r['pt'] + r['h'] + r['pb'] + r['bb'] + r['mb']
    return r['x'], x1, r['y'], y1


def _numeric(r):
    return all(isinstance(r[k], float) for k in ('x', 'y', 'w', 'h', 'ml', 'mr', 'mt', 'mb', 'pl', 'pr', 'pt', 'pb',
                                                  'bl', 'br', 'bt', 'bb'))


def judge_mon_wrap(c, o):
    """-> list of (clause, detail)"""
    bad = []
    box, recs = o['c'], o['items']
    if box is None or len(recs) != len(c['items']) or not _numeric(box) or not all(_numeric(r) for r in recs):
        return [('items-kept-numeric', 'container %s, %d of %d items' % (box is not None, len(recs), len(c['items'])))]
    cx0 = box['x'] + box['ml'] + box['bl'] + box['pl']
    cy0 = box['y'] + box['mt'] + box['bt'] + box['pt']
    W = box['w']
    if abs(W - c['W']) > EPS:
        bad.append(('container-main-size', (W, c['W'])))
    by = {int(r['id'][1:]): r for r in recs}
    # lines = groups of equal y (one cross size, align-items:flex-start, no vertical margins)
    ys = sorted({r['y'] for r in recs})
    lines = [[i for i in by if by[i]['y'] == y] for y in ys]
    if c['wrap'] == 'nowrap' and len(lines) != 1:
        bad.append(('nowrap-single-line', len(lines)))
    for ln in lines:
        ln.sort(key=lambda i: by[i]['x'])
        if c['reverse']:
            ln.reverse()
    if c['wrap'] == 'wrap-reverse':
        lines.reverse()
    # order-modified document order along the main axis, line after line
    flat = [i for ln in lines for i in ln]
    expect = sorted(by, key=lambda i: (c['items'][i]['order'], i))
    if flat != expect:
        bad.append(('order-modified-document-order', (flat, expect)))
    for ln in lines:
        boxes = [_mbox(by[i]) for i in ln]
        if c['reverse']:
            boxes.reverse()
        total = sum(b[1] - b[0] for b in boxes) + (len(boxes) - 1) * c['cgap']
        for a, b in zip(boxes, boxes[1:]):
            if b[0] - a[1] < c['cgap'] - EPS:
                bad.append(('items-separated-by-gap', (a[1], b[0], c['cgap'])))
        if total <= W + EPS:
            if boxes[0][0] < cx0 - EPS or boxes[-1][1] > cx0 + W + EPS:
                bad.append(('items-inside-container-main-axis', (boxes[0][0], boxes[-1][1], cx0, cx0 + W)))
        if len(ln) >= 2 and c['wrap'] != 'nowrap' and total > W + EPS:
            # a multi-item line of a wrapping container fits, unless its items could not shrink to fit: their
            # hypothetical sizes fitted (9.3), flexing never grows a line beyond the container (9.7)
            bad.append(('wrapped-line-fits', (total, W)))
        can_grow = any(c['items'][i]['grow'] > 0 and c['items'][i]['max'] is None for i in ln)
        if can_grow and abs(total - W) > EPS and total < W:
            bad.append(('line-with-growing-item-fills', (total, W)))
    # lines are stacked along the cross axis without overlap, separated by the row gap
    lys = sorted((min(_mbox(by[i])[2] for i in ln), max(_mbox(by[i])[3] for i in ln)) for ln in lines)
    for a, b in zip(lys, lys[1:]):
        if b[0] - a[1] < c['rgap'] - EPS:
            bad.append(('lines-separated-by-gap', (a, b, c['rgap'])))
    if lys and (lys[0][0] < cy0 - EPS or lys[-1][1] > cy0 + box['h'] + EPS):
        bad.append(('lines-inside-container', (lys, cy0, box['h'])))
    return bad


def gen_mon_cross(rng):
    """single-line row container: align-items / align-self / stretch along the cross axis"""
    n = rng.choice([1, 2, 3, 4])
    H = rng.choice([None, 60, 100, 150])
    items = []
    for i in range(n):
        items.append({'id': i, 'self': rng.choice(['auto', 'auto'] + ALIGN), 'h': rng.choice([None, None, 20, 40]),
                      'mt': rng.choice([0, 0, 4]), 'mb': rng.choice([0, 0, 6]), 'bp': rng.choice([0, 0, 2]),
                      'text': rng.choice(['', '', 'abc'])})
    return {'kind': 'cross', 'H': H, 'align': rng.choice(ALIGN), 'items': items,
            'reverse': rng.random() < 0.2}


def mon_cross_html(c):
    st = ['display:flex', 'width:300px', 'align-items:%s' % c['align'], 'margin:5px 0 0 11px',
          'flex-direction:%s' % ('row-reverse' if c['reverse'] else 'row')]
    if c['H'] is not None:
        st.append('height:%dpx' % c['H'])
    out = ['<style>@page{size:3000px 3000px;margin:0}body{margin:0;font-family:weasyprint;font-size:10px;line-height:10px}'
           '</style><div id="c" style="%s">' % ';'.join(st)]
    for it in c['items']:
        s = ['flex:none', 'width:30px', 'align-self:%s' % it['self'], 'margin-top:%dpx' % it['mt'],
             'margin-bottom:%dpx' % it['mb'], 'border-top:%dpx solid' % it['bp'], 'padding-bottom:%dpx' % it['bp']]
        if it['h'] is not None:
            s.append('height:%dpx' % it['h'])
        out.append('<div id="i%d" style="%s">%s</div>' % (it['id'], ';'.join(s), it['text']))
    out.append('</div>')
    return ''.join(out)


def judge_mon_cross(c, o):
    bad = []
    box, recs = o['c'], o['items']
    if box is None or len(recs) != len(c['items']) or not _numeric(box) or not all(_numeric(r) for r in recs):
        return [('items-kept-numeric', 'container %s, %d of %d items' % (box is not None, len(recs), len(c['items'])))]
    cy0 = box['y'] + box['mt'] + box['bt'] + box['pt']
    by = {int(r['id'][1:]): r for r in recs}
    boxes = {i: _mbox(by[i]) for i in by}
    # single line: its cross size is the container's definite height, else the largest outer cross size
    natural = max(b[3] - b[2] for b in boxes.values())
    L = box['h']
    if c['H'] is not None and abs(L - c['H']) > EPS:
        bad.append(('container-cross-size', (L, c['H'])))
    if c['H'] is None and abs(L - natural) > EPS:
        bad.append(('auto-cross-size-is-largest-item', (L, natural)))
    for it in c['items']:
        i = it['id']
        a = it['self'] if it['self'] != 'auto' else c['align']
        if a == 'normal':
            a = 'stretch'
        y0, y1 = boxes[i][2], boxes[i][3]
        if y0 < cy0 - EPS and y1 - y0 <= L + EPS:
            bad.append(('item-inside-line', (i, y0, cy0)))
        if a == 'flex-start' and abs(y0 - cy0) > EPS:
            bad.append(('align-flex-start', (i, y0, cy0)))
        if a == 'flex-end' and abs(y1 - (cy0 + L)) > EPS:
            bad.append(('align-flex-end', (i, y1, cy0 + L)))
        if a == 'center' and abs((y0 + y1) / 2 - (cy0 + L / 2)) > EPS:
            bad.append(('align-center', (i, (y0 + y1) / 2, cy0 + L / 2)))
        if a == 'stretch':
            if abs(y0 - cy0) > EPS:
                bad.append(('stretch-starts-at-line-start', (i, y0, cy0)))
            if it['h'] is None and abs((y1 - y0) - L) > EPS:
                bad.append(('stretch-fills-line', (i, y1 - y0, L)))
    return bad


MON = {'wrap': (gen_mon_wrap, mon_wrap_html, judge_mon_wrap), 'cross': (gen_mon_cross, mon_cross_html, judge_mon_cross)}


def stream_monitor(run, kind, name, cases, docs, outs):
    gen, html, judge = MON[kind]
    clauses, nbad = {}, 0
    for c, d, (st, o) in zip(cases, docs, outs):
        if st != 'ok':
            run.fail('render %s: %s' % (st, (o or {}).get('site') if o else None),
                     {'stream': name, 'case': c, 'html': d['html'], 'outcome': o},
                     signature='crash:%s' % ((o or {}).get('site'),) if st == 'exc' else 'timeout')
            continue
        bad = judge(c, o)
        for clause, detail in bad[:1]:
            clauses[clause] = clauses.get(clause, 0) + 1
            nbad += 1
            if nbad <= 3:
                run.fail('monitor clause %s fails: %s' % (clause, detail),
                         {'stream': name, 'case': c, 'html': d['html'], 'clause': clause, 'detail': detail},
                         signature='%smon:%s' % ('grid' if kind == 'grid' else 'flex', clause))
    feats = [(len(c['items']), c.get('wrap'), c.get('reverse'), c.get('kw'), c.get('align'), c.get('H'), c.get('R'), c.get('C'),
              tuple(c.get('cols', ()))) for c in cases]
    run.count(name, len(cases), feats, samples=[docs[0]['html'][:800]])
    run.stream_info(name, judged_in='python', failing_clauses=clauses,
                    rule={'wrap': 'row containers with wrap/wrap-reverse/nowrap, reverse, text and empty items, auto margins, '
                                  'order; clauses: order-modified document order, gaps, containment, wrapped line fits, '
                                  'growing line fills, line stacking',
                          'cross': 'single-line row containers, align-items x align-self x auto/definite cross sizes; clauses: '
                                   'flex-start/flex-end/center/stretch placement, stretch fills the line',
                          'grid': 'grids 1..4 x 2..4 with named template areas (guillotine partitions, in 60% of the cases some '
                                  'areas replaced by null cells spelled ./../.../.... with one or two spaces between cells; '
                                  '40% with px tracks only: the item rectangle must then be the one the template text gives), '
                                  'items placed by '
                                  'grid-area or by the implicit <area>-start/-end line names, tracks px / fr / minmax(px, fr) / '
                                  'repeat(), gaps; clauses: disjoint areas do not overlap, shared grid lines give shared '
                                  'edges (stretch fills the area), adjacent areas one gap apart, fr tracks partition the '
                                  'container'}[kind])


# ------------------------------------------------------------------------------------------ grid-template-areas text
# css-grid 7.3: each <string> of grid-template-areas is tokenised into: a sequence of name code points = a named cell
# token; a sequence of ONE OR MORE "." = ONE null cell token; white space = nothing (it only separates tokens);
# anything else = a trash token (the declaration is invalid).  All rows must have the same number of cells (at least
# one) and every named area must be a single filled-in rectangle.  The validator is called directly (impl_c12.
# template_areas) on generated values in which null cells are written in every spelling (".", "..", "...." ; runs
# separated by white space = several null cells; leading / trailing / repeated white space; a null cell token directly
# against a name) and compared with this reference.

def areas_reference(rows_text):
    """rows_text: the texts of the strings.  Returns None (invalid) or the rows as lists of names / None."""
    rows = []
    for text in rows_text:
        row, i = [], 0
        while i < len(text):
            ch = text[i]
            if ch in ' \t\n\r\f':
                i += 1
            elif ch == '.':
                while i < len(text) and text[i] == '.':
                    i += 1
                row.append(None)
            elif ch.isalnum() or ch in '_-' or ord(ch) >= 0x80:
                j = i
                while j < len(text) and (text[j].isalnum() or text[j] in '_-' or ord(text[j]) >= 0x80):
                    j += 1
                row.append(text[i:j])
                i = j
            else:
                return None
        if not row:
            return None
        rows.append(row)
    if not rows or len(set(len(r) for r in rows)) != 1:
        return None
    cells = {}
    for y, r in enumerate(rows):
        for x, nm in enumerate(r):
            if nm is not None:
                cells.setdefault(nm, set()).add((x, y))
    for nm, cs in cells.items():
        xs, ys = [x for x, _ in cs], [y for _, y in cs]
        if len(cs) != (max(xs) - min(xs) + 1) * (max(ys) - min(ys) + 1):
            return None
    return rows


def spell_row(rng, cells):
    """one <string> for a row of cells (names / None): random spelling of the null cells and of the white space"""
    out = [rng.choice(['', '', ' ', '  '])]
    prev = 'start'
    for cell in cells:
        kind = 'dot' if cell is None else 'name'
        if prev == 'start':
            sep = ''
        elif prev == kind or rng.random() < 0.8:
            sep = rng.choice([' ', ' ', '  ', '   ', '\t'])     # two names, or two null cells, need white space
        else:
            sep = ''                                            # "a." / ".a": a null cell token against a name
        out.append(sep + ('.' * rng.choice([1, 1, 1, 2, 3, 4]) if cell is None else cell))
        prev = kind
    out.append(rng.choice(['', '', ' ', '  ']))
    return ''.join(out)


def gen_areas_text(rng):
    R, C = rng.randint(1, 3), rng.randint(1, 5)
    rects = []
    _guillotine(rng, 0, 0, R, C, rects)
    names = ['a', 'b', 'c', 'dd', 'e', 'head', 'g', 'h', 'i', 'j', 'k', 'l', 'm', 'n', 'o', 'p']
    grid = [[None] * C for _ in range(R)]
    pnull = rng.choice([0.2, 0.5, 0.8])
    for i, (r0, c0, r1, c1) in enumerate(rects):
        if rng.random() < pnull:
            continue
        for r in range(r0, r1):
            for k in range(c0, c1):
                grid[r][k] = names[i]
    twist = rng.random()
    if twist < 0.08 and R >= 2:
        grid[rng.randrange(R)].append(rng.choice([None, 'z']))                  # rows of different lengths
    elif twist < 0.16:
        r, k = rng.randrange(R), rng.randrange(C)
        grid[r][k] = rng.choice([None, 'a', 'q'])                               # maybe no longer rectangles
    rows = [spell_row(rng, row) for row in grid]
    q = rng.choice(['"', "'"])
    return {'rows': rows, 'value': rng.choice([' ', '\n', '  ']).join(q + r + q for r in rows)}


def stream_areas_text(run, rng, n, name):
    cases = [gen_areas_text(rng) for _ in range(n)]
    outs = common.run_impl('impl_c12', 'template_areas', [{'value': c['value']} for c in cases], limit=30)
    nbad, feats = 0, []
    for c, (st, o) in zip(cases, outs):
        ref = areas_reference(c['rows'])
        runs = sum(1 for r in c['rows'] for i in range(len(r)) if r[i] == '.' and (i == 0 or r[i - 1] != '.'))
        adjacent = any(a is None and b is None for row in (ref or []) for a, b in zip(row, row[1:]))
        feats.append((len(c['rows']), runs, adjacent, ref is None))
        if st != 'ok' or o != ref:
            nbad += 1
            if nbad <= 3:
                run.fail('grid-template-areas: the validator and css-grid 7.3 read the value differently',
                         {'stream': name, 'case': c, 'implementation': o if st == 'ok' else [st, o], 'css_grid': ref},
                         signature='grid:template-areas-tokens')
    run.count(name, len(cases), feats, samples=[cases[0]['value']])
    run.stream_info(name, judged_in='python', mismatches=nbad,
                    adjacent_null_cells=sum(1 for f in feats if f[2]), invalid=sum(1 for f in feats if f[3]),
                    rule='direct calls of css/validation/properties.py grid_template_areas on 1..3 strings of 1..5 cells '
                         '(guillotine partitions, areas turned into null cells with probability .2/.5/.8, 16% twisted '
                         'into unequal rows / non-rectangles), null cells spelled ./../.../.... and separated by white '
                         'space, compared with the css-grid 7.3 tokenisation (reference in harness/p_c12.py)')


# ------------------------------------------------------------------------------------------ grid monitor
# Named template areas / implicit area line names / repeat() / minmax(): relational clauses judged in Python
# (no model): items of disjoint areas do not overlap; items whose areas share a grid line share the edge
# (stretch fills the area); adjacent areas are one gap apart; with an fr track the tracks partition the container.

def _guillotine(rng, r0, c0, r1, c1, out, depth=0):
    """split the rectangle of cells [r0,r1) x [c0,c1) into named rectangular areas"""
    h, w = r1 - r0, c1 - c0
    if depth >= 3 or (h == 1 and w == 1) or rng.random() < 0.25:
        out.append((r0, c0, r1, c1))
        return
    if w > 1 and (h == 1 or rng.random() < 0.5):
        k = rng.randint(c0 + 1, c1 - 1)
        _guillotine(rng, r0, c0, r1, k, out, depth + 1)
        _guillotine(rng, r0, k, r1, c1, out, depth + 1)
    else:
        k = rng.randint(r0 + 1, r1 - 1)
        _guillotine(rng, r0, c0, k, c1, out, depth + 1)
        _guillotine(rng, k, c0, r1, c1, out, depth + 1)


def gen_mon_grid(rng):
    R, C = rng.randint(1, 4), rng.randint(2, 4)
    rects = []
    _guillotine(rng, 0, 0, R, C, rects)
    names = 'abcdefghijklmnop'
    areas = {names[i]: r for i, r in enumerate(rects)}
    # some areas become null cells (at least one area stays); each null cell is spelled as a run of 1..4 dots
    null_rng = random.Random(rng.getrandbits(32))
    if len(areas) > 1 and null_rng.random() < 0.6:
        for nm in list(areas)[1:] if null_rng.random() < 0.5 else list(areas)[:-1]:
            if null_rng.random() < 0.5:
                del areas[nm]
    dots = [[null_rng.choice([1, 1, 2, 3, 4]) for _ in range(C)] for _ in range(R)]
    seps = [[null_rng.choice([' ', ' ', '  ']) for _ in range(C)] for _ in range(R)]
    pxonly = null_rng.random() < 0.4

    def track(allow_fr=True):
        r = rng.random()
        if r < 0.45 or not allow_fr:
            return '%dpx' % rng.choice([20, 30, 50, 70])
        if r < 0.75:
            return '%dfr' % rng.choice([1, 1, 2, 3])
        return 'minmax(%dpx, %dfr)' % (rng.choice([10, 20, 40]), rng.choice([1, 2]))
    cols = [track() for _ in range(C)]
    if pxonly:
        cols = [t if t.endswith('px') and '(' not in t else '%dpx' % null_rng.choice([20, 30, 50, 70]) for t in cols]
    if C >= 2 and rng.random() < 0.3:
        cols = ['repeat(%d, %s)' % (C, cols[0])]
        colsx = [cols[0][cols[0].index(',') + 2:-1]] * C
    else:
        colsx = cols
    Hdef = rng.random() < 0.5
    rows = [track(allow_fr=Hdef) for _ in range(R)]
    if pxonly:
        rows = [t if t.endswith('px') and '(' not in t else '%dpx' % null_rng.choice([20, 30, 50, 70]) for t in rows]
    items = []
    for nm in areas:
        if rng.random() < 0.85:
            items.append({'area': nm, 'via': rng.choice(['area', 'area', 'lines'])})
    if not items:
        items.append({'area': sorted(areas)[0], 'via': 'area'})
    for _ in range(rng.choice([0, 0, 1, 2])):
        items.append({'area': None, 'via': 'auto', 'span': rng.choice([1, 1, 2])})   # auto-placed
    rng.shuffle(items)
    return {'kind': 'grid', 'R': R, 'C': C, 'areas': areas, 'cols': cols, 'colsx': colsx, 'rows': rows,
            'dots': dots, 'seps': seps,
            'W': rng.choice([300, 400, 500]), 'H': rng.choice([200, 300]) if Hdef else None,
            'cgap': rng.choice([0, 5, 10]), 'rgap': rng.choice([0, 4, 12]), 'items': items}


def mon_grid_html(c):
    grid = [['.'] * c['C'] for _ in range(c['R'])]
    for nm, (r0, c0, r1, c1) in c['areas'].items():
        for r in range(r0, r1):
            for k in range(c0, c1):
                grid[r][k] = nm
    dots, seps = c.get('dots'), c.get('seps')
    if dots:
        # null cells as runs of dots; white space (one or two spaces) between the cells
        grid = [[('.' * dots[r][k] if cell == '.' else cell) + (seps[r][k] if k + 1 < c['C'] else '')
                 for k, cell in enumerate(row)] for r, row in enumerate(grid)]
        tmpl = ' '.join("'%s'" % ''.join(row) for row in grid)
    else:
        tmpl = ' '.join("'%s'" % ' '.join(row) for row in grid)
    st = ['display:grid', 'width:%dpx' % c['W'], 'grid-template-areas:%s' % tmpl,
          'grid-template-columns:%s' % ' '.join(c['cols']), 'grid-template-rows:%s' % ' '.join(c['rows']),
          'column-gap:%dpx' % c['cgap'], 'row-gap:%dpx' % c['rgap'], 'margin:5px 0 0 11px',
          'grid-auto-rows:25px', 'grid-auto-columns:25px']
    if c['H'] is not None:
        st.append('height:%dpx' % c['H'])
    out = ['<style>@page{size:3000px 3000px;margin:0}body{margin:0}</style><div id="c" style="%s">' % ';'.join(st)]
    for i, it in enumerate(c['items']):
        nm = it['area']
        if it['via'] == 'auto':
            s = 'grid-column:span %d' % it['span']
        elif it['via'] == 'area':
            s = 'grid-area:%s' % nm
        else:
            s = 'grid-column:%s-start / %s-end;grid-row:%s-start / %s-end' % (nm, nm, nm, nm)
        out.append('<div id="i%d" style="%s"></div>' % (i, s))
    out.append('</div>')
    return ''.join(out)


def _track_min(t):
    t = t.replace('minmax(', '')
    return int(t[:t.index('px')]) if 'px' in t else 0


def judge_mon_grid(c, o):
    bad = []
    box, recs = o['c'], o['items']
    if box is None or len(recs) != len(c['items']) or not _numeric(box) or not all(_numeric(r) for r in recs):
        return [('items-kept-numeric', 'container %s, %d of %d items' % (box is not None, len(recs), len(c['items'])))]
    cx0 = box['x'] + box['ml'] + box['bl'] + box['pl']
    cy0 = box['y'] + box['mt'] + box['bt'] + box['pt']
    by = {int(r['id'][1:]): r for r in recs}
    rect = {i: (by[i]['x'], by[i]['y'], by[i]['x'] + by[i]['w'], by[i]['y'] + by[i]['h']) for i in by}
    ar = {i: c['areas'][it['area']] for i, it in enumerate(c['items']) if it['area'] is not None}
    fits_w = sum(_track_min(t) for t in c['colsx']) + (c['C'] - 1) * c['cgap'] <= c['W']
    fits_h = c['H'] is not None and sum(_track_min(t) for t in c['rows']) + (c['R'] - 1) * c['rgap'] <= c['H']
    fr_col = fits_w and any('fr' in t for t in c['colsx'])
    # auto-placed items may open implicit rows after the template: then the template rows do not fill the height
    fr_row = (fits_h and any('fr' in t for t in c['rows']) and
              all(it['area'] is not None for it in c['items']))
    px_cols = [int(t[:-2]) for t in c['colsx']] if all(t.endswith('px') and '(' not in t for t in c['colsx']) else None
    px_rows = [int(t[:-2]) for t in c['rows']] if all(t.endswith('px') and '(' not in t for t in c['rows']) else None
    for i in ar:
        x0, y0, x1, y1 = rect[i]
        r0, c0, r1, c1 = ar[i]
        # the item stretches over its area: with px tracks the rectangle follows from the template text alone
        if px_cols is not None:
            ex0 = cx0 + sum(px_cols[:c0]) + c0 * c['cgap']
            ex1 = ex0 + sum(px_cols[c0:c1]) + (c1 - c0 - 1) * c['cgap']
            if abs(x0 - ex0) > EPS or abs(x1 - ex1) > EPS:
                bad.append(('area-columns-from-template', (i, c['items'][i]['area'], (x0, x1), (ex0, ex1))))
        if px_rows is not None:
            ey0 = cy0 + sum(px_rows[:r0]) + r0 * c['rgap']
            if abs(y0 - ey0) > EPS:
                bad.append(('area-row-from-template', (i, c['items'][i]['area'], y0, ey0)))
        if x1 < x0 - EPS or y1 < y0 - EPS:
            bad.append(('non-negative-size', (i, rect[i])))
        if c0 == 0 and abs(x0 - cx0) > EPS:
            bad.append(('first-column-at-content-edge', (i, x0, cx0)))
        if r0 == 0 and abs(y0 - cy0) > EPS:
            bad.append(('first-row-at-content-edge', (i, y0, cy0)))
        if fr_col and c1 == c['C'] and abs(x1 - (cx0 + box['w'])) > EPS:
            bad.append(('columns-partition-container', (i, x1, cx0 + box['w'])))
        if fr_row and r1 == c['R'] and abs(y1 - (cy0 + box['h'])) > EPS:
            bad.append(('rows-partition-container', (i, y1, cy0 + box['h'])))
        if fr_col and (x0 < cx0 - EPS or x1 > cx0 + box['w'] + EPS):
            bad.append(('item-inside-container', (i, rect[i])))
    ids = sorted(rect)
    for a in ids:
        for b in ids:
            if a >= b:
                continue
            ra, rb = rect[a], rect[b]
            if a not in ar or b not in ar:
                # an auto-placed item fills free cells: it overlaps no placed or auto-placed item
                if min(ra[2], rb[2]) - max(ra[0], rb[0]) > EPS and min(ra[3], rb[3]) - max(ra[1], rb[1]) > EPS:
                    bad.append(('auto-placed-item-overlaps', (a, b, ra, rb)))
                continue
            A, B = ar[a], ar[b]
            same = c['items'][a]['area'] == c['items'][b]['area']
            if same:
                if max(abs(p - q) for p, q in zip(ra, rb)) > EPS:
                    bad.append(('same-area-same-rectangle', (a, b, ra, rb)))
                continue
            # areas of a template are disjoint: the item rectangles must be
            if min(ra[2], rb[2]) - max(ra[0], rb[0]) > EPS and min(ra[3], rb[3]) - max(ra[1], rb[1]) > EPS:
                bad.append(('areas-do-not-overlap', (a, b, ra, rb)))
            if A[1] == B[1] and abs(ra[0] - rb[0]) > EPS:
                bad.append(('shared-column-start-line', (a, b, ra[0], rb[0])))
            if A[3] == B[3] and abs(ra[2] - rb[2]) > EPS:
                bad.append(('shared-column-end-line(stretch fills)', (a, b, ra[2], rb[2])))
            if A[0] == B[0] and abs(ra[1] - rb[1]) > EPS:
                bad.append(('shared-row-start-line', (a, b, ra[1], rb[1])))
            if A[2] == B[2] and abs(ra[3] - rb[3]) > EPS:
                bad.append(('shared-row-end-line(stretch fills)', (a, b, ra[3], rb[3])))
            if A[3] == B[1] and abs((rb[0] - ra[2]) - c['cgap']) > EPS:
                bad.append(('adjacent-columns-one-gap-apart', (a, b, ra[2], rb[0], c['cgap'])))
            if B[3] == A[1] and abs((ra[0] - rb[2]) - c['cgap']) > EPS:
                bad.append(('adjacent-columns-one-gap-apart', (b, a, rb[2], ra[0], c['cgap'])))
            if A[2] == B[0] and abs((rb[1] - ra[3]) - c['rgap']) > EPS:
                bad.append(('adjacent-rows-one-gap-apart', (a, b, ra[3], rb[1], c['rgap'])))
            if B[2] == A[0] and abs((ra[1] - rb[3]) - c['rgap']) > EPS:
                bad.append(('adjacent-rows-one-gap-apart', (b, a, rb[3], ra[1], c['rgap'])))
    return bad


MON['grid'] = (gen_mon_grid, mon_grid_html, judge_mon_grid)


# ------------------------------------------------------------------------------------------ flex over pages
# Column and wrapping-row flex containers that continue over 3 or more pages (items made of text lines):
# conservation and order rules judged in Python.

def gen_pages(rng):
    col = rng.random() < 0.6
    n = rng.randint(4, 9)
    items = []
    for i in range(n):
        items.append({'id': i, 'lines': rng.choice([1, 2, 3, 3, 4, 5, 7]),
                      'order': rng.choice([0, 0, 0, 1, -1]) if rng.random() < 0.3 else 0,
                      'w': rng.choice([60, 80, 90, 100, 120]), 'pad': rng.choice([0, 0, 0, 2])})
    total = sum(it['lines'] for it in items) * 10
    # page height: at least 3 pages, and every page can hold a few lines
    ph = rng.choice([40, 50, 60, 80])
    while not col and ph * 2 > total / 1.5 and ph > 40:
        ph -= 10
    return {'kind': 'pages', 'col': col, 'items': items, 'ph': ph, 'gap': rng.choice([0, 0, 5, 10]),
            'before': rng.choice([0, 0, 1, 3, ph // 10]), 'reverse': False}


def pages_html(c):
    st = ['display:flex', 'row-gap:%dpx' % c['gap'], 'column-gap:0', 'align-items:flex-start']
    st += ['flex-direction:column'] if c['col'] else ['flex-wrap:wrap']
    out = ['<style>@page{size:200px %dpx;margin:0}body{margin:0;font-family:weasyprint;font-size:10px;line-height:10px}'
           '</style>' % c['ph']]
    out.append(''.join('<p style="margin:0">x%d</p>' % k for k in range(c['before'])))
    out.append('<div id="c" style="%s">' % ';'.join(st))
    for it in c['items']:
        s = ['flex:none', 'padding-left:%dpx' % it['pad']]
        if not c['col']:
            s.append('width:%dpx' % it['w'])
        if it['order']:
            s.append('order:%d' % it['order'])
        body = '<br>'.join('%s%d' % ('abcdefgh'[it['id'] % 8], k) for k in range(it['lines']))
        out.append('<div id="i%d" style="%s">%s</div>' % (it['id'], ';'.join(s), body))
    out.append('</div>')
    return ''.join(out)


def judge_pages(c, pages):
    bad = []
    expect = sorted(range(len(c['items'])), key=lambda i: (c['items'][i]['order'], i))
    rank = {i: k for k, i in enumerate(expect)}
    seen = {i: [] for i in rank}
    seq = []
    frag_pages = [p for p in pages if p['c'] is not None]
    if len(pages) > 60:
        bad.append(('page-count-bounded', len(pages)))
    for pi, p in enumerate(pages):
        if p['c'] is None:
            continue
        ids = [int(r['id'][1:]) for r in p['items']]
        for r in p['items']:
            i = int(r['id'][1:])
            seq.append(i)
            for text, y, h in r['lines']:
                seen[i].append(text)
                if isinstance(y, float) and isinstance(h, float) and y + h > p['page_h'] + EPS and len(r['lines']) > 1:
                    bad.append(('line-inside-page', (pi, i, text, y + h, p['page_h'])))
        # order-modified document order on the page
        if [rank[i] for i in ids] != sorted(rank[i] for i in ids):
            bad.append(('order-on-page', (pi, ids)))
        if c['col']:
            # column: the items of a page are stacked along the main axis, a gap apart at least
            prev = None
            for r in p['items']:
                if r['lines'] and prev is not None and prev['lines']:
                    bottom = max(y + h for _, y, h in prev['lines'])
                    top = min(y for _, y, _ in r['lines'])
                    if top < bottom + c['gap'] - EPS:
                        bad.append(('items-stacked-with-gap', (pi, prev['id'], r['id'], bottom, top)))
                prev = r
    # every line of every item exactly once, in order (conservation over the pages)
    for i, it in enumerate(c['items']):
        want = ['%s%d' % ('abcdefgh'[i % 8], k) for k in range(it['lines'])]
        if seen[i] != want:
            bad.append(('lines-conserved-in-order', (i, seen[i], want)))
    # across pages the items come in order (an item split between pages appears on consecutive pages)
    ranks = [rank[i] for i in seq]
    if ranks != sorted(ranks):
        bad.append(('order-across-pages', seq))
    return bad


def stream_pages(run, rng, n, name):
    cases = [gen_pages(rng) for _ in range(n)]
    docs = [{'html': pages_html(c)} for c in cases]
    outs = common.run_impl('impl_c12', 'render_flex_pages', docs, limit=60)
    clauses, nbad, npages = {}, 0, []
    for c, d, (st, o) in zip(cases, docs, outs):
        if st != 'ok':
            run.fail('flex over pages: render %s: %s' % (st, (o or {}).get('site') if o else None),
                     {'stream': name, 'case': c, 'html': d['html'], 'outcome': o},
                     signature='crash:%s' % ((o or {}).get('site'),) if st == 'exc' else 'timeout')
            continue
        npages.append(sum(1 for p in o if p['c'] is not None))
        bad = judge_pages(c, o)
        for clause, detail in bad[:1]:
            clauses[clause] = clauses.get(clause, 0) + 1
            nbad += 1
            if nbad <= 3:
                run.fail('flex over pages: clause %s fails: %s' % (clause, detail),
                         {'stream': name, 'case': c, 'html': d['html'], 'clause': clause, 'detail': detail},
                         signature='flexpages:%s' % clause)
    run.count(name, len(cases), [(c['col'], len(c['items']), c['ph'], c['gap'], c['before'], k)
                                 for c, k in zip(cases, npages)], samples=[docs[0]['html'][:800]])
    run.stream_info(name, judged_in='python', failing_clauses=clauses,
                    pages_histogram={k: npages.count(k) for k in sorted(set(npages))},
                    three_or_more_pages=sum(1 for k in npages if k >= 3),
                    rule='column / wrapping row flex containers of 4..9 text items (1..7 lines each) on pages of 40..80px: '
                         'every line of every item exactly once and in order over the pages, order-modified document order '
                         'on each page and across pages, column items stacked a gap apart, lines inside the page')


# ------------------------------------------------------------------------------------------ laid out twice
# Metamorphic monitor: a flex / grid container pushed to the next page by break-inside: avoid is laid out twice;
# its items must get the geometry (relative to the container) they get when the container is laid out once.

def gen_twice(rng):
    kind = rng.choice(['flex', 'grid'])
    n = rng.randint(2, 6)
    items = [{'text': 'abcdefgh'[:rng.randint(1, 8)] if rng.random() < 0.8 else '', 'lines': rng.choice([1, 1, 2, 3]),
              'w': rng.choice([None, 60, 90, 120]), 'self': rng.choice(['auto', 'auto', 'stretch', 'flex-start', 'center'])}
             for _ in range(n)]
    return {'kind': 'twice', 'what': kind, 'items': items, 'H': rng.choice([None, 80, 100, 120]),
            'W': rng.choice([100, 150, 200]), 'cols': rng.choice(['auto auto', 'auto 1fr', 'auto auto auto', '1fr auto']),
            'gap': rng.choice([0, 5])}


def twice_html(c, twice):
    if c['what'] == 'flex':
        st = ['display:flex', 'flex-wrap:wrap', 'width:%dpx' % c['W'], 'gap:%dpx' % c['gap']]
    else:
        st = ['display:grid', 'grid-template-columns:%s' % c['cols'], 'width:%dpx' % c['W'], 'gap:%dpx' % c['gap']]
    if c['H'] is not None:
        st.append('height:%dpx' % c['H'])
    out = ['<style>@page{size:400px 300px;margin:0}body{margin:0;font-family:weasyprint;font-size:10px;line-height:10px}'
           '</style>']
    if twice:
        # the wrapper avoids breaks: when the container does not fit after the filler the wrapper is given up and
        # laid out again on the next page (grid containers themselves ignore break-inside: avoid - reported)
        out.append('<div style="height:280px"></div><div style="break-inside:avoid">')
    out.append('<div id="c" style="%s">' % ';'.join(st))
    for i, it in enumerate(c['items']):
        s = ['align-self:%s' % it['self']]
        if it['w'] is not None and c['what'] == 'flex':
            s.append('width:%dpx' % it['w'])
        body = '<br>'.join([it['text']] * it['lines']) if it['text'] else ''
        out.append('<div id="i%d" style="%s">%s</div>' % (i, ';'.join(s), body))
    out.append('</div>' + ('</div>' if twice else ''))
    return ''.join(out)


def judge_twice(c, once, twice):
    for o in (once, twice):
        if o['c'] is None or len(o['items']) != len(c['items']) or not _numeric(o['c']) or \
                not all(_numeric(r) for r in o['items']):
            return [('items-kept-numeric', None)]
    if twice['pages'] < 2:
        return []          # the container fitted after the filler: laid out once, nothing to compare
    bad = []
    for a, b in zip(once['items'], twice['items']):
        ra = (a['x'] - once['c']['x'], a['y'] - once['c']['y'], a['w'], a['h'])
        rb = (b['x'] - twice['c']['x'], b['y'] - twice['c']['y'], b['w'], b['h'])
        if a['id'] != b['id'] or max(abs(p - q) for p, q in zip(ra, rb)) > EPS:
            bad.append(('same-layout-when-laid-out-twice', (a['id'], ra, rb)))
    if abs(once['c']['h'] - twice['c']['h']) > EPS or abs(once['c']['w'] - twice['c']['w']) > EPS:
        bad.append(('same-container-size-when-laid-out-twice', (once['c']['h'], twice['c']['h'])))
    return bad


def stream_twice(run, rng, n, name):
    cases = [gen_twice(rng) for _ in range(n)]
    docs = [{'html': twice_html(c, t)} for c in cases for t in (False, True)]
    outs = common.run_impl('impl_c12', 'render_container', docs, limit=60)
    clauses, nbad, compared = {}, 0, 0
    for k, c in enumerate(cases):
        (s1, o1), (s2, o2) = outs[2 * k], outs[2 * k + 1]
        html = docs[2 * k + 1]['html']
        if s1 != 'ok' or s2 != 'ok':
            o = o1 if s1 != 'ok' else o2
            run.fail('laid out twice: render %s' % (s1 if s1 != 'ok' else s2), {'stream': name, 'case': c, 'html': html, 'outcome': o},
                     signature='crash:%s' % ((o or {}).get('site'),) if 'exc' in (s1, s2) else 'timeout')
            continue
        compared += o2['pages'] >= 2
        for clause, detail in judge_twice(c, o1, o2)[:1]:
            clauses[clause] = clauses.get(clause, 0) + 1
            nbad += 1
            if nbad <= 3:
                run.fail('laid out twice: clause %s fails: %s' % (clause, detail),
                         {'stream': name, 'case': c, 'html': html, 'clause': clause, 'detail': detail},
                         signature='twice:%s' % clause)
    run.count(name, len(cases), [(c['what'], len(c['items']), c['H'], c['W'], c['cols']) for c in cases],
              samples=[docs[1]['html'][:800]])
    run.stream_info(name, judged_in='python', failing_clauses=clauses, compared_pairs=compared,
                    rule='wrapping flex containers / grids with auto and fr columns, text items, align-self variety; rendered '
                         'alone and after a filler with break-inside: avoid (second layout on the next page): item rectangles '
                         'relative to the container and the container size must be equal')


# ------------------------------------------------------------------------------------------ fixed witnesses
# Minimal inputs of repaired findings that the random grammars do not produce (checked on every run).
WITNESSES = [
    ('F86-flex-inline-table-item',
     '<div id="c" style="display:flex;width:200px"><table id="i0" style="display:inline-table"><tr><td>ab</td></tr></table>'
     '<div id="i1" style="width:30px;height:10px"></div></div>', 2, 1),
    ('F86-grid-inline-table-item',
     '<div id="c" style="display:grid;width:200px"><table id="i0" style="display:inline-table"><tr><td>ab</td></tr></table>'
     '</div>', 1, 1),
    ('F169-flex-first-item-does-not-fit',
     '<style>@page{size:50px 10px;margin:1px}</style><table><tfoot></tfoot><tr><td>'
     '<div id="c" style="display:flex;height:1px"><div id="i0">a</div></div></td></tr></table>', 1, 4),
]
WITNESS_STYLE = ('<style>body{margin:0;font-family:weasyprint;font-size:10px;line-height:10px}</style>')


def stream_witnesses(run, name):
    docs = [{'html': WITNESS_STYLE + html} for _, html, _, _ in WITNESSES]
    outs = common.run_impl('impl_c12', 'render_container', docs, limit=30)
    for (wid, html, nitems, maxpages), d, (st, o) in zip(WITNESSES, docs, outs):
        ok = st == 'ok' and o['c'] is not None and len(o['items']) == nitems and o['pages'] <= maxpages
        if not ok:
            run.fail('witness %s: %s' % (wid, st if st != 'ok' else 'pages=%s items=%s' % (o['pages'], len(o['items']))),
                     {'stream': name, 'witness': wid, 'html': d['html'], 'outcome': o if st != 'ok' else None},
                     signature='witness:%s' % wid)
    run.count(name, len(WITNESSES), [w[0] for w in WITNESSES], samples=[WITNESSES[0][1][:300]])
    run.stream_info(name, rule='minimal inputs of repaired findings outside the random grammars: renders without exception / '
                               'timeout, the container keeps its items, bounded number of pages')
