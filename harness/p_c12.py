"""C12 - flex and grid containers distribute space and place items as specified."""
import random, math, json
from fractions import Fraction
import common
from common import qlit


def zlit(n):
    return '(%d)%%Z' % n

PRE = ('From Coq Require Import QArith List ZArith Bool.\n'
       'Require Import WV.model.C12Flex WV.model.C12FlexLines WV.model.C12FlexSpec.\n'
       'Import ListNotations.\nOpen Scope Q_scope.\n')

KW = ['normal', 'flex-start', 'flex-end', 'start', 'end', 'left', 'right', 'center', 'space-between',
      'space-around', 'space-evenly', 'stretch']
KWC = ['KNormal', 'KFlexStart', 'KFlexEnd', 'KStart', 'KEnd', 'KLeft', 'KRight', 'KCenter', 'KBetween',
       'KAround', 'KEvenly', 'KStretch']
WRAP = ['nowrap', 'wrap', 'wrap-reverse']

# residual deviations of the implementation from css-flexbox / css-align, by trigger region (reported)
SIG_COLLR = 'flex:justify-left-right-column'          # open known finding (e)
SIG_STRETCH_REV = 'flex:justify-stretch-reverse'      # stretch must behave as flex-start, also under *-reverse
SIG_FALLBACK_REV = 'flex:fallback-flex-start-reverse'  # space-between fallback is flex-start = main-start side


def fnum(x):
    """number -> css text (ints and dyadic fractions print exactly)"""
    x = Fraction(x)
    if x.denominator == 1:
        return str(x.numerator)
    return repr(float(x))


def optq(x):
    return 'None' if x is None else '(Some %s)' % qlit(x)


# ------------------------------------------------------------------------------------------ flex rows

def gen_row(rng, profile):
    """A flex row container with fixed-size, text-free items.  profile: 'plain' (no trigger of a known
    deviation), 'wide' (everything)."""
    wide = profile == 'wide'
    n = rng.choice([1, 2, 2, 3, 3, 3, 4, 5, 6, 8])
    W = rng.choice([100, 200, 300, 300, 400, 500, rng.randint(50, 600)])
    gap = rng.choice([0, 0, 4, 10, 16, 20])
    wrap = rng.choice([0, 0, 0, 1, 1, 2])
    reverse = rng.random() < 0.25
    kw = rng.choice(['normal', 'flex-start'] + KW)
    if not wide and reverse and kw in ('stretch', 'space-between'):
        kw = 'flex-start'
    frac = wide and rng.random() < 0.3
    items = []
    style = rng.choice(['flexy', 'flexy', 'rigid', 'mixed', 'shrinky'])
    for i in range(n):
        it = {'id': i}
        it['order'] = rng.choice([0, 0, 0, 0, 1, -1, 2]) if rng.random() < 0.4 else 0
        base = rng.choice([0, 10, 20, 40, 50, 80, 100, 150, 200, rng.randint(0, 250)])
        if style == 'shrinky':
            base = rng.choice([100, 150, 200, 300, rng.randint(60, 400)])
        r = rng.random()
        if r < 0.6:
            it['basis'] = ('px', base)
        elif r < 0.85:
            it['basis'] = ('width', base)
        else:
            p = rng.choice([10, 25, 50, 75])
            it['basis'] = ('pct', p)
        gs = [0, 1, 1, 2, 3] + ([Fraction(1, 2), Fraction(1, 4)] if frac else [])
        if style == 'rigid':
            it['grow'], it['shrink'] = 0, rng.choice([0, 0, 1])
        else:
            it['grow'], it['shrink'] = rng.choice(gs), rng.choice(gs[1:] + [0] if style != 'mixed' else gs)
        it['min'] = rng.choice([None, None, None, 0, 20, 50, 120, rng.randint(0, 150)])
        it['max'] = rng.choice([None, None, None, 30, 60, 100, 250, rng.randint(10, 300)])
        for side in ('ml', 'mr'):
            r = rng.random()
            it[side] = 0 if r < 0.6 else ('auto' if r < 0.7 else rng.choice([5, 10, 3, -5] if wide else [5, 10, 3]))
        it['bl'], it['br'] = rng.choice([0, 0, 0, 1, 3]), rng.choice([0, 0, 0, 2])
        it['pl'] = it['pr'] = 0
        if wide and rng.random() < 0.15:
            it['pl'], it['pr'] = rng.choice([0, 4, 10]), rng.choice([0, 6])
        items.append(it)
    return {'W': W, 'gap': gap, 'wrap': wrap, 'reverse': reverse, 'kw': kw, 'items': items,
            'ox': [rng.choice([0, 7]), rng.choice([0, 2]), rng.choice([0, 3])]}


def row_html(c):
    ml, bl, pl = c['ox']
    st = ['display:flex', 'width:%dpx' % c['W'], 'column-gap:%dpx' % c['gap'], 'row-gap:0',
          'flex-direction:%s' % ('row-reverse' if c['reverse'] else 'row'), 'flex-wrap:%s' % WRAP[c['wrap']],
          'justify-content:%s' % c['kw'], 'align-items:flex-start', 'margin-left:%dpx' % ml,
          'border-left:%dpx solid' % bl, 'padding-left:%dpx' % pl]
    out = ['<style>@page{size:2000px 2000px;margin:0}body{margin:0}#c>div{height:10px}</style>',
           '<div id="c" style="%s">' % ';'.join(st)]
    for it in c['items']:
        s = ['flex-grow:%s' % fnum(it['grow']), 'flex-shrink:%s' % fnum(it['shrink'])]
        kind, v = it['basis']
        if kind == 'px':
            s.append('flex-basis:%spx' % fnum(v))
        elif kind == 'pct':
            s.append('flex-basis:%s%%' % fnum(v))
        else:
            s.append('flex-basis:auto;width:%spx' % fnum(v))
        if it['min'] is not None:
            s.append('min-width:%spx' % fnum(it['min']))
        if it['max'] is not None:
            s.append('max-width:%spx' % fnum(it['max']))
        s.append('margin-left:%s' % ('auto' if it['ml'] == 'auto' else '%spx' % fnum(it['ml'])))
        s.append('margin-right:%s' % ('auto' if it['mr'] == 'auto' else '%spx' % fnum(it['mr'])))
        s.append('border-left:%dpx solid' % it['bl'])
        s.append('border-right:%dpx solid' % it['br'])
        s.append('padding-left:%dpx' % it['pl'])
        s.append('padding-right:%dpx' % it['pr'])
        if it['order']:
            s.append('order:%d' % it['order'])
        out.append('<div id="i%d" style="%s"></div>' % (it['id'], ';'.join(s)))
    out.append('</div>')
    return ''.join(out)


def row_base(c, it):
    kind, v = it['basis']
    return Fraction(v) * c['W'] / 100 if kind == 'pct' else Fraction(v)


def coq_ritem(c, it):
    return ('(mkR %s %s %s %s %s %s %s %s %s %s %s)' % (
        zlit(it['id']), zlit(it['order']), qlit(row_base(c, it)), qlit(it['min'] or 0), optq(it['max']),
        qlit(it['grow']), qlit(it['shrink']), qlit(it['pl'] + it['pr']), qlit(it['bl'] + it['br']),
        optq(None if it['ml'] == 'auto' else it['ml']), optq(None if it['mr'] == 'auto' else it['mr'])))


def row_impl_out(c, o):
    """impl records -> [(id, line index, x, w)] or None when the output is unusable"""
    recs = o['items']
    if o['c'] is None or len(recs) != len(c['items']):
        return None
    ys = sorted({r['y'] for r in recs if isinstance(r['y'], float)})
    out = []
    for r in recs:
        if not all(isinstance(r[k], float) for k in ('x', 'y', 'w')):
            return None
        out.append((int(r['id'][1:]), ys.index(r['y']), Fraction(r['x']), Fraction(r['w'])))
    return out


def coq_row_case(c, out):
    outs = '; '.join('(%s, %s, %s, %s)' % (zlit(i), zlit(l), qlit(x), qlit(w)) for i, l, x, w in out)
    return '(%d%%nat, %s, %s, (%s, %s, %s), [%s], [%s])' % (
        c['wrap'], 'true' if c['reverse'] else 'false', KWC[KW.index(c['kw'])], qlit(sum(c['ox'])), qlit(c['W']),
        qlit(c['gap']), '; '.join(coq_ritem(c, it) for it in c['items']), outs)


def row_triggers(c, mask):
    """which reported deviation region (if any) a css-reference disagreement falls in"""
    if c['reverse'] and c['kw'] == 'stretch':
        return SIG_STRETCH_REV
    if c['reverse'] and c['kw'] == 'space-between' and mask & 4:
        return SIG_FALLBACK_REV
    return None


def row_features(c):
    its = c['items']
    return (len(its), c['wrap'], c['reverse'], c['kw'], c['gap'] > 0,
            any(it['ml'] == 'auto' or it['mr'] == 'auto' for it in its),
            any(it['min'] is not None for it in its), any(it['max'] is not None for it in its),
            any(it['order'] for it in its), sum(1 for it in its if it['grow']), sum(1 for it in its if it['shrink']))


def report_known(run, sig, what, data):
    """Deviations already analysed (listed in the report): they count as failing inputs only when the
    signature is registered as an open finding; otherwise they are recorded in the evidence."""
    if any(k.get('signature') == sig for k in run.known):
        run.fail(what, data, signature=sig)
    else:
        d = run.cov['streams'].setdefault('known-deviations', {'cases': 0, 'by_signature': {}, 'witness': {}})
        d['by_signature'][sig] = d['by_signature'].get(sig, 0) + 1
        d['witness'].setdefault(sig, data.get('html', '')[:1500])


def stream_rows(run, rng, n, profile, name):
    cases = [gen_row(rng, profile) for _ in range(n)]
    docs = [{'html': row_html(c)} for c in cases]
    outs = common.run_impl('impl_c12', 'render_container', docs, limit=60)
    coq_cases, kept = [], []
    for c, d, (st, o) in zip(cases, docs, outs):
        if st != 'ok':
            run.fail('flex render %s: %s' % (st, (o or {}).get('site') if o else None),
                     {'stream': name, 'case': c, 'html': d['html'], 'outcome': o},
                     signature='crash:%s' % ((o or {}).get('site'),) if st == 'exc' else 'timeout')
            continue
        out = row_impl_out(c, o)
        if out is None:
            run.fail('flex render lost items or produced non-numeric geometry',
                     {'stream': name, 'case': c, 'html': d['html'], 'impl': o}, signature='flex:unusable-output')
            continue
        coq_cases.append(coq_row_case(c, out))
        kept.append((c, d, out))
    try:
        masks = common.eval_cases('c12' + name.replace('-', ''), PRE, 'row_case', coq_cases, 'row_judge', per_file=60)
    except RuntimeError as exc:
        run.oblige('corr:%s' % name, False, str(exc))
        return
    mism = [(c, d['html'], [(i, l, float(x), float(w)) for i, l, x, w in out])
            for (c, d, out), m in zip(kept, masks) if m & 1]
    run.oblige('corr:%s(model row_code vs rendered item boxes)' % name, not mism, 'first disagreements: %s' % mism[:2])
    nspec = 0
    for (c, d, out), m in zip(kept, masks):
        if m & 2:
            sig = row_triggers(c, m)
            data = {'stream': name, 'case': c, 'html': d['html'],
                    'impl': [(i, l, float(x), float(w)) for i, l, x, w in out]}
            if sig is None:
                nspec += 1
                if nspec <= 3:
                    run.fail('flex row differs from the css-flexbox reference (9.3/9.7/9.5)', data)
            else:
                report_known(run, sig, 'flex row differs from the css-flexbox reference: ' + sig, data)
    run.count(name, len(kept), [row_features(c) for c, _, _ in kept],
              samples=[{'html': kept[0][1]['html'], 'impl': [(i, l, float(x), float(w)) for i, l, x, w in kept[0][2]]}]
              if kept else [])
    run.stream_info(name, rule='single/multi-line row containers, 1..8 fixed-size text-free items; flex-basis px/%%/auto+width, '
                    'grow/shrink/min/max/margins(auto)/borders/order from small sets, gaps 0..20, all justify-content keywords; '
                    'profile=%s; distinct = feature tuple' % profile,
                    spec_disagreements_unsigned=nspec, css_reference_agrees=sum(1 for m in masks if not m & 2))


def check(run):
    rng = random.Random(run.seed * 7919 + 12)
    thorough = run.tier == 'thorough'
    common.prove(run, 'C12', ['model/C12Flex.vo', 'model/C12FlexLines.vo', 'model/C12FlexSpec.vo'])
    run.trusted += ['Coq 8.16.1 kernel (coqc); vm_compute for the cases.v evaluation',
                    'harness/p_c12.py: translation of the generated CSS into model inputs (used flex basis, min/max, extras)']
    stream_rows(run, rng, 3000 if thorough else 400, 'plain', 'flex-row')
    stream_rows(run, rng, 2000 if thorough else 200, 'wide', 'flex-row-wide')


def replay(data):
    d = data.get('data', {})
    if d.get('stream', '').startswith('flex-row'):
        c = d['case']
        (st, o), = common.run_impl('impl_c12', 'render_container', [{'html': row_html(c)}])
        if st != 'ok':
            print('replay: render', st, o)
            return 1
        out = row_impl_out(c, o)
        if out is None:
            print('replay: unusable output', o)
            return 1
        m = common.eval_cases('c12replay', PRE, 'row_case', [coq_row_case(c, out)], 'row_judge')
        print('replay: impl', [(i, l, float(x), float(w)) for i, l, x, w in out], 'judge mask', m)
        return 1 if m[0] & 3 else 0
    print('nothing to replay for', d.get('stream'))
    return 0
