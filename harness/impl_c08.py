"""Implementation-side functions for C08 (run in worker processes; weasyprint imported from REPO)."""
import itertools


# ------------------------------------------------------------------ white-space / text-transform, direct calls

def _style(ws='normal', tt='none', flow=True, run=False, hyphens='manual'):
    return {'white_space': ws, 'text_transform': tt, 'hyphens': hyphens,
            'float': 'none' if flow else 'left',
            'position': ('running()', 'x') if run else 'static'}


def _mk(node):
    """node: ['T', ws, lead, text] | ['I', flow, run, kids] | ['O', flow]"""
    from weasyprint.formatting_structure import boxes
    if node[0] == 'T':
        b = boxes.TextBox('x', _style(ws=node[1]), None, node[3] or 'z')
        b.text = node[3]
        if node[2]:
            b.leading_collapsible_space = True
        return b
    if node[0] == 'I':
        return boxes.InlineBox('x', _style(flow=node[1], run=node[2]), None, [_mk(k) for k in node[3]])
    return boxes.InlineBlockBox('x', _style(flow=node[1]), None, [])


def _ser(b):
    from weasyprint.formatting_structure import boxes
    if isinstance(b, boxes.TextBox):
        return ['T', b.style['white_space'], bool(b.leading_collapsible_space), b.text]
    if isinstance(b, boxes.InlineBox):
        return ['I', b.is_in_normal_flow(), b.is_running(), [_ser(k) for k in b.children]]
    return ['O', b.is_in_normal_flow()]


def ws_text(case):
    """case: dict(ws, f, text) -> [text, flag, leading]"""
    from weasyprint.formatting_structure import build
    b = _mk(['T', case['ws'], False, case['text']])
    f = build.process_whitespace(b, case['f'])
    return [b.text, bool(f), bool(b.leading_collapsible_space)]


def ws_tree(case):
    """case: dict(pflow, run, f, kids, passes) -> [kids after, flag]  (process_whitespace on a block parent)"""
    from weasyprint.formatting_structure import boxes, build
    parent = boxes.BlockBox('p', _style(flow=case['pflow'], run=case['run']), None, [_mk(k) for k in case['kids']])
    f = build.process_whitespace(parent, case['f'])
    return [[_ser(k) for k in parent.children], bool(f)]


def tt_text(case):
    """case: dict(tt, text) -> text after process_text_transform"""
    from weasyprint.formatting_structure import boxes, build
    b = boxes.TextBox('x', _style(tt=case['tt']), None, case['text'] or 'z')
    b.text = case['text']
    build.process_text_transform(b)
    return b.text
