"""Implementation-side functions for C08 (run in worker processes; weasyprint imported from REPO)."""
import itertools


# ------------------------------------------------------------------ white-space / text-transform, direct calls

def _style(ws='normal', tt='none', flow=True, run=False, hyphens='manual'):
    return {'white_space': ws, 'text_transform': tt, 'hyphens': hyphens,
            'float': 'none' if flow else 'left',
            'position': ('running()', 'x') if run else 'static'}


def _mk(node):
    """node: ['T', ws, lead, text] | ['I', flow, run, kids] | ['O', flow]"""
    from weasyprint.formatting_structure import boxes
    if node[0] == 'T':
        b = boxes.TextBox('x', _style(ws=node[1]), None, node[3] or 'z')
        b.text = node[3]
        if node[2]:
            b.leading_collapsible_space = True
        return b
    if node[0] == 'I':
        return boxes.InlineBox('x', _style(flow=node[1], run=node[2]), None, [_mk(k) for k in node[3]])
    return boxes.InlineBlockBox('x', _style(flow=node[1]), None, [])


def _ser(b):
    from weasyprint.formatting_structure import boxes
    if isinstance(b, boxes.TextBox):
        return ['T', b.style['white_space'], bool(b.leading_collapsible_space), b.text]
    if isinstance(b, boxes.InlineBox):
        return ['I', b.is_in_normal_flow(), b.is_running(), [_ser(k) for k in b.children]]
    return ['O', b.is_in_normal_flow()]


def ws_text(case):
    """case: dict(ws, f, text) -> [text, flag, leading]"""
    from weasyprint.formatting_structure import build
    b = _mk(['T', case['ws'], False, case['text']])
    f = build.process_whitespace(b, case['f'])
    return [b.text, bool(f), bool(b.leading_collapsible_space)]


def ws_tree(case):
    """case: dict(pflow, run, f, kids, passes) -> [kids after, flag]  (process_whitespace on a block parent)"""
    from weasyprint.formatting_structure import boxes, build
    parent = boxes.BlockBox('p', _style(flow=case['pflow'], run=case['run']), None, [_mk(k) for k in case['kids']])
    f = build.process_whitespace(parent, case['f'])
    return [[_ser(k) for k in parent.children], bool(f)]


def tt_text(case):
    """case: dict(tt, text) -> text after process_text_transform"""
    from weasyprint.formatting_structure import boxes, build
    b = boxes.TextBox('x', _style(tt=case['tt']), None, case['text'] or 'z')
    b.text = case['text']
    build.process_text_transform(b)
    return b.text


# ------------------------------------------------------------------ table slot assignment through the real pipeline

def _attr_int(el, name, lo):
    try:
        return max(int(el.get(name, '').strip()), lo)
    except (AttributeError, ValueError):
        return 1


def _tables_of(root):
    from weasyprint.formatting_structure import boxes
    out = []

    def walk(b):
        if isinstance(b, boxes.TableBox):
            out.append(b)
        for c in getattr(b, 'children', ()) or ():
            walk(c)
    walk(root)
    return out


def _table_record(t):
    from weasyprint.formatting_structure import boxes
    groups, kinds = [], []
    for g in t.children:
        rows = []
        for r in g.children:
            rows.append([[_attr_int(c.element, 'colspan', 1) if c.element is not None and c.element_tag in ('td', 'th') and not _anon(c) else 1,
                          _attr_int(c.element, 'rowspan', 0) if c.element is not None and c.element_tag in ('td', 'th') and not _anon(c) else 1,
                          c.grid_x, c.colspan, c.rowspan] for c in r.children])
        groups.append(rows)
        kinds.append([g.style['display'][0], bool(g.is_header), bool(g.is_footer)])
    cols = []
    for cg in t.column_groups:
        cols.append([cg.grid_x, [c.grid_x for c in cg.children]])
    gw = -1
    grid = getattr(t, 'collapsed_border_grid', None)
    if grid is not None and grid[0]:
        gw = len(grid[0][0]) - 1
    return dict(groups=groups, kinds=kinds, cols=cols, grid_width=gw,
                ncols=sum(len(c[1]) for c in cols))


def _anon(cell):
    # an anonymous cell shares its parent's element: its own tag is not td/th, or it wraps improper children
    return cell.element is None or cell.element.tag not in ('td', 'th')


def table_slots(case):
    """case: dict(html) -> list of table records of the box tree right after build_formatting_structure"""
    from tests.testing_utils import parse_all
    root = parse_all(case['html'])
    return [_table_record(t) for t in _tables_of(root)]
