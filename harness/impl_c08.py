"""Implementation-side functions for C08 (run in worker processes; weasyprint imported from REPO)."""
import itertools


# ------------------------------------------------------------------ white-space / text-transform, direct calls

def _style(ws='normal', tt='none', flow=True, run=False, hyphens='manual'):
    return {'white_space': ws, 'text_transform': tt, 'hyphens': hyphens,
            'float': 'none' if flow else 'left',
            'position': ('running()', 'x') if run else 'static'}


def _mk(node):
    """node: ['T', ws, lead, text] | ['I', flow, run, kids] | ['O', flow]"""
    from weasyprint.formatting_structure import boxes
    if node[0] == 'T':
        b = boxes.TextBox('x', _style(ws=node[1]), None, node[3] or 'z')
        b.text = node[3]
        if node[2]:
            b.leading_collapsible_space = True
        return b
    if node[0] == 'I':
        return boxes.InlineBox('x', _style(flow=node[1], run=node[2]), None, [_mk(k) for k in node[3]])
    return boxes.InlineBlockBox('x', _style(flow=node[1]), None, [])


def _ser(b):
    from weasyprint.formatting_structure import boxes
    if isinstance(b, boxes.TextBox):
        return ['T', b.style['white_space'], bool(b.leading_collapsible_space), b.text]
    if isinstance(b, boxes.InlineBox):
        return ['I', b.is_in_normal_flow(), b.is_running(), [_ser(k) for k in b.children]]
    return ['O', b.is_in_normal_flow()]


def ws_text(case):
    """case: dict(ws, f, text) -> [text, flag, leading]"""
    from weasyprint.formatting_structure import build
    b = _mk(['T', case['ws'], False, case['text']])
    f = build.process_whitespace(b, case['f'])
    return [b.text, bool(f), bool(b.leading_collapsible_space)]


def ws_tree(case):
    """case: dict(pflow, run, f, kids, passes) -> [kids after, flag]  (process_whitespace on a block parent)"""
    from weasyprint.formatting_structure import boxes, build
    parent = boxes.BlockBox('p', _style(flow=case['pflow'], run=case['run']), None, [_mk(k) for k in case['kids']])
    f = build.process_whitespace(parent, case['f'])
    return [[_ser(k) for k in parent.children], bool(f)]


def tt_text(case):
    """case: dict(tt, text) -> text after process_text_transform"""
    from weasyprint.formatting_structure import boxes, build
    b = boxes.TextBox('x', _style(tt=case['tt']), None, case['text'] or 'z')
    b.text = case['text']
    build.process_text_transform(b)
    return b.text


# ------------------------------------------------------------------ table slot assignment through the real pipeline

def _attr_int(el, name, lo):
    try:
        return max(int(el.get(name, '').strip()), lo)
    except (AttributeError, ValueError):
        return 1


def _tables_of(root):
    from weasyprint.formatting_structure import boxes
    out = []

    def walk(b):
        if isinstance(b, boxes.TableBox):
            out.append(b)
        for c in getattr(b, 'children', ()) or ():
            walk(c)
    walk(root)
    return out


def _table_record(t):
    from weasyprint.formatting_structure import boxes
    groups, kinds = [], []
    for g in t.children:
        rows = []
        for r in g.children:
            # TableCellBox.__init__ reads the attributes of box.element, whatever the tag (an anonymous cell
            # shares the element of the box it was created from)
            rows.append([[_attr_int(c.element, 'colspan', 1), _attr_int(c.element, 'rowspan', 0),
                          c.grid_x, c.colspan, c.rowspan] for c in r.children])
        groups.append(rows)
        kinds.append([g.style['display'][0], bool(g.is_header), bool(g.is_footer)])
    cols = []
    for cg in t.column_groups:
        cols.append([cg.grid_x, [c.grid_x for c in cg.children]])
    gw = -1
    grid = getattr(t, 'collapsed_border_grid', None)
    if grid is not None and grid[0]:
        gw = len(grid[0][0]) - 1
    return dict(groups=groups, kinds=kinds, cols=cols, grid_width=gw,
                ncols=sum(len(c[1]) for c in cols))


def table_slots(case):
    """case: dict(html) -> list of table records of the box tree right after build_formatting_structure"""
    from tests.testing_utils import parse_all
    root = parse_all(case['html'])
    return [_table_record(t) for t in _tables_of(root)]


# ------------------------------------------------------------------ full documents: box tree, text, tables

KINDS = ['BlockBox', 'InlineBox', 'InlineBlockBox', 'TableBox', 'InlineTableBox', 'FlexBox', 'InlineFlexBox', 'GridBox',
         'InlineGridBox', 'TableRowBox', 'TableRowGroupBox', 'TableColumnBox', 'TableColumnGroupBox', 'TableCellBox',
         'TableCaptionBox', 'LineBox', 'TextBox', 'BlockReplacedBox', 'InlineReplacedBox', 'PageBox', 'MarginBox']


def _install_hook():
    """remember the text a TextBox had before its first process_whitespace() (harness-side, /repo untouched)"""
    from weasyprint.formatting_structure import build, boxes
    if getattr(build, '_c08_hooked', False):
        return
    orig = build.process_whitespace

    def process_whitespace(box, following_collapsible_space=False):
        if isinstance(box, boxes.TextBox) and '_c08_orig' not in box.__dict__:
            box._c08_orig = box.text
        return orig(box, following_collapsible_space)
    build.process_whitespace = process_whitespace
    build._c08_hooked = True


def _unwrap(b):
    return getattr(b, '_box', b) if type(b).__name__ == 'AbsolutePlaceholder' else b


def _kind(b):
    n = type(b).__name__
    return n if n in KINDS else 'Other:' + n


def _tree(b):
    b = _unwrap(b)
    from weasyprint.formatting_structure import boxes
    kids = [] if isinstance(b, boxes.TextBox) else [_tree(c) for c in (getattr(b, 'children', ()) or ())]
    return [_kind(b), bool(b.is_in_normal_flow()) if hasattr(b, 'style') and b.style is not None else True,
            bool(getattr(b, 'is_table_wrapper', False)),
            isinstance(b, boxes.TextBox) and not b.text, kids]


def _is_anon(b):
    return type(b.style).__name__ == 'AnonymousStyle'


def _words_of(b, out):
    """words of the text boxes, keyed by the element (or pseudo-element) the text belongs to: {key: [words]}"""
    from weasyprint.formatting_structure import boxes
    b = _unwrap(b)
    if isinstance(b, boxes.TextBox):
        tag = b.element_tag or ''
        if tag.endswith('::marker'):
            return
        key = b.element.get('id') or b.element.tag if b.element is not None else '?'
        if '::' in tag:
            key += '::' + tag.split('::')[1]
        # U+200B alone: the box build.element_to_box adds to an otherwise empty list item
        ws = [w for w in b.text.split() if w != '\u200b']
        if ws:
            out.setdefault(key, []).extend(ws)
        return
    if (getattr(b, 'element_tag', None) or '').endswith('::marker'):
        return
    for c in (getattr(b, 'children', ()) or ()):
        _words_of(c, out)


def _ifc_items(b, items, top=None):
    """flatten the inline content of a LineBox / InlineBox: text items, 'a' for atomic inline-level boxes;
    out-of-flow boxes are transparent.  Last field: index of the child of the line box the item comes from."""
    from weasyprint.formatting_structure import boxes
    for i, c in enumerate(b.children):
        t = i if top is None else top
        c = _unwrap(c)
        if isinstance(c, boxes.TextBox):
            items.append(['t', c.__dict__.get('_c08_orig'), c.style['white_space'], c.style['text_transform'],
                          c.text, c.element_tag or '', c.style['hyphens'], t])
        elif isinstance(c, boxes.InlineBox):
            if (c.element_tag or '').endswith('::marker'):
                items.append(['a', t])
            else:
                _ifc_items(c, items, t)
        elif not c.is_in_normal_flow():
            continue
        else:
            items.append(['a', t])


def _style_in_flow(b):
    """is_in_normal_flow() as process_whitespace saw it (flex_children later overrides is_floated on flex items)"""
    st = b.style
    pos = st['position']
    return not (st['float'] in ('left', 'right', 'footnote') or pos in ('absolute', 'fixed') or
                (isinstance(pos, tuple) and pos[0] == 'running()'))


def _host_in_flow(chain):
    """the element box whose children the inline content was when element_to_box processed it: nearest
    non-anonymous ancestor that is not an inline box (for a table: float/position have moved to its wrapper)"""
    from weasyprint.formatting_structure import boxes
    for i in range(len(chain) - 1, -1, -1):
        b = chain[i]
        if not _is_anon(b) and not isinstance(b, (boxes.InlineBox, boxes.LineBox)):
            if isinstance(b, boxes.TableBox) and i > 0 and chain[i - 1].is_table_wrapper:
                return _style_in_flow(chain[i - 1]), b.element_tag
            return _style_in_flow(b), b.element_tag
    return True, None


def _collect(b, chain, ifcs, tables, post):
    from weasyprint.formatting_structure import boxes
    b = _unwrap(b)
    if isinstance(b, boxes.LineBox):
        items = []
        _ifc_items(b, items)
        flow, tag = _host_in_flow(chain)
        ifcs.append(dict(items=items, host_in_flow=flow, host=tag, block=id(chain[-1]) if chain else 0))
    if isinstance(b, boxes.TableBox):
        tables.append(_table_record(b) if not post else None)
    if not isinstance(b, boxes.TextBox):
        for c in (getattr(b, 'children', ()) or ()):
            _collect(c, chain + [b], ifcs, tables, post)


def _colgroups(root):
    return [[_tree(g) for g in t.column_groups] for t in _tables_of(root)]


def build_and_render(case):
    """case: dict(html, render=bool).  Returns dict(pre=..., post=... | crash info)."""
    _install_hook()
    from tests.testing_utils import _parse_base, render_pages
    from weasyprint.formatting_structure import build
    out = {}
    root = build.build_formatting_structure(*_parse_base(case['html']))
    ifcs, tables, words = [], [], {}
    _collect(root, [], ifcs, tables, False)
    _words_of(root, words)
    out['pre'] = dict(tree=_tree(root), ifcs=ifcs, tables=tables, words=words, colgroups=_colgroups(root))
    if case.get('render', True):
        import traceback, os
        try:
            pages = render_pages(case['html'])
        except Exception as exc:   # noqa  (reported as a crash with its site by the harness)
            tb = traceback.extract_tb(exc.__traceback__)
            site = None
            for fr in reversed(tb):
                if '/weasyprint/' in fr.filename:
                    site = [type(exc).__name__, fr.filename.split('/weasyprint/')[-1], fr.name]
                    break
            out['post_crash'] = dict(type=type(exc).__name__, msg=str(exc)[:200], site=site,
                                     tb=''.join(traceback.format_exception(type(exc), exc, exc.__traceback__))[-1200:])
            return out
        pifcs, ptables, pwords = [], [], {}
        for p in pages:
            _collect(p, [], pifcs, ptables, True)
            _words_of(p, pwords)
        out['post'] = dict(trees=[_tree(p) for p in pages], words=pwords, npages=len(pages))
    return out


# ------------------------------------------------------------------ display / float / position -> box class

def display_box(case):
    """case: dict(display, float, position, root) -> dict(display=computed tuple, float=computed, cls=class name|None)"""
    from tests.testing_utils import _parse_base
    from weasyprint.formatting_structure import build, boxes
    decl = 'display:%s;float:%s;position:%s' % (case['display'], case['float'], case['position'])
    if case['root']:
        html = '<style>html{%s}</style><body>x</body>' % decl
    else:
        html = '<body><div id="t" style="%s">x</div></body>' % decl
    base = _parse_base(html)
    root_el, style_for = base[0], base[1]
    target = root_el if case['root'] else next(e for e in root_el.iter() if e.get('id') == 't')
    style = style_for(target)
    disp, flt = tuple(style['display']), style['float']
    if disp == ('none',):
        return dict(display=list(disp), float=flt, cls=None)
    root = build.build_formatting_structure(*base)
    found = []

    def walk(b):
        if getattr(b, 'element', None) is target and not _is_anon(b) and not isinstance(b, boxes.LineBox):
            found.append(b)
        for c in (b.all_children() if hasattr(b, 'all_children') else ()):
            if not isinstance(c, boxes.TextBox):
                walk(c)
    walk(root)
    return dict(display=list(disp), float=flt, cls=type(found[0]).__name__ if found else None, n=len(found))


# ------------------------------------------------------------------ fix-ups, direct calls on synthetic boxes

_BASE = {}


def _base_style():
    if 'style' not in _BASE:
        from tests.testing_utils import parse_all
        root = parse_all('<p>x</p>')
        _BASE['style'] = root.children[0].style
    return _BASE['style']


def _mkbox(t):
    """t = [kind, attrs dict, kids] -> real box.  attrs: flow, abs, empty, space, wsonly, grp, capbot"""
    import xml.etree.ElementTree as ET
    from weasyprint.formatting_structure import boxes
    kind, a, kids = t
    st = _base_style().copy()
    st['float'] = 'none'
    st['position'] = 'static'
    if a.get('abs'):
        st['position'] = 'absolute'
    elif not a.get('flow', True):
        st['float'] = 'left'
    st['white_space'] = 'normal'
    st['caption_side'] = 'bottom' if a.get('capbot') else 'top'
    st['display'] = {1: ('table-header-group',), 2: ('table-footer-group',)}.get(a.get('grp', 0), ('table-row-group',)) \
        if kind == 'TableRowGroupBox' else ('block', 'flow')
    st['border_collapse'] = 'separate'
    el = ET.Element('x')
    if kind == 'TextBox':
        b = boxes.TextBox('x', st, el, 'x')
        b.text = '' if a.get('empty') else ' ' if a.get('space') else ' \n ' if a.get('wsonly') else 'x'
        if 'text' in a:
            b.text = a['text']
        return b
    return getattr(boxes, kind)('x', st, el, [_mkbox(k) for k in kids])


def fix_atb(case):
    from weasyprint.formatting_structure import build
    return _tree(build.anonymous_table_boxes(_mkbox(case['tree'])))


def fix_iib(case):
    from weasyprint.formatting_structure import build
    return _tree(build.inline_in_block(_mkbox(case['tree'])))


def fix_bii(case):
    from weasyprint.formatting_structure import build
    return _tree(build.block_in_inline(_mkbox(case['tree'])))



# ------------------------------------------------------------------ white space between table parts

def _texts(b, out):
    from weasyprint.formatting_structure import boxes
    b = _unwrap(b)
    if isinstance(b, boxes.TextBox):
        out.append(b.text)
        return
    for c in (b.all_children() if hasattr(b, 'all_children') else ()):
        _texts(c, out)


def fix_atb_ws(case):
    """anonymous_table_boxes on synthetic boxes whose text boxes carry given texts -> tree and the texts left"""
    from weasyprint.formatting_structure import build
    root = build.anonymous_table_boxes(_mkbox(case['tree']))
    texts = []
    _texts(root, texts)
    return dict(tree=_tree(root), texts=texts)


def table_ws_doc(case):
    """case: dict(html, render) -> tree, table records and texts right after build_formatting_structure (and the
    class tree + texts of the laid-out page when render is set)"""
    from tests.testing_utils import _parse_base, render_pages
    from weasyprint.formatting_structure import build
    root = build.build_formatting_structure(*_parse_base(case['html']))
    texts = []
    _texts(root, texts)
    out = dict(tree=_tree(root), tables=[_table_record(t) for t in _tables_of(root)], texts=texts)
    if case.get('render'):
        try:
            pages = render_pages(case['html'])
        except Exception as exc:      # noqa  (layout crashes are the business of the document streams)
            if type(exc).__name__ == 'CaseTimeout':
                raise
            return out
        ptexts = []
        for p in pages:
            _texts(p, ptexts)
        out['post'] = dict(tables=[[[len(r.children) for r in g.children] for g in t.children]
                                   for p in pages for t in _tables_of(p)],
                           text=''.join(''.join(ptexts).split()))
    return out
