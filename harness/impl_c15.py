"""Implementation-side functions for C15 (run in worker processes; weasyprint imported from REPO)."""
import math

_UA = None


def _ua():
    global _UA
    if _UA is None:
        from weasyprint import HTML
        _UA = HTML(string='<p>')._ua_counter_style()[0]
    return _UA


# ------------------------------------------------------------------ dictionary entries <-> JSON

def _bound(b):
    if b == math.inf:
        return 'inf'
    if b == -math.inf:
        return '-inf'
    return int(b)


def dump_style(c):
    """One CounterStyle entry (dict of descriptors) as JSON-able data."""
    def sym(s):
        return [s[0], s[1] if s[0] == 'string' else '']
    out = {}
    s = c['system']
    out['system'] = None if s is None else [bool(s[0]), s[1], s[2]]
    n = c['negative']
    out['negative'] = None if n is None else [sym(n[0]), sym(n[1])]
    out['prefix'] = None if c['prefix'] is None else sym(c['prefix'])
    out['suffix'] = None if c['suffix'] is None else sym(c['suffix'])
    r = c['range']
    if r is None or r == 'auto':
        out['range'] = r
    else:
        out['range'] = ['auto' if i == 'auto' else [_bound(i[0]), _bound(i[1])] for i in r]
    p = c['pad']
    out['pad'] = None if p is None else [p[0], sym(p[1])]
    out['fallback'] = c['fallback']
    out['symbols'] = None if c['symbols'] is None else [sym(x) for x in c['symbols']]
    a = c['additive_symbols']
    out['additive_symbols'] = None if a is None else [[w, sym(s)] for w, s in a]
    return out


def load_style(d):
    """Inverse of dump_style, giving the Python shapes the validators produce."""
    def sym(s):
        return (s[0], s[1])
    def bound(b):
        return math.inf if b == 'inf' else -math.inf if b == '-inf' else b
    c = {}
    s = d['system']
    c['system'] = None if s is None else ('extends' if s[0] else None, s[1], s[2])
    n = d['negative']
    c['negative'] = None if n is None else [sym(n[0]), sym(n[1])]
    c['prefix'] = None if d['prefix'] is None else sym(d['prefix'])
    c['suffix'] = None if d['suffix'] is None else sym(d['suffix'])
    r = d['range']
    if r is None or r == 'auto':
        c['range'] = r
    else:
        c['range'] = tuple('auto' if i == 'auto' else (bound(i[0]), bound(i[1])) for i in r)
    p = d['pad']
    c['pad'] = None if p is None else (p[0], sym(p[1]))
    c['fallback'] = d['fallback']
    c['symbols'] = None if d['symbols'] is None else tuple(sym(x) for x in d['symbols'])
    a = d['additive_symbols']
    c['additive_symbols'] = None if a is None else tuple((w, sym(s)) for w, s in a)
    return c


def ua_dump(_case):
    return [[k, dump_style(v)] for k, v in _ua().items()]


def _name(n):
    if isinstance(n, str):
        return n
    if n[0] == 'symbols()':
        return ('symbols()', tuple(n[1]))
    return ('string', n[1])


def render_queries(case):
    """case: {'css': str|None, 'raw': [[name, style]]|None, 'use_ua': bool, 'queries': [[marker, name, value]]}
    Builds a CounterStyle the way the renderer does (UA entries, then the author sheet through
    weasyprint.CSS -> preprocess_stylesheet -> descriptors validators), calls render_value / render_marker.
    Returns {'user': entries added or replaced w.r.t. the UA ones, in dictionary order, 'outs': [...]}"""
    from weasyprint import CSS
    from weasyprint.css.counters import CounterStyle
    cs = CounterStyle()
    base = _ua() if case.get('use_ua', True) else {}
    for k, v in base.items():
        cs[k] = v
    if case.get('css'):
        CSS(string=case['css'], counter_style=cs)
    for k, d in (case.get('raw') or []):
        cs[k] = load_style(d)
    user = [[k, dump_style(v)] for k, v in cs.items() if base.get(k) is not v]
    outs = []
    import signal

    class QueryTimeout(BaseException):
        pass

    def on_timer(signum, frame):
        raise QueryTimeout()
    old = signal.signal(signal.SIGVTALRM, on_timer)
    try:
        for marker, name, value in case['queries']:
            # a query that does not return within 0.3 s of CPU is a non-terminating loop (only possible with
            # dictionaries no stylesheet produces): reported like RecursionError
            signal.setitimer(signal.ITIMER_VIRTUAL, 0.3)
            try:
                if marker:
                    r = cs.render_marker(_name(name), value)
                else:
                    r = cs.render_value(value, _name(name))
                signal.setitimer(signal.ITIMER_VIRTUAL, 0)
                outs.append(['ok', r])
            except (RecursionError, QueryTimeout):
                signal.setitimer(signal.ITIMER_VIRTUAL, 0)
                outs.append(['rec', None])
            except Exception as exc:   # noqa
                signal.setitimer(signal.ITIMER_VIRTUAL, 0)
                if type(exc).__name__ == 'CaseTimeout':
                    raise
                outs.append(['exc', '%s: %s' % (type(exc).__name__, exc)])
    finally:
        signal.setitimer(signal.ITIMER_VIRTUAL, 0)
        signal.signal(signal.SIGVTALRM, old)
    return {'user': user, 'outs': outs}


def render_counter_doc(case):
    """case as for render_queries (css sheet + queries on named styles).  The sheet is put in a real document; a
    value query [False, name, v] is an element with `counter-reset: n v` whose ::before prints "[" counter(n, name) "]";
    a marker query [True, name, v] is a display:list-item element with list-style-type: name and list-item set to v.
    Returns the dictionary entries (parsed as render_queries does, for the model) and the printed texts as outcomes."""
    from weasyprint import CSS, HTML
    from weasyprint.css.counters import CounterStyle
    from weasyprint.formatting_structure import boxes
    cs = CounterStyle()
    base = _ua()
    for k, v in base.items():
        cs[k] = v
    CSS(string=case['css'], counter_style=cs)
    user = [[k, dump_style(v)] for k, v in cs.items() if base.get(k) is not v]
    rules, body = [], []
    for i, (marker, name, value) in enumerate(case['queries']):
        if marker:
            rules.append('#q%d { display: list-item; list-style-type: %s; list-style-position: inside; '
                         'counter-increment: list-item 0; counter-set: list-item %d }' % (i, name, value))
        else:
            rules.append('#q%d { counter-reset: n %d } #q%d::before { content: "[" counter(n, %s) "]"; white-space: pre }'
                         % (i, value, i, name))
        body.append('<div id="q%d"></div>' % i)
    html = ('<style>@page { size: 30000px 100000px; margin: 0 } body { white-space: pre; font-size: 10px }\n%s\n%s</style>%s'
            % (case['css'], '\n'.join(rules), ''.join(body)))
    doc = HTML(string=html).render()
    got = {}

    def walk(box):
        tag = getattr(box, 'element_tag', '') or ''
        for kind in ('before', 'marker'):
            if tag.endswith('::' + kind) and box.element is not None:
                t = []
                _texts(box, t)
                got.setdefault((box.element.get('id'), kind), []).append(''.join(t))
                return
        for c in getattr(box, 'children', ()) or ():
            walk(c)
    for page in doc.pages:
        walk(page._page_box)
    outs = []
    for i, (marker, name, value) in enumerate(case['queries']):
        texts = got.get(('q%d' % i, 'marker' if marker else 'before'))
        if marker:
            outs.append(['ok', ''.join(texts or [])])          # an empty marker text generates no box
        elif not texts:
            outs.append(['exc', 'no ::before box'])
        else:
            t = ''.join(texts)
            outs.append(['ok', t[1:-1]] if t.startswith('[') and t.endswith(']') else ['exc', 'unexpected text %r' % t])
    return {'user': user, 'outs': outs}


# ------------------------------------------------------------------ full renders

def _texts(box, out):
    from weasyprint.formatting_structure import boxes
    if isinstance(box, boxes.TextBox):
        out.append(box.text)
    for c in getattr(box, 'children', ()) or ():
        _texts(c, out)


def render_texts(case):
    """case: {'html': ...} -> for every page the list of (element id, pseudo kind, text) of generated boxes
    whose tag ends with ::before / ::after / ::marker (tree order)."""
    from tests.testing_utils import render_pages
    pages = render_pages(case['html'])
    res = []
    for pi, page in enumerate(pages):
        def walk(box):
            tag = getattr(box, 'element_tag', '') or ''
            for kind in ('before', 'after', 'marker'):
                if tag.endswith('::' + kind):
                    t = []
                    _texts(box, t)
                    eid = box.element.get('id') if box.element is not None else None
                    res.append([pi, eid, kind, ''.join(t)])
                    return
            for c in getattr(box, 'children', ()) or ():
                walk(c)
        walk(page)
    return res


def render_mixed(case):
    """case: {'html': ...}: a paginated document whose ::before/::after/::marker content mixes element counters with
    page-based counters and target-*().  Returns the generated texts with their page, the pages of every element
    with an id, the number of pages and of passes of the re-layout loop."""
    import inspect
    from tests.testing_utils import FakeHTML, BASE_URL
    from weasyprint import layout as layout_mod
    max_loops = inspect.signature(layout_mod.layout_document).parameters['max_loops'].default
    orig_make = layout_mod.make_all_pages
    calls = {'n': 0}

    def counting_make(*a, **k):
        calls['n'] += 1
        return orig_make(*a, **k)
    layout_mod.make_all_pages = counting_make
    try:
        doc = FakeHTML(string=case['html'], base_url=BASE_URL).render()
    finally:
        layout_mod.make_all_pages = orig_make
    texts, elements = [], {}
    for pi, page in enumerate(doc.pages, 1):
        def walk(box):
            tag = getattr(box, 'element_tag', '') or ''
            el = getattr(box, 'element', None)
            for kind in ('before', 'after', 'marker'):
                if tag.endswith('::' + kind):
                    t = []
                    _texts(box, t)
                    texts.append([pi, el.get('id') if el is not None else None, kind, ''.join(t)])
                    return
            if el is not None and '::' not in tag and el.get('id'):
                pages = elements.setdefault(el.get('id'), [])
                if pi not in pages:
                    pages.append(pi)
            for c in getattr(box, 'children', ()) or ():
                walk(c)
        walk(page._page_box)
    return {'texts': texts, 'elements': elements, 'pages': len(doc.pages), 'loops': calls['n'], 'max_loops': max_loops}


def render_toc(case):
    """case: {'html': ...}: links `a.t` print target-counter(attr(href), page) in ::after; targets are elements whose
    id starts with 't'.  make_all_pages is wrapped to count the passes of the re-layout loop of layout_document.
    Returns {'pages': n, 'targets': {id: [1-based page numbers where a box of the element lies]},
             'links': [[link id, target id, page of the link, printed text]], 'loops': n, 'max_loops': m}"""
    import inspect
    from tests.testing_utils import FakeHTML, BASE_URL
    from weasyprint import layout as layout_mod
    max_loops = inspect.signature(layout_mod.layout_document).parameters['max_loops'].default
    orig_make = layout_mod.make_all_pages
    calls = {'n': 0}

    def counting_make(*a, **k):
        calls['n'] += 1
        return orig_make(*a, **k)
    layout_mod.make_all_pages = counting_make
    try:
        doc = FakeHTML(string=case['html'], base_url=BASE_URL).render()
    finally:
        layout_mod.make_all_pages = orig_make
    pages = [p._page_box for p in doc.pages]
    targets, links = {}, []
    for pi, page in enumerate(pages, 1):
        def walk(box):
            el = getattr(box, 'element', None)
            tag = getattr(box, 'element_tag', '') or ''
            if el is not None and '::' not in tag:
                eid = el.get('id')
                if eid and eid.startswith('t'):
                    targets.setdefault(eid, [])
                    if pi not in targets[eid]:
                        targets[eid].append(pi)
            if el is not None and tag.endswith('::after') and (el.get('class') or '') == 't':
                t = []
                _texts(box, t)
                links.append([el.get('id'), (el.get('href') or '')[1:], pi, ''.join(t)])
                return
            for c in getattr(box, 'children', ()) or ():
                walk(c)
        walk(page)
    return {'pages': len(pages), 'targets': targets, 'links': links, 'loops': calls['n'], 'max_loops': max_loops}
