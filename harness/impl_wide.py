"""Implementation side of the wide monitors: render, report per page the words in tree order and line geometry."""
import re

WORD = re.compile(r'^[a-h]{7}$')


def _unwrap(box):
    if type(box).__name__ == 'AbsolutePlaceholder':
        return box._box
    return box


def _walk(box, out):
    box = _unwrap(box)
    kids = getattr(box, 'children', None)
    if hasattr(box, 'text') and not kids:
        out.append(box)
        return
    for c in kids or ():
        _walk(c, out)


def render_words(case):
    """-> dict(pages=[[word,...],...], npages)"""
    from tests.testing_utils import render_pages
    pages = render_pages(case['html'])
    res = []
    for p in pages:
        tb = []
        _walk(p, tb)
        ws = []
        for b in tb:
            for tok in b.text.split():
                if WORD.match(tok):
                    ws.append(tok)
        res.append(ws)
    return {'pages': res}
