"""Implementation side of the wide monitors: render, report per page the words in tree order and line geometry."""
import re

WORD = re.compile(r'^[a-h]{7}$')


def _unwrap(box):
    if type(box).__name__ == 'AbsolutePlaceholder':
        return box._box
    return box


def _walk(box, out):
    box = _unwrap(box)
    kids = getattr(box, 'children', None)
    if hasattr(box, 'text') and not kids:
        out.append(box)
        return
    for c in kids or ():
        _walk(c, out)


def render_words(case):
    """-> dict(pages=[[word,...],...], npages)"""
    from tests.testing_utils import render_pages
    pages = render_pages(case['html'])
    res = []
    for p in pages:
        tb = []
        _walk(p, tb)
        ws = []
        for b in tb:
            for tok in b.text.split():
                if WORD.match(tok):
                    ws.append(tok)
        res.append(ws)
    return {'pages': res}


def render_fit(case):
    """-> per page: dict(height, lines=[(y, h, first_word, inflow)], words=[...]) for the fit / progress monitors.
    A 'line' is a LineBox not inside an out-of-flow (absolute/fixed/float/footnote) subtree; table rows are
    reported too (kind 'row')."""
    from tests.testing_utils import render_pages
    from weasyprint.formatting_structure import boxes
    pages = render_pages(case['html'])
    res = []
    for p in pages:
        items = []
        words = []
        blocks = []

        def walk(box, inflow, simple=True):
            box = _unwrap(box)
            if not box.is_in_normal_flow() and not isinstance(box, boxes.PageBox):
                inflow = False
            if isinstance(box, (boxes.TableBox, boxes.FlexContainerBox, boxes.GridContainerBox, boxes.InlineBlockBox)) or (
                    isinstance(box, boxes.BlockBox) and (box.style['column_count'] != 'auto' or box.style['column_width'] != 'auto')):
                simple = False
            if isinstance(box, boxes.LineBox):
                tb = []
                _walk(box, tb)
                ws = [t for b in tb for t in b.text.split() if WORD.match(t)]
                items.append(('line', box.position_y, box.height, ws[0] if ws else None, inflow))
                words.extend(ws)
                return
            if isinstance(box, boxes.TableRowBox):
                items.append(('row', box.position_y, box.height, None, inflow))
            start = len(items)
            for c in getattr(box, 'children', None) or ():
                walk(c, inflow, simple)
            if isinstance(box, boxes.BlockBox) and box.element_tag not in ('html', 'body') and inflow and simple \
                    and type(box.height) in (int, float):
                # border box of a block in plain block flow, its own bottom decoration, the range of its items
                nlines = sum(1 for c in box.children if isinstance(c, boxes.LineBox))
                # (clone only) an allowed break between two in-flow block children after which the part above, closed by
                # the repeated bottom decoration, fits on the page
                deco = box.padding_bottom + box.border_bottom_width
                kids = [c for c in box.children if isinstance(c, boxes.BlockBox) and c.is_in_normal_flow()]
                fit_split = (box.style['box_decoration_break'] == 'clone' and len(kids) == len(box.children) and any(
                    c1.style['break_after'] == 'auto' and c2.style['break_before'] == 'auto'
                    and type(c1.height) in (int, float)
                    and c1.border_box_y() + c1.border_height() + deco <= p.height + 1e-6
                    for c1, c2 in zip(kids, kids[1:])))
                blocks.append((box.border_box_y(), box.border_height(), start, len(items),
                               deco, nlines,
                               box.style['orphans'], box.style['widows'], box.style['break_inside'], fit_split))
        html = p.children[0]
        walk(html, True)
        for extra in p.children[1:]:
            walk(extra, False)        # footnote area, margin boxes
        res.append({'height': p.height, 'items': items, 'words': words, 'blocks': blocks})
    return res
