"""Implementation-side functions for C20 (run in worker processes; weasyprint imported from REPO).

Everything the rendered documents reference is served from memory by a RECORDING url_fetcher; nothing is
read from disk or from the network by the harness during a render (the only file the harness itself reads is
tests/resources/weasyprint.otf, once, at import, to have font bytes to serve).

Document description (JSON, built by p_c20.py):
  doc = {base, base_el, items:[item], opt_attachments:[abs url]}
  item       = {t:'link', ref, abs, kids:[sitem]}                 <link rel=stylesheet href=ref>
             | {t:'style', kids:[sitem]}                          <style>...</style>
             | {t:'img'|'object'|'embed', id, ref, abs, alt, fmt, kids:[vitem]}
             | {t:'attlink'|'attanchor', id, ref, abs}
             | {t:'nofetch', form, ref}
  sitem      = {t:'rule', id} | {t:'import', ref, abs, form, media, kids:[sitem]}
             | {t:'font', id, srcs:[{ref, abs}]} | {t:'bg'|'lsi'|'content', id, ref, abs, fmt, kids:[vitem]}
  vitem      = {t:'svgimage', ref, abs, fmt, kids:[vitem]} | {t:'svguse', ref, abs}
`abs` is the absolute URL the generator intends (by construction, not by urljoin); the served world is keyed
by it.  Raster resources have a unique pixel size (w = 2 + n, h = 3) so that the image XObjects of the PDF
identify which fetched bytes were used.
"""
import base64, io, os, sys, logging, hashlib, threading, re, json, zlib

_HERE = os.path.dirname(os.path.abspath(__file__))
if _HERE not in sys.path:
    sys.path.insert(0, _HERE)

REPO = os.environ.get('VERIF_REPO', '/repo')
_FONT = None


def font_bytes():
    global _FONT
    if _FONT is None:
        _FONT = open(os.path.join(REPO, 'tests', 'resources', 'weasyprint.otf'), 'rb').read()
    return _FONT


# ------------------------------------------------------------------------------------------ audit hook
# installed once per worker process (hooks cannot be removed); records only while _AUDIT['on'].

_AUDIT = {'installed': False, 'on': False, 'events': [], 'stage': ''}
_WATCH = ('open', 'os.rmdir', 'socket.connect', 'socket.getaddrinfo', 'socket.gethostbyname', 'socket.bind',
          'urllib.Request', 'os.scandir', 'os.listdir', 'subprocess.Popen', 'os.system', 'ftplib.connect',
          'http.client.connect', 'smtplib.connect', 'glob.glob', 'os.mkdir', 'os.remove', 'os.rename',
          'shutil.rmtree', 'tempfile.mkdtemp', 'tempfile.mkstemp', 'pathlib.Path.glob', 'os.chdir')


def _hook(event, args):
    if not _AUDIT['on']:
        return
    if event in _WATCH:
        try:
            a0 = args[0] if args else None
            if isinstance(a0, os.PathLike):
                a0 = os.fspath(a0)
            if isinstance(a0, bytes):
                a0 = a0.decode('utf-8', 'replace')
            elif not isinstance(a0, (str, int, type(None))):
                a0 = repr(a0)
            extra = None
            if event == 'open' and len(args) > 1:
                extra = args[1]
            elif event in ('os.remove', 'os.rmdir', 'os.mkdir') and len(args) > 1:
                extra = args[1]
            elif event.startswith('socket.') and len(args) > 1:
                extra = repr(args[1])
            elif event == 'urllib.Request':
                extra = None
            _AUDIT['events'].append((_AUDIT['stage'], event, a0, extra))
        except Exception:   # never let the hook raise into the interpreter
            _AUDIT['events'].append((_AUDIT['stage'], event, '?', None))


def install_audit():
    if not _AUDIT['installed']:
        sys.addaudithook(_hook)
        _AUDIT['installed'] = True


# ------------------------------------------------------------------------------------------ resources

def raster_bytes(n, fmt='png'):
    """a valid raster image of unique size (2 + n) x 3"""
    from PIL import Image
    b = io.BytesIO()
    img = Image.new('RGB', (2 + n, 3), ((37 * n) % 256, (91 * n) % 256, 128))
    img.save(b, 'PNG' if fmt == 'png' else 'JPEG')
    return b.getvalue()


MIME = {'png': 'image/png', 'jpeg': 'image/jpeg', 'svg': 'image/svg+xml', 'css': 'text/css',
        'font': 'font/otf', 'blob': 'application/octet-stream'}


USE_TARGET = (b'<svg xmlns="http://www.w3.org/2000/svg" width="20" height="10">'
              b'<rect id="frag" x="1" y="1" width="3" height="3" fill="blue"/></svg>')


def svg_source(kids):
    parts = ['<svg xmlns="http://www.w3.org/2000/svg" xmlns:xlink="http://www.w3.org/1999/xlink" '
             'width="20" height="10" viewBox="0 0 20 10">',
             '<rect x="0" y="0" width="20" height="10" fill="lime"/>']
    for i, k in enumerate(kids):
        if k.get('removed'):
            continue
        if k['t'] == 'svgimage':
            attr = 'xlink:href' if i % 2 == 0 else 'href'
            parts.append('<image %s="%s" x="%d" y="1" width="4" height="4"/>' % (attr, _xml(k['ref']), 1 + 5 * i))
        elif k['t'] == 'svguse':
            parts.append('<use href="%s"/>' % _xml(k['ref']))
    parts.append('</svg>')
    return ''.join(parts).encode()


def _orient(it):
    return ' style="image-orientation:90deg"' if it.get('orient') else ''


def _xml(s):
    return s.replace('&', '&amp;').replace('"', '&quot;').replace('<', '&lt;')


def sheet_source(kids, tag):
    """CSS text of a sheet; starts with a long comment so that the 'trunc' mode (first 20 bytes) is an
    unterminated comment, i.e. a truncated sheet without any complete rule.  A removed reference keeps its
    rule (the declaration or the src is dropped), a removed @import disappears."""
    out = ['/* sheet %s ---------------------------------------- */' % tag.replace('*', '')]
    for k in kids:
        t = k['t']
        if t == 'rule':
            out.append('#r%d{padding-left:%dpx}' % (k['id'], 1 + k['id']))
        elif t == 'import':
            if k.get('removed'):
                continue
            target = ('url("%s")' % k['ref']) if k.get('form', 'url') == 'url' else ('"%s"' % k['ref'])
            out.append('@import %s%s;' % (target, (' ' + k['media']) if k.get('media') else ''))
        elif t == 'font':
            srcs = [s for s in k['srcs'] if not s.get('removed')]
            if srcs:
                out.append('@font-face{font-family:f%d;src:%s}' % (
                    k['id'], ','.join('url("%s")' % s['ref'] for s in srcs)))
            else:
                out.append('@font-face{font-family:f%d}' % k['id'])
        elif k.get('removed'):
            # the declaration without the image: an empty content list, no background / marker image
            out.append('#b%d::before{content:""}' % k['id'] if t == 'content' else '#b%d{}' % k['id'])
        elif t == 'bg':
            out.append('#b%d{background-image:url("%s")}' % (k['id'], k['ref']))
        elif t == 'lsi':
            out.append('#b%d{list-style-image:url("%s")}' % (k['id'], k['ref']))
        elif t == 'content':
            out.append('#b%d::before{content:url("%s")}' % (k['id'], k['ref']))
    return '\n'.join(out).encode()


def build_world(doc):
    """abs url -> (bytes, mime, kind) for everything the document can reach (also behind failures)."""
    world = {}

    def image(k):
        if k['fmt'] == 'svg':
            world[k['abs']] = (svg_source(k.get('kids', [])), MIME['svg'], 'image')
            for v in k.get('kids', []):
                vis(v)
        else:
            world[k['abs']] = (raster_bytes(k['n'], k['fmt']), MIME[k['fmt']], 'image')

    def vis(v):
        if v['t'] == 'svgimage':
            image(v)
        elif v['t'] == 'svguse':
            world[v['abs']] = (USE_TARGET, MIME['svg'], 'use')

    def sheet(kids):
        for k in kids:
            t = k['t']
            if t == 'import':
                world[k['abs']] = (sheet_source(k['kids'], k['abs'][-12:]), MIME['css'], 'sheet')
                sheet(k['kids'])
            elif t == 'font':
                for s in k['srcs']:
                    world[s['abs']] = (font_bytes(), MIME['font'], 'font')
            elif t in ('bg', 'lsi', 'content'):
                image(k)

    for it in doc['items']:
        t = it['t']
        if t == 'link':
            world[it['abs']] = (sheet_source(it['kids'], it['abs'][-12:]), MIME['css'], 'sheet')
            sheet(it['kids'])
        elif t == 'style':
            sheet(it['kids'])
        elif t in ('img', 'object', 'embed'):
            image(it)
        elif t in ('attlink', 'attanchor'):
            world[it['abs']] = (b'att:' + it['abs'].encode(), MIME['blob'], 'attach')
    for i, a in enumerate(doc.get('opt_attachments', [])):
        world[a['abs']] = (b'att:' + a['abs'].encode(), MIME['blob'], 'attach')
    return world


def doc_html(doc):
    head, body = [], []
    if doc.get('base_el'):
        head.append('<base href="%s">' % _xml(doc['base_el']))
    targets = []

    def sheet_targets(kids):
        for k in kids:
            if k['t'] == 'rule':
                targets.append('<div id="r%d">a</div>' % k['id'])
            elif k['t'] == 'import':
                sheet_targets(k['kids'])
            elif k['t'] == 'font':
                targets.append('<div><span id="f%d" style="font-family:f%d">abcd</span></div>' % (k['id'], k['id']))
            elif k['t'] == 'bg':
                targets.append('<div id="b%d" style="height:6px;width:30px"></div>' % k['id'])
            elif k['t'] == 'lsi':
                targets.append('<div id="b%d" style="display:list-item;margin-left:40px">a</div>' % k['id'])
            elif k['t'] == 'content':
                targets.append('<div id="b%d">a</div>' % k['id'])

    for it in doc['items']:
        if it.get('removed'):
            # the document without the reference: images lose the attribute, the rest loses the element
            if it['t'] == 'img':
                alt = it.get('alt')
                body.append('<div><img id="i%d"%s%s></div>' % (it['id'], '' if alt is None else ' alt="%s"' % alt, _orient(it)))
            elif it['t'] == 'object':
                body.append('<div><object id="i%d" type="%s">fb%d</object></div>' % (it['id'], MIME[it['fmt']], it['id']))
            elif it['t'] == 'embed':
                body.append('<div><embed id="i%d" type="%s"></div>' % (it['id'], MIME[it['fmt']]))
            elif it['t'] == 'attanchor':
                body.append('<div><a id="a%d">att%d</a></div>' % (it['id'], it['id']))
            elif it['t'] == 'link':
                sheet_targets(it['kids'])
            continue
        t = it['t']
        if t == 'link':
            head.append('<link rel="stylesheet" href="%s">' % _xml(it['ref']))
            sheet_targets(it['kids'])
        elif t == 'style':
            head.append('<style>%s</style>' % sheet_source(it['kids'], 'inline').decode())
            sheet_targets(it['kids'])
        elif t == 'img':
            alt = it.get('alt')
            body.append('<div><img id="i%d" src="%s"%s%s></div>' % (
                it['id'], _xml(it['ref']), '' if alt is None else ' alt="%s"' % alt, _orient(it)))
        elif t == 'object':
            body.append('<div><object id="i%d" data="%s" type="%s">fb%d</object></div>' % (
                it['id'], _xml(it['ref']), MIME[it['fmt']], it['id']))
        elif t == 'embed':
            body.append('<div><embed id="i%d" src="%s" type="%s"></div>' % (it['id'], _xml(it['ref']), MIME[it['fmt']]))
        elif t == 'attlink':
            head.append('<link rel="attachment" href="%s" title="att%d">' % (_xml(it['ref']), it['id']))
        elif t == 'attanchor':
            body.append('<div><a id="a%d" rel="attachment" href="%s">att%d</a></div>' % (it['id'], _xml(it['ref']), it['id']))
        elif t == 'nofetch':
            f, r = it['form'], _xml(it['ref'])
            if f == 'icon':
                head.append('<link rel="icon" href="%s">' % r)
            elif f == 'altsheet':
                head.append('<link rel="alternate stylesheet" href="%s">' % r)
            elif f == 'screenlink':
                head.append('<link rel="stylesheet" media="screen" href="%s">' % r)
            elif f == 'typelink':
                head.append('<link rel="stylesheet" type="text/plain" href="%s">' % r)
            elif f == 'screenimport':
                head.append('<style>@import url("%s") screen;</style>' % r)
            elif f == 'script':
                head.append('<script src="%s"></script>' % r)
            elif f == 'iframe':
                body.append('<iframe src="%s"></iframe>' % r)
            elif f == 'a':
                body.append('<div><a href="%s">x</a></div>' % r)
            elif f == 'video':
                body.append('<video src="%s" poster="%s"></video>' % (r, r))
            elif f == 'prefetch':
                head.append('<link rel="prefetch" href="%s"><link rel="preload" as="image" href="%s">' % (r, r))
    body.extend(targets)
    return ('<html><head><meta charset="utf-8">%s<style>@page{size:300px 2000px;margin:0}'
            'body{margin:0;font-size:10px;line-height:12px}</style></head><body>%s</body></html>'
            % (''.join(head), ''.join(body)))


# ------------------------------------------------------------------------------------------ the fetcher

class FetchRaised(Exception):
    pass


class _Custom(Exception):
    pass


EXC_CLASSES = [OSError, ValueError, KeyError, TimeoutError, UnicodeDecodeError, _Custom, FileNotFoundError,
               ConnectionResetError, RuntimeError, AssertionError, ZeroDivisionError, EOFError, LookupError]


class RecFile(io.BytesIO):
    """a file_obj that records an explicit close() (not the one the garbage collector performs)"""
    def __init__(self, data, rec, url):
        super().__init__(data)
        self._rec, self._url, self._in_del = rec, url, False
        rec['opened'].append(url)

    def close(self):
        if not self.closed and not self._in_del:
            self._rec['closed'].append(self._url)
        super().close()

    def __del__(self):
        self._in_del = True
        try:
            super().__del__()
        except AttributeError:
            pass


WRONG_FOR = {'image': ('css', b'/* not an image */\n#zz{color:red}\n'),
             'sheet': ('png', None), 'font': ('png', None), 'use': ('png', None), 'attach': ('png', None)}
# an ordinary error page: HTML, not well-formed XML (unclosed meta/br, bare ampersand)
HTML_404 = (b'<!DOCTYPE html><html><head><meta charset=utf-8><title>404</title></head><body><h1>Not found</h1>'
            b'<p>try again & again<br></body></html>')
# an XHTML error page: well-formed XML whose root is not <svg>
XHTML_404 = (b'<?xml version="1.0"?><html xmlns="http://www.w3.org/1999/xhtml"><head><title>404</title></head>'
             b'<body><h1>Not found</h1></body></html>')


def make_fetcher(world, fails, rec, forms=None, redirect=None):
    """fails: abs url -> mode in raise|empty|trunc|wrongtype|html ; rec collects calls/opened/closed.
    forms: abs url -> 'string' | 'file_obj' (default by hash of the url)."""
    forms = forms or {}

    def fetcher(url, *args, **kwargs):
        rec['calls'].append(url)
        if args or kwargs:
            rec['extra_args'].append((url, repr(args), repr(kwargs)))
        mode = fails.get(url)
        if url not in world:
            rec['unserved'].append(url)
            raise FetchRaised('not served from memory: %s' % url[:80])
        data, mime, kind = world[url]
        if mode == 'raise':
            cls = EXC_CLASSES[int(hashlib.md5(url.encode()).hexdigest(), 16) % len(EXC_CLASSES)]
            if cls is UnicodeDecodeError:
                raise UnicodeDecodeError('utf-8', b'\xff', 0, 1, 'injected')
            raise cls('injected failure')
        if mode == 'empty':
            data = b''
        elif mode == 'trunc':
            data = data[:20] if kind == 'sheet' else data[:7]
        elif mode == 'wrongtype':
            ext, payload = WRONG_FOR[kind]
            data = payload if payload is not None else raster_bytes(90)
            mime = MIME[ext]
        elif mode == 'html':
            data, mime = HTML_404, 'text/html'
        elif mode == 'xhtml':
            data, mime = XHTML_404, 'application/xhtml+xml'
        form = forms.get(url) or ('file_obj' if int(hashlib.md5(url.encode()).hexdigest()[:4], 16) % 2 else 'string')
        res = {'mime_type': mime}
        if form == 'file_obj':
            res['file_obj'] = RecFile(data, rec, url)
        else:
            res['string'] = data
        if redirect and url in redirect:
            res['redirected_url'] = redirect[url]
        return res
    return fetcher


def new_rec():
    return {'calls': [], 'opened': [], 'closed': [], 'unserved': [], 'extra_args': []}


# ------------------------------------------------------------------------------------------ observation

class _Logs(logging.Handler):
    def __init__(self):
        super().__init__(level=logging.DEBUG)
        self.records = []

    def emit(self, r):
        try:
            self.records.append((r.levelname, r.getMessage()[:400]))
        except Exception as exc:
            self.records.append((r.levelname, 'unformattable: %r %r (%s)' % (r.msg, r.args, exc)))


class capture_logs:
    def __enter__(self):
        self.h = _Logs()
        self.lg = logging.getLogger('weasyprint')
        self.old_level, self.old_disabled = self.lg.level, self.lg.disabled
        self.lg.setLevel(logging.DEBUG)
        self.lg.addHandler(self.h)
        return self.h

    def __exit__(self, *a):
        self.lg.removeHandler(self.h)
        self.lg.setLevel(self.old_level)


def _num(x):
    return round(x, 4) if isinstance(x, (int, float)) else repr(x)


def fingerprint(document):
    """layout + style fingerprint of every box of every page: type, tag, id, geometry, text, a few computed
    properties, replaced image identity (class + intrinsic size), background images, border image."""
    from weasyprint.formatting_structure import boxes
    out = []

    def img_id(image):
        if image is None:
            return None
        return [type(image).__name__, _num(getattr(image, 'width', None)), _num(getattr(image, 'height', None))]

    def walk(box, depth):
        st = box.style
        rec = [depth, type(box).__name__, box.element_tag,
               box.element.get('id') if box.element is not None else None,
               _num(box.position_x), _num(box.position_y), _num(getattr(box, 'width', None)),
               _num(getattr(box, 'height', None)),
               _num(getattr(box, 'padding_left', None)),
               getattr(box, 'text', None),
               ','.join(st['font_family']) if st is not None else None]
        if isinstance(box, boxes.ReplacedBox):
            rec.append(['replaced', img_id(box.replacement)])
        bg = getattr(box, 'background', None)
        if bg is not None:
            rec.append(['bg', [img_id(l.image) for l in bg.layers]])
        if getattr(box, 'border_image', None) is not None:
            rec.append(['border-image', img_id(box.border_image)])
        out.append(rec)
        for c in getattr(box, 'children', ()) or ():
            walk(c, depth + 1)

    for page in document.pages:
        walk(page._page_box, 0)
    return out


def observe_effects(document, doc):
    """per item id: what the layout shows.  rules: applied?; images: image|alt|fallback|none;
    css images: image|none; fonts: loaded?"""
    from weasyprint.formatting_structure import boxes
    byid = {}

    def walk(box, parents):
        if box.element is not None and box.element.get('id'):
            byid.setdefault(box.element.get('id'), []).append(box)
        for c in getattr(box, 'children', ()) or ():
            walk(c, parents)

    for page in document.pages:
        walk(page._page_box, ())
    eff = {}

    def texts(box):
        if isinstance(box, boxes.TextBox):
            return box.text
        return ''.join(texts(c) for c in getattr(box, 'children', ()) or ())

    def has_replaced(box):
        if isinstance(box, boxes.ReplacedBox):
            return True
        return any(has_replaced(c) for c in getattr(box, 'children', ()) or ())

    def sheet(kids):
        for k in kids:
            t = k['t']
            if t == 'rule':
                bs = byid.get('r%d' % k['id'], [])
                eff['r%d' % k['id']] = 'applied' if bs and abs(bs[0].padding_left - (1 + k['id'])) < 1e-6 else 'no'
            elif t == 'import':
                sheet(k['kids'])
            elif t == 'font':
                bs = byid.get('f%d' % k['id'], [])
                w = sum(b.width for b in bs if isinstance(b, boxes.InlineBox))
                eff['f%d' % k['id']] = 'loaded' if bs and abs(w - 40) < 1e-3 else 'fallback'
            elif t == 'bg':
                bs = byid.get('b%d' % k['id'], [])
                got = any(getattr(b, 'background', None) is not None and
                          any(l.image is not None for l in b.background.layers) for b in bs)
                eff['b%d' % k['id']] = 'image' if got else 'none'
            elif t in ('lsi', 'content'):
                bs = byid.get('b%d' % k['id'], [])
                eff['b%d' % k['id']] = 'image' if any(has_replaced(b) for b in bs) else 'none'

    for it in doc['items']:
        t = it['t']
        if t in ('link', 'style'):
            sheet(it['kids'])
        elif t in ('img', 'object', 'embed'):
            bs = byid.get('i%d' % it['id'], [])
            if any(isinstance(b, boxes.ReplacedBox) for b in bs):
                eff['i%d' % it['id']] = 'image'
            elif bs and texts(bs[0]):
                eff['i%d' % it['id']] = 'alt' if t == 'img' else 'fallback'
            else:
                eff['i%d' % it['id']] = 'none'
    return eff


def pdf_facts(pdf_bytes):
    """image XObject sizes and embedded file payloads of the written PDF (independent reader)."""
    import pdfread
    d = pdfread.parse(pdf_bytes)
    images, files = [], []
    for num, obj in d.objects.items():
        if isinstance(obj, pdfread.StreamObj):
            dic = obj.dict
            if dic.get('Subtype') == 'Image' and 'SMask' not in dic and dic.get('ColorSpace') != 'DeviceGray':
                images.append([dic.get('Width'), dic.get('Height')])
            elif dic.get('Subtype') == 'Image':
                images.append([dic.get('Width'), dic.get('Height')])
            if dic.get('Type') == 'EmbeddedFile':
                data = d.stream_data(obj)
                files.append(data.decode('latin1') if data is not None else None)
    annots = sum(1 for o in d.objects.values() if isinstance(o, dict) and o.get('Subtype') == 'FileAttachment')
    return {'images': sorted(images), 'files': sorted(f or '' for f in files), 'file_annots': annots,
            'problems': d.problems[:3]}


# ------------------------------------------------------------------------------------------ the render case

def _allowed_open(path):
    """files the library may open without the fetcher: fonts + fontconfig, ICC profile, python/pyphen/pillow
    package data, bytecode caches, its own private temp dir for fonts, /dev/urandom & friends."""
    if not isinstance(path, str):
        return isinstance(path, int)       # an already-open descriptor
    p = os.path.realpath(path) if path.startswith('/') else path
    if p.endswith(('.pyc', '.py', '.so', '.pth')) or '/__pycache__' in p:
        return True
    pref = (sys.prefix, sys.base_prefix, '/usr/lib/python', '/usr/local/lib/python', '/venv/',
            '/usr/share/fonts', '/usr/local/share/fonts', '/etc/fonts', '/usr/share/fontconfig', '/var/cache/fontconfig',
            os.path.expanduser('~/.cache/fontconfig'), os.path.expanduser('~/.fonts'),
            os.path.expanduser('~/.local/share/fonts'), os.path.expanduser('~/.config/fontconfig'),
            '/dev/urandom', '/dev/null', '/proc/self', '/usr/share/zoneinfo', '/etc/localtime',
            '/usr/share/mime', '/etc/mime.types', '/usr/share/color', REPO + '/weasyprint/')
    if any(p.startswith(x) for x in pref):
        return True
    import tempfile
    t = tempfile.gettempdir()
    if p.startswith(os.path.join(t, 'weasyprint-')) or p == t:
        return True
    if p.startswith(os.path.join(os.path.realpath(t), 'c20-cache-')) or p.startswith(os.path.join(t, 'c20-cache-')):
        return True                # the cache folder the CALLER named with the cache option
    return False


def judge_audit(events):
    bad = []
    cleaning = False
    for stage, ev, a0, extra in events:
        if ev == 'shutil.rmtree' and _allowed_open(a0):
            cleaning = True           # FontConfiguration.__del__ removes its private font directory
            continue
        if cleaning and ev in ('os.remove', 'os.rmdir', 'os.scandir', 'os.listdir', 'open') and (
                isinstance(a0, int) or (isinstance(a0, str) and '/' not in a0 and isinstance(extra, int) and extra >= 0)):
            continue                  # rmtree works relative to directory descriptors
        if ev in ('open', 'os.scandir', 'os.listdir', 'os.mkdir', 'os.remove', 'os.rmdir', 'os.rename', 'shutil.rmtree',
                  'tempfile.mkdtemp', 'tempfile.mkstemp', 'glob.glob', 'pathlib.Path.glob'):
            if ev in ('tempfile.mkdtemp', 'tempfile.mkstemp'):
                continue            # a0 is the suffix/prefix, the directory shows up in os.mkdir / open
            if ev == 'open' and a0 in ('', None):
                continue
            if ev in ('os.listdir', 'os.scandir') and isinstance(a0, str) and (
                    a0 in sys.path or os.path.realpath(a0) in [os.path.realpath(x or '.') for x in sys.path]):
                continue            # importlib's FileFinder looking for a module imported lazily
            if not _allowed_open(a0):
                bad.append([stage, ev, a0, extra if isinstance(extra, (str, int, type(None))) else repr(extra)])
        else:
            bad.append([stage, ev, a0, extra if isinstance(extra, (str, int, type(None))) else repr(extra)])
    return bad


_SHARED_CACHE = {}


def render_case(case):
    """case: {doc, fails:{abs:mode}, options:{...}, forms, redirect, second_render:bool}
    returns everything observable: calls, closes, logs, effects, fingerprint hash (+ full fingerprint on
    request), pdf facts, audit violations, and the stage + type of any exception."""
    install_audit()
    import weasyprint
    from weasyprint import HTML, Attachment
    doc = case['doc']
    world = build_world(doc)
    rec = new_rec()
    fetcher = make_fetcher(world, case.get('fails', {}), rec, case.get('forms'), case.get('redirect'))
    html = doc_html(doc)
    opts = dict(case.get('options', {}))
    cache_mode = opts.pop('cache_mode', None)
    cache, folder, alive = None, None, []
    import tempfile, shutil
    if cache_mode == 'dict':
        cache = {}
    elif cache_mode in ('folder', 'folder-shared'):
        folder = tempfile.mkdtemp(prefix='c20-cache-')
        cache = folder                     # a new DiskCache(folder) per render
    elif cache_mode == 'diskcache':
        from weasyprint.document import DiskCache
        folder = tempfile.mkdtemp(prefix='c20-cache-')
        cache = DiskCache(folder)          # one instance shared by the renders
    if cache is not None:
        opts['cache'] = cache
    def fresh_attachments():
        # an Attachment object is consumed by one write_pdf (its source is a one-shot context manager)
        att = []
        for a in doc.get('opt_attachments', []):
            if a.get('removed'):
                continue
            att.append(Attachment(url=a['abs'], url_fetcher=fetcher) if a.get('as') == 'object' else a['abs'])
        if att:
            opts['attachments'] = att
    fresh_attachments()
    res = {'html': html if case.get('want_html') else None, 'stage': None, 'exc': None}
    _AUDIT['events'] = []
    with capture_logs() as logs:
        try:
            _AUDIT['stage'] = 'render'
            _AUDIT['on'] = True
            try:
                h = HTML(string=html, base_url=doc['base'], url_fetcher=fetcher)
                document = h.render(**opts)
            finally:
                _AUDIT['on'] = False
            ncalls_render = len(rec['calls'])
            res['effects'] = observe_effects(document, doc)
            fp = fingerprint(document)
            res['fp'] = hashlib.sha1(json.dumps(fp, default=str).encode()).hexdigest()
            if case.get('want_fp'):
                res['fp_full'] = fp
            _AUDIT['stage'] = 'write_pdf'
            _AUDIT['on'] = True
            try:
                pdf = document.write_pdf(**opts)
            finally:
                _AUDIT['on'] = False
            res['calls_render'] = rec['calls'][:ncalls_render]
            res['calls_write'] = rec['calls'][ncalls_render:]
            res['pdf'] = pdf_facts(pdf)
            res['calls'] = list(rec['calls'])
            alive.append(document)     # the first render stays alive: no dependence on when its cache is collected
            if case.get('second_render') and cache is not None:
                # second render + write_pdf with the same dict / DiskCache instance / folder
                n0 = len(rec['calls'])
                fresh_attachments()
                _AUDIT['stage'] = 'second'
                _AUDIT['on'] = True
                try:
                    document2 = HTML(string=html, base_url=doc['base'], url_fetcher=fetcher).render(**opts)
                    alive.append(document2)
                    fp2 = fingerprint(document2)
                    pdf2 = document2.write_pdf(**opts)
                finally:
                    _AUDIT['on'] = False
                res['calls_second'] = rec['calls'][n0:]
                res['fp_second'] = hashlib.sha1(json.dumps(fp2, default=str).encode()).hexdigest()
                res['pdf_second'] = pdf_facts(pdf2)
        except BaseException as exc:   # noqa
            import traceback
            _AUDIT['on'] = False
            tb = traceback.extract_tb(exc.__traceback__)
            site = None
            for fr in reversed(tb):
                if '/weasyprint/' in fr.filename:
                    site = '%s:%s' % (os.path.relpath(fr.filename, REPO), fr.name)
                    break
            res['exc'] = {'type': type(exc).__name__, 'msg': str(exc)[:200], 'stage': _AUDIT['stage'], 'site': site}
    res.setdefault('calls', list(rec['calls']))
    res['opened'], res['closed'] = rec['opened'], rec['closed']
    res['unserved'], res['extra_args'] = rec['unserved'], rec['extra_args']
    res['logs'] = [l for l in logs.records if l[0] in ('WARNING', 'ERROR', 'CRITICAL')]
    res['debug_logs'] = [l for l in logs.records if l[0] == 'DEBUG'][:60]
    res['audit_bad'] = judge_audit(_AUDIT['events'])
    res['audit_n'] = len(_AUDIT['events'])
    del alive[:]
    cache = None
    opts.pop('cache', None)
    if folder:
        shutil.rmtree(folder, ignore_errors=True)
    return res


# ------------------------------------------------------------------------------------------ direct calls

def url_join_direct(case):
    """case: {base: str|None, ref: str, allow: bool} -> the real url_join's result (None when dropped)"""
    from weasyprint import urls
    return urls.url_join(case['base'], case['ref'], case['allow'], 'c20 %s', ('x',))


def url_abs_direct(case):
    from weasyprint import urls
    return [bool(urls.url_is_absolute(case['s'])), urls.iri_to_uri(case['s'])]


class _MyErr(Exception):
    pass


_EXC = {'OSError': OSError, 'ValueError': ValueError, 'KeyError': KeyError, 'TimeoutError': TimeoutError,
        'FileNotFoundError': FileNotFoundError, 'ConnectionResetError': ConnectionResetError,
        'RuntimeError': RuntimeError, 'AssertionError': AssertionError, 'ZeroDivisionError': ZeroDivisionError,
        'EOFError': EOFError, 'LookupError': LookupError, 'TypeError': TypeError, 'AttributeError': AttributeError,
        'MemoryError': MemoryError, 'RecursionError': RecursionError, 'StopIteration': StopIteration,
        'UnicodeError': UnicodeError, '_MyErr': _MyErr, 'NotImplementedError': NotImplementedError,
        'KeyboardInterrupt': KeyboardInterrupt, 'SystemExit': SystemExit, 'GeneratorExit': GeneratorExit,
        'IncompleteRead': __import__('http.client').client.IncompleteRead, 'zliberror': zlib.error}

GOOD = {0: lambda: raster_bytes(5), 1: lambda: b'p{color:red}', 2: lambda: b'p{color:red}',
        3: font_bytes, 4: lambda: b'payload',
        5: lambda: b'<svg xmlns="http://www.w3.org/2000/svg"><rect id="a" width="5" height="5"/></svg>'}


class _EvFile:
    def __init__(self, data, read_exc, close_raises, events):
        self._b, self._read_exc, self._close_raises, self._ev = io.BytesIO(data), read_exc, close_raises, events
        self._read_seen = False

    def read(self, *a):
        if not self._read_seen:
            self._ev.append(['read', 1])
            self._read_seen = True
        if self._read_exc:
            raise _EXC[self._read_exc]('read failed')
        return self._b.read(*a)

    def close(self):
        self._ev.append(['closed', 1])
        if self._close_raises:
            raise OSError('close failed')


def consume_direct(case):
    """one real consumer against one described fetcher answer; see C20Fetch.consume_judge"""
    import pydyf
    from weasyprint import CSS, Attachment, DEFAULT_OPTIONS, HTML
    from weasyprint.images import get_image_from_uri
    from weasyprint.css import find_stylesheets
    from weasyprint.text.fonts import FontConfiguration
    from weasyprint.pdf.anchors import write_pdf_attachment
    k, fr = case['consumer'], case['fret']
    events = []
    URL = 'http://x/u'

    def fetcher(url):
        events.append(['called', 'u' if url in (URL, URL + '#a') else url])
        if fr['t'] == 'raise':
            raise _EXC[fr['cls']](fr.get('msg', 'boom'))
        if fr['t'] == 'notdict':
            return {'none': None, 'list': [], 'str': 'text', 'int': 3}[fr['v']]
        d = {}
        if fr.get('string'):
            d['string'] = GOOD[k]()
        if fr.get('file'):
            f = fr['file']
            d['file_obj'] = _EvFile(GOOD[k](), None if f['read'] == 'ok' else f['read'], f.get('close_raises'), events)
        if fr.get('mime', 'absent') != 'absent':
            d['mime_type'] = fr['mime']
        if fr.get('redirected'):
            d['redirected_url'] = fr['redirected']
        return d

    code, name = None, ''
    with capture_logs() as logs:
        try:
            if k == 0:
                img = get_image_from_uri(cache={}, url_fetcher=fetcher, options=DEFAULT_OPTIONS, url=URL)
                code = 0 if img is not None else 1
            elif k == 1:
                h = HTML(string='<link rel=stylesheet href="%s">' % URL, base_url='http://x/', url_fetcher=fetcher)
                sheets = list(find_stylesheets(h.wrapper_element, 'print', fetcher, h.base_url, None, None, []))
                code = 0 if any(_matcher_rules(s.matcher) for s in sheets) else 1
            elif k == 2:
                css = CSS(string='@import url(%s);' % URL, url_fetcher=fetcher, base_url='http://x/')
                code = 0 if _matcher_rules(css.matcher) else 1
            elif k == 3:
                fc = FontConfiguration()
                fc.add_font_face({'src': [('external', URL)], 'font_family': 'fz%d' % case.get('n', 0)}, fetcher)
                failed = any('cannot be loaded' in m for _, m in logs.records)
                code = 1 if failed else 0
            elif k == 4:
                r = write_pdf_attachment(pydyf.PDF(), Attachment(url=URL, url_fetcher=fetcher), False)
                code = 0 if r is not None else 1
            else:
                from xml.etree import ElementTree
                from weasyprint.svg import SVG
                from weasyprint.svg.defs import get_use_tree
                tree = ElementTree.fromstring(
                    '<svg xmlns="http://www.w3.org/2000/svg"><use href="%s#a"/></svg>' % URL)
                svg = SVG(tree, 'http://x/doc.svg', fetcher)
                svg.url_fetcher = fetcher      # what SVG.draw() sets before drawing
                node = next(iter(svg.tree))
                r = get_use_tree(svg, node, 12)
                code = 0 if r is not None else 1
        except BaseException as exc:   # noqa
            code, name = 2, type(exc).__name__
    evs = []
    for e in events:
        evs.append(e)
    if any('Error when closing stream' in m for _, m in logs.records):
        evs.append(['closewarning', 'u'])
    logged = any(lv in ('ERROR', 'WARNING') or (k == 3 and 'Failed to load font' in m) for lv, m in logs.records
                 if 'Error when closing stream' not in m)
    return {'code': code, 'name': name, 'events': evs, 'logged': logged,
            'logs': [(lv, m[:120]) for lv, m in logs.records if lv != 'DEBUG'][:5]}


def _matcher_rules(m):
    for attr in ('id_selectors', 'class_selectors', 'lower_local_name_selectors', 'namespace_selectors', 'other_selectors'):
        v = getattr(m, attr, None)
        if v:
            return True
    return False


# ------------------------------------------------------------------------------------------ dedicated probes

def _replaced_or_text(document):
    from weasyprint.formatting_structure import boxes
    out = []

    def w(b):
        if isinstance(b, boxes.ReplacedBox):
            out.append(['replaced', type(b.replacement).__name__])
        if isinstance(b, boxes.TextBox):
            out.append(['text', b.text])
        for c in getattr(b, 'children', ()) or ():
            w(c)
    for p in document.pages:
        w(p._page_box)
    return out


def probe(case):
    """one hand-made situation per name; returns {bad: str|None, ...facts}.  `bad` describes how the property
    fails on it (None = holds)."""
    import gzip
    install_audit()
    from weasyprint import HTML
    from weasyprint.urls import StreamingGzipFile
    name = case['name']
    rec = new_rec()
    png = raster_bytes(5)
    facts = {'name': name, 'bad': None}
    opts = dict(case.get('options', {}))

    def serve(table, default=None):
        def f(url):
            rec['calls'].append(url)
            v = table.get(url, default)
            if v is None:
                raise FetchRaised('not served: ' + url)
            v = v() if callable(v) else v
            return dict(v)
        return f

    def run(html, fetcher, base='http://x/dir/doc.html'):
        _AUDIT['events'] = []
        stage = 'render'
        with capture_logs() as logs:
            try:
                _AUDIT['stage'], _AUDIT['on'] = 'render', True
                try:
                    document = HTML(string=html, base_url=base, url_fetcher=fetcher).render(**opts)
                finally:
                    _AUDIT['on'] = False
                facts['boxes'] = _replaced_or_text(document)
                stage = 'write_pdf'
                _AUDIT['stage'], _AUDIT['on'] = 'write_pdf', True
                try:
                    pdf = document.write_pdf(**opts)
                finally:
                    _AUDIT['on'] = False
                facts['pdf'] = pdf_facts(pdf)
            except BaseException as exc:   # noqa
                _AUDIT['on'] = False
                facts['exc'] = {'type': type(exc).__name__, 'msg': str(exc)[:200], 'stage': stage}
        facts['calls'] = list(rec['calls'])
        facts['logs'] = [l for l in logs.records if l[0] in ('WARNING', 'ERROR')][:6]
        facts['audit_bad'] = judge_audit(_AUDIT['events'])

    if name in ('lazy-local', 'lazy-local-redirect'):
        ghost = 'file:///nonexistent-c20/dir/ghost.png'
        if name == 'lazy-local':
            run('<img src="%s" alt="A">' % ghost, serve({ghost: {'string': png, 'mime_type': 'image/png'}}))
        else:
            run('<img src="http://x/a.png" alt="A">',
                serve({'http://x/a.png': {'string': png, 'mime_type': 'image/png', 'redirected_url': ghost}}))
        if facts.get('exc'):
            facts['bad'] = 'the image served by the fetcher is read again from the local path at %s: %s %s' % (
                facts['exc']['stage'], facts['exc']['type'], facts['exc']['msg'])
        elif facts['audit_bad']:
            facts['bad'] = 'opened behind the fetcher: %s' % facts['audit_bad'][:2]
        elif [7, 3] not in facts['pdf']['images']:
            facts['bad'] = 'the fetched bytes are not the image of the PDF'
    elif name == 'lazy-local-shadow':
        # the URL names a file that EXISTS, the caller's fetcher answers it from memory with other bytes (another
        # size, or - 'same_size' - the same number of bytes): the image of the document is the fetched one
        import tempfile
        with tempfile.TemporaryDirectory() as folder:
            path = os.path.join(folder, 'shadow.png')
            other = raster_bytes(9)
            if case.get('same_size'):
                other = other + b'\0' * max(0, len(png) - len(other))
                served = png + b'\0' * max(0, len(other) - len(png))
            else:
                other, served = other + b'\0' * 40, png
            with open(path, 'wb') as fd:
                fd.write(other)
            url = 'file://' + path
            key = 'string' if case.get('how', 'string') == 'string' else 'file_obj'
            answer = ({'string': served, 'mime_type': 'image/png'} if key == 'string' else
                      (lambda: {'file_obj': io.BytesIO(served), 'mime_type': 'image/png'}))
            run('<img src="%s" alt="A">' % url, serve({url: answer}))
        facts['sizes'] = [len(served), len(other)]
        if facts.get('exc'):
            facts['bad'] = 'raised at %s: %s %s' % (facts['exc']['stage'], facts['exc']['type'], facts['exc']['msg'])
        elif facts['audit_bad']:
            facts['bad'] = ('the image the fetcher answered from memory is read again from the file of that name when the '
                            'PDF is written (opened behind the fetcher: %s)' % (facts['audit_bad'][:2],))
        elif facts['calls'].count(url) != 1:
            facts['bad'] = 'fetcher calls: %s' % (facts['calls'],)
    elif name == 'xhtml-image':
        run('<p>before</p><img src="http://x/a.png" alt="ALT TEXT"><p>after</p>',
            serve({'http://x/a.png': {'string': XHTML_404, 'mime_type': case.get('mime', 'text/html')}}))
        if facts.get('exc'):
            facts['bad'] = 'raised %s' % facts['exc']
        elif ['text', 'ALT TEXT'] not in facts['boxes']:
            facts['bad'] = 'an XHTML error page served for <img> is shown as an image (%s), the alt text is lost, logs: %s' % (
                [b for b in facts['boxes'] if b[0] == 'replaced'], facts['logs'])
        elif not facts['logs']:
            facts['bad'] = 'not logged'
    elif name == 'svg-style-import':
        svg = (b'<svg xmlns="http://www.w3.org/2000/svg" width="10" height="10"><style>@import url(s.css); '
               b'rect{fill:red}</style><rect width="5" height="5"/></svg>')
        run('<img src="http://x/dir/a.svg" alt="ALT">',
            serve({'http://x/dir/a.svg': {'string': svg, 'mime_type': 'image/svg+xml'},
                   'http://x/dir/s.css': {'string': b'rect{fill:blue}', 'mime_type': 'text/css'}}))
        if facts.get('exc'):
            facts['bad'] = 'raised %s' % facts['exc']
        elif ['replaced', 'SVGImage'] not in facts['boxes']:
            facts['bad'] = 'an SVG whose <style> has an @import does not load at all: %s' % (facts['logs'],)
        elif 'http://x/dir/s.css' not in facts['calls']:
            facts['bad'] = 'the imported sheet is not requested from the fetcher'
    elif name == 'svg-use-external':
        svg = b'<svg xmlns="http://www.w3.org/2000/svg" width="10" height="10"><use href="o.svg#a"/></svg>'
        other = b'<svg xmlns="http://www.w3.org/2000/svg"><rect id="a" width="5" height="5" fill="red"/></svg>'
        run('<img src="http://x/dir/a.svg" alt="ALT">',
            serve({'http://x/dir/a.svg': {'string': svg, 'mime_type': 'image/svg+xml'},
                   'http://x/dir/o.svg#a': lambda: {'file_obj': RecFile(other, rec, 'o.svg'), 'mime_type': 'image/svg+xml'}}))
        facts['closed'] = rec['closed']
        if facts.get('exc'):
            facts['bad'] = 'raised %s' % facts['exc']
        elif 'http://x/dir/o.svg#a' in facts['calls'] and 'o.svg' not in rec['closed']:
            facts['bad'] = 'external <use>: the fetcher is called directly, its file_obj is never closed, the answer is unusable and nothing is logged (%s)' % (facts['logs'],)
    elif name == 'css-import-cycle':
        run('<link rel=stylesheet href="http://x/a.css"><p>a</p>',
            serve({}, default={'string': b'@import url(http://x/a.css); p{color:red}', 'mime_type': 'text/css'}))
        if facts.get('exc'):
            facts['bad'] = 'a sheet importing itself: %s out of %s' % (facts['exc']['type'], facts['exc']['stage'])
        facts['calls'] = facts['calls'][:5]
    elif name == 'gzip-truncated-body':
        gz = gzip.compress(png)
        run('<img src="http://x/a.png" alt="ALT">',
            serve({'http://x/a.png': lambda: {'file_obj': StreamingGzipFile(io.BytesIO(gz[:30])), 'mime_type': 'image/png'}}))
        if facts.get('exc'):
            facts['bad'] = 'truncated gzip body: %s out of %s' % (facts['exc']['type'], facts['exc']['stage'])
    elif name == 'damaged-image-body':
        from PIL import Image
        b = io.BytesIO()
        img = Image.effect_noise((64, 64), 50).convert('RGB')
        img.save(b, 'PNG' if case['fmt'] == 'png' else 'JPEG')
        data = b.getvalue()
        data = data[:len(data) * 6 // 10] if case['how'] == 'cut' else data[:120] + bytes(60) + data[180:]
        run('<img src="http://x/a.img" alt="ALT" style="width:20px"><div style="background:url(http://x/a.img);height:9px"></div>',
            serve({'http://x/a.img': {'string': data, 'mime_type': 'image/png'}}))
        if facts.get('exc'):
            facts['bad'] = 'damaged %s body with %s: %s' % (case['fmt'], opts, facts['exc'])
        elif facts['audit_bad']:
            facts['bad'] = 'opened behind the fetcher: %s' % facts['audit_bad'][:2]
    elif name == 'redirected-sheet-base':
        # the base of a redirected sheet is where it was found
        run('<link rel=stylesheet href="http://x/dir/s.css"><div id=b1 style="height:5px"></div>',
            serve({'http://x/dir/s.css': {'string': b'#b1{background:url(p.png)}', 'mime_type': 'text/css',
                                          'redirected_url': 'http://other/deep/er/s.css'},
                   'http://other/deep/er/p.png': {'string': png, 'mime_type': 'image/png'}}))
        if facts.get('exc'):
            facts['bad'] = 'raised %s' % facts['exc']
        elif sorted(facts['calls']) != ['http://other/deep/er/p.png', 'http://x/dir/s.css']:
            facts['bad'] = 'references of a redirected sheet are not resolved against redirected_url: %s' % facts['calls']
    elif name == 'no-base-url':
        run('<link rel=stylesheet href="s.css"><img src="p.png" alt="ALT"><style>@import "i.css"; #b{background:url(q.png)}</style>'
            '<div id=b>a</div><img src="http://x/ok.png">',
            serve({'http://x/ok.png': {'string': png, 'mime_type': 'image/png'}}), base=None)
        if facts.get('exc'):
            facts['bad'] = 'raised %s' % facts['exc']
        elif facts['calls'] != ['http://x/ok.png']:
            facts['bad'] = 'relative references without a base URL reach the fetcher: %s' % facts['calls']
        elif sum(1 for _, t in facts['logs'] if 'Relative URI reference without a base URI' in t) < 3:
            facts['bad'] = 'dropped relative references are not logged: %s' % facts['logs']
    elif name == 'default-fetcher-not-used':
        # a custom fetcher that fails for everything: nothing may fall back to urllib / files
        run('<link rel=stylesheet href="file:///etc/hostname"><img src="file:///etc/passwd" alt=A>'
            '<img src="http://127.0.0.1:9/x.png"><link rel=attachment href="file:///etc/hostname">'
            '<style>@import "file:///etc/hostname";'
            '@font-face{font-family:zz;src:url(file:///usr/share/fonts/truetype/dejavu/DejaVuSans.ttf)}'
            '</style><p style="font-family:zz">a</p>', serve({}))
        if facts.get('exc'):
            facts['bad'] = 'raised %s' % facts['exc']
        elif facts['audit_bad']:
            facts['bad'] = 'opened behind the fetcher: %s' % facts['audit_bad'][:3]
        elif len(facts['calls']) != 6:
            facts['bad'] = 'expected 6 fetcher calls, got %s' % facts['calls']
    else:
        raise ValueError(name)
    facts.pop('pdf', None)
    return facts


# ------------------------------------------------------------------------------------------ DiskCache, direct

class _CObj:
    def __init__(self, n):
        self.n = n


def diskcache_ops(case):
    """case: {ops: [['set', key, ['b', text] | ['o', n|None]] | ['get', key] | ['in', key] | ['reopen']]}
    run on a real weasyprint.document.DiskCache in a temporary folder (every instance is kept alive until
    the end, so __del__ plays no part); returns one observation per operation."""
    import tempfile, shutil
    from weasyprint.document import DiskCache
    folder = tempfile.mkdtemp(prefix='c20-cache-')
    instances = [DiskCache(folder)]
    out = []
    try:
        for op in case['ops']:
            c = instances[-1]
            if op[0] == 'set':
                kind, v = op[2]
                c[op[1]] = v.encode() if kind == 'b' else (None if v is None else _CObj(v))
                out.append(['set'])
            elif op[0] == 'get':
                try:
                    v = c[op[1]]
                except Exception as exc:   # noqa
                    out.append(['get', 'err:' + type(exc).__name__])
                    continue
                if isinstance(v, bytes):
                    out.append(['get', ['b', v.decode()]])
                elif v is None:
                    out.append(['get', ['o', None]])
                elif isinstance(v, _CObj):
                    out.append(['get', ['o', v.n]])
                else:
                    out.append(['get', 'other:' + repr(v)[:40]])
            elif op[0] == 'in':
                out.append(['in', bool(op[1] in c)])
            elif op[0] == 'reopen':
                instances.append(DiskCache(folder))
                out.append(['set'])
    finally:
        del instances[:]
        shutil.rmtree(folder, ignore_errors=True)
    return out
