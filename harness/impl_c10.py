"""Implementation-side functions for C10 (tables); run in worker processes, weasyprint imported from REPO."""
from fractions import Fraction
from types import SimpleNamespace


def F(x):
    return Fraction(x)


def _strs(l):
    return [str(x) for x in l]


# ------------------------------------------------------------------ direct: distribute_excess_width

def dist(case):
    """case: e, cols=[[cell, cons, pct, max, w], ...], start, stop (None = open), alias (bool: the widths list IS
    the max-content list, as in the second call of preferred.py).  Returns the widths after the call."""
    from weasyprint.layout.table import distribute_excess_width
    cols = case['cols']
    grid = [((object(),) if c[0] else ()) for c in cols]
    cons = [bool(c[1]) for c in cols]
    pct = [F(c[2]) for c in cols]
    mx = [F(c[3]) for c in cols]
    w = mx if case.get('alias') else [F(c[4]) for c in cols]
    sl = slice(case['start'], case['stop'])
    distribute_excess_width(None, grid, F(case['e']), w, cons, pct, mx, sl)
    return _strs(w)


# ------------------------------------------------------------------ direct: fixed_table_layout

class _Hashable:
    pass


def _dim(d):
    from weasyprint.css.properties import Dimension
    if d == 'auto':
        return 'auto'
    unit, v = d
    return Dimension(F(v), unit)


def _px(v):
    from weasyprint.css.properties import Dimension
    return Dimension(F(v), 'px')


def fixed(case):
    """case: W, spacing, collapse, cols=[decl...], cells=[{span, width: decl, pl, pr, bl, br}] (first row; None = no row)
    decl = 'auto' | ['px', v] | ['%', v].  Returns [table.width, [column widths]]."""
    from weasyprint.layout import table as T
    from weasyprint.formatting_structure import boxes
    table = object.__new__(boxes.TableBox)
    table.width = F(case['W'])
    table.height = 'auto'
    table.style = {'border_collapse': 'collapse' if case['collapse'] else 'separate',
                   'border_spacing': (F(case['spacing']), F(0))}
    columns = []
    for d in case['cols']:
        c = object.__new__(boxes.TableColumnBox)
        c.style = {'width': _dim(d)}
        columns.append(c)
    group = SimpleNamespace(children=columns)
    table.column_groups = (group,) if columns else ()
    if case['cells'] is None:
        table.children = []
    else:
        cells = []
        for cd in case['cells']:
            cell = object.__new__(boxes.TableCellBox)
            cell.colspan = cd['span']
            z = _px(0)
            cell.style = {
                'margin_left': z, 'margin_right': z, 'margin_top': z, 'margin_bottom': z,
                'padding_left': _px(cd['pl']), 'padding_right': _px(cd['pr']), 'padding_top': z, 'padding_bottom': z,
                'width': _dim(cd['width']), 'min_width': 'auto', 'max_width': _px(10 ** 9),
                'height': 'auto', 'min_height': 'auto', 'max_height': _px(10 ** 9),
                'border_collapse': 'separate', 'box_sizing': 'content-box',
                'border_left_width': F(cd['bl']), 'border_right_width': F(cd['br']),
                'border_top_width': F(0), 'border_bottom_width': F(0)}
            cells.append(cell)
        row = SimpleNamespace(children=cells)
        table.children = [SimpleNamespace(children=[row])]
    wrapper = SimpleNamespace(get_wrapped_table=lambda: table)
    T.fixed_table_layout(wrapper)
    return [str(table.width), _strs(table.column_widths)]


# ------------------------------------------------------------------ direct: auto_table_layout

def auto(case):
    """case: tw ('auto'|value), cb, ml, mr ('auto'|value), pl, pr, bl, br,
    oracle: tmin, tmax, cols=[[cell, cons, pct, max, min], ...], ths.
    Returns [table.width, [column widths]]."""
    from weasyprint.layout import table as T
    table = _Hashable()
    table.width = 'auto' if case['tw'] == 'auto' else F(case['tw'])
    table.padding_left, table.padding_right = F(case['pl']), F(case['pr'])
    table.border_left_width, table.border_right_width = F(case['bl']), F(case['br'])
    cols = case['cols']
    grid = [((object(),) if c[0] else ()) for c in cols]
    oracle = (F(case['tmin']), F(case['tmax']), [F(c[4]) for c in cols], [F(c[3]) for c in cols],
              [F(c[2]) for c in cols], [bool(c[1]) for c in cols], F(case['ths']), grid)
    context = SimpleNamespace(tables={table: {False: oracle, True: oracle}})
    box = SimpleNamespace(get_wrapped_table=lambda: table,
                          margin_left='auto' if case['ml'] == 'auto' else F(case['ml']),
                          margin_right='auto' if case['mr'] == 'auto' else F(case['mr']))
    T.auto_table_layout(context, box, (F(case['cb']), None))
    return [str(table.width), _strs(table.column_widths)]
