"""Implementation-side functions for C10 (tables); run in worker processes, weasyprint imported from REPO."""
from fractions import Fraction
from types import SimpleNamespace


def F(x):
    return Fraction(x)


def _strs(l):
    return [str(x) for x in l]


# ------------------------------------------------------------------ direct: distribute_excess_width

def dist(case):
    """case: e, cols=[[cell, cons, pct, max, w], ...], start, stop (None = open), alias (bool: the widths list IS
    the max-content list, as in the second call of preferred.py).  Returns the widths after the call."""
    from weasyprint.layout.table import distribute_excess_width
    cols = case['cols']
    grid = [((object(),) if c[0] else ()) for c in cols]
    cons = [bool(c[1]) for c in cols]
    pct = [F(c[2]) for c in cols]
    mx = [F(c[3]) for c in cols]
    w = mx if case.get('alias') else [F(c[4]) for c in cols]
    sl = slice(case['start'], case['stop'])
    distribute_excess_width(None, grid, F(case['e']), w, cons, pct, mx, sl)
    return _strs(w)


# ------------------------------------------------------------------ direct: fixed_table_layout

class _Hashable:
    pass


def _dim(d):
    from weasyprint.css.properties import Dimension
    if d == 'auto':
        return 'auto'
    unit, v = d
    return Dimension(F(v), unit)


def _px(v):
    from weasyprint.css.properties import Dimension
    return Dimension(F(v), 'px')


def fixed(case):
    """case: W, spacing, collapse, cols=[decl...], cells=[{span, width: decl, pl, pr, bl, br}] (first row; None = no row)
    decl = 'auto' | ['px', v] | ['%', v].  Returns [table.width, [column widths]]."""
    from weasyprint.layout import table as T
    from weasyprint.formatting_structure import boxes
    table = object.__new__(boxes.TableBox)
    table.width = F(case['W'])
    table.height = 'auto'
    table.style = {'border_collapse': 'collapse' if case['collapse'] else 'separate',
                   'border_spacing': (F(case['spacing']), F(0))}
    columns = []
    for d in case['cols']:
        c = object.__new__(boxes.TableColumnBox)
        c.style = {'width': _dim(d)}
        columns.append(c)
    group = SimpleNamespace(children=columns)
    table.column_groups = (group,) if columns else ()
    if case['cells'] is None:
        table.children = []
    else:
        cells = []
        for cd in case['cells']:
            cell = object.__new__(boxes.TableCellBox)
            cell.colspan = cd['span']
            z = _px(0)
            cell.style = {
                'margin_left': z, 'margin_right': z, 'margin_top': z, 'margin_bottom': z,
                'padding_left': _px(cd['pl']), 'padding_right': _px(cd['pr']), 'padding_top': z, 'padding_bottom': z,
                'width': _dim(cd['width']), 'min_width': 'auto', 'max_width': _px(10 ** 9),
                'height': 'auto', 'min_height': 'auto', 'max_height': _px(10 ** 9),
                'border_collapse': 'separate', 'box_sizing': 'content-box',
                'border_left_width': F(cd['bl']), 'border_right_width': F(cd['br']),
                'border_top_width': F(0), 'border_bottom_width': F(0)}
            cells.append(cell)
        row = SimpleNamespace(children=cells)
        table.children = [SimpleNamespace(children=[row])]
    wrapper = SimpleNamespace(get_wrapped_table=lambda: table)
    T.fixed_table_layout(wrapper)
    vals = [table.width] + list(table.column_widths)
    inexact = any(isinstance(v, float) for v in vals)     # the source mixes a float 0.0 in (max(0, width) / n)
    return [str(Fraction(table.width)), [str(Fraction(w)) for w in table.column_widths], inexact]


# ------------------------------------------------------------------ direct: auto_table_layout

def auto(case):
    """case: tw ('auto'|value), cb, ml, mr ('auto'|value), pl, pr, bl, br,
    oracle: tmin, tmax, cols=[[cell, cons, pct, max, min], ...], ths.
    Returns [table.width, [column widths]]."""
    from weasyprint.layout import table as T
    table = _Hashable()
    table.width = 'auto' if case['tw'] == 'auto' else F(case['tw'])
    table.padding_left, table.padding_right = F(case['pl']), F(case['pr'])
    table.border_left_width, table.border_right_width = F(case['bl']), F(case['br'])
    cols = case['cols']
    grid = [((object(),) if c[0] else ()) for c in cols]
    oracle = (F(case['tmin']), F(case['tmax']), [F(c[4]) for c in cols], [F(c[3]) for c in cols],
              [F(c[2]) for c in cols], [bool(c[1]) for c in cols], F(case['ths']), grid)
    context = SimpleNamespace(tables={table: {False: oracle, True: oracle}})
    box = SimpleNamespace(get_wrapped_table=lambda: table,
                          margin_left='auto' if case['ml'] == 'auto' else F(case['ml']),
                          margin_right='auto' if case['mr'] == 'auto' else F(case['mr']))
    T.auto_table_layout(context, box, (F(case['cb']), None))
    return [str(table.width), _strs(table.column_widths)]


# ------------------------------------------------------------------ direct: table_and_columns_preferred_widths

def pref(case):
    """The real table_and_columns_preferred_widths on a stub table whose cells / columns carry their min- and
    max-content widths (exact rationals): the three content-width functions it calls are replaced for the call.
    case: h, v (border-spacing), collapse, group (decl or None), cols [decl...] (one column group holding them),
    rows [[{gx, span, cmin, cmax, width: decl}, ...], ...].  Returns [mins, maxs, pcts, constrainedness, ths]."""
    from weasyprint.layout import preferred as P

    def style_of(decl):
        return {'width': _dim(decl), 'min_width': 'auto', 'max_width': 'auto'}

    def content(decl):
        return F(decl[1]) if (decl != 'auto' and decl[0] == 'px') else F(0)

    table = _Hashable()
    z = _px(0)
    table.style = {'border_collapse': 'collapse' if case['collapse'] else 'separate',
                   'border_spacing': (F(case['h']), F(case['v'])), 'width': 'auto', 'min_width': 'auto',
                   'max_width': 'auto', 'margin_left': z, 'margin_right': z, 'padding_left': z, 'padding_right': z,
                   'border_left_width': F(0), 'border_right_width': F(0)}
    columns = []
    for d in case['cols']:
        c = _Hashable()
        c.style, c.c_min, c.c_max = style_of(d), content(d), content(d)
        columns.append(c)
    if columns:
        gd = case['group'] if case['group'] is not None else 'auto'
        g = _Hashable()
        g.style, g.c_min, g.c_max = style_of(gd), content(gd), content(gd)
        g.children = columns
        table.column_groups = (g,)
    else:
        table.column_groups = ()
    rows = []
    for r in case['rows']:
        cells = []
        for cd in r:
            cell = _Hashable()
            cell.grid_x, cell.colspan, cell.rowspan = cd['gx'], cd['span'], 1
            cell.style, cell.c_min, cell.c_max = style_of(cd['width']), F(cd['cmin']), F(cd['cmax'])
            cells.append(cell)
        rows.append(SimpleNamespace(children=cells))
    table.children = [SimpleNamespace(children=rows)]
    box = _Hashable()
    box.style = dict(table.style)
    box.get_wrapped_table = lambda: table
    context = SimpleNamespace(tables={})
    saved = (P.min_content_width, P.max_content_width, P.table_cell_min_max_content_width)
    P.min_content_width = lambda context, b, outer=True: b.c_min
    P.max_content_width = lambda context, b, outer=True: b.c_max
    P.table_cell_min_max_content_width = lambda context, b, outer=True: (b.c_min, b.c_max)
    try:
        res = P.table_and_columns_preferred_widths(context, box, outer=False)
    finally:
        P.min_content_width, P.max_content_width, P.table_cell_min_max_content_width = saved
    (tmin, tmax, mins, maxs, pcts, cons, ths, grid) = res
    return [_strs(mins), _strs(maxs), _strs(pcts), [bool(c) for c in cons], str(ths), str(tmin), str(tmax)]


def _pref_record(context, table, oracle):
    """inputs of the column part of table_and_columns_preferred_widths taken from the real boxes (content widths
    of the individual cells and columns, computed by the real functions), and its outputs."""
    from weasyprint.layout import preferred as P
    (tmin, tmax, mins, maxs, pcts, cons, ths, grid) = oracle
    gw = len(grid)
    if gw == 0:
        return None
    rows = [row for g in table.children for row in g.children]
    at = {}
    for y, row in enumerate(rows):
        for cell in row.children:
            at[(y, cell.grid_x)] = cell
    groups, cols = [None] * gw, [None] * gw
    k = 0
    for cg in table.column_groups:
        for col in cg.children:
            if k < gw:
                groups[k], cols[k] = cg, col
            k += 1

    def px(b):
        w = b.style['width']
        return w != 'auto' and w.unit != '%'

    columns, spans, unmodelled = [], [], False
    for i in range(gw):
        cs = []
        for b in (groups[i], cols[i]):
            if b is not None:
                cs.append([_num(P.min_content_width(context, b)), _num(P.max_content_width(context, b)),
                           _num(P._percentage_contribution(b)), px(b)])
        for y in range(len(rows)):
            cell = at.get((y, i))
            if cell is None:
                continue
            if cell.colspan == 1:
                mn, mx = P.table_cell_min_max_content_width(context, cell)
                cs.append([_num(mn), _num(mx), _num(P._percentage_contribution(cell)), px(cell)])
            else:
                if P._percentage_contribution(cell) != 0:
                    unmodelled = True
                spans.append([cell.grid_x, cell.colspan, _num(P.min_content_width(context, cell)),
                              _num(P.max_content_width(context, cell))])
        columns.append(cs)
    collapse = table.style['border_collapse'] == 'collapse'
    return dict(tid=table.element.get('id') if table.element is not None else None, unmodelled=unmodelled,
                h=_num(0 if collapse else table.style['border_spacing'][0]),
                v=_num(0 if collapse else table.style['border_spacing'][1]), columns=columns, spans=spans,
                out=[[_num(x) for x in mins], [_num(x) for x in maxs], [_num(x) for x in pcts], [bool(c) for c in cons]])


# ------------------------------------------------------------------ full renders with recording hooks

def _num(x):
    """exact string for a finite float/int, else repr."""
    import math
    if isinstance(x, bool):
        return str(int(x))
    if isinstance(x, int):
        return str(x)
    if isinstance(x, float) and math.isfinite(x):
        return str(Fraction(x))
    if isinstance(x, Fraction):
        return str(x)
    return 'bad:%r' % (x,)


def _cid(color):
    """colour identifier: 0 for fully transparent, else 1 + packed rgb (alpha ignored unless 0)."""
    try:
        r, g, b, a = color
    except Exception:  # noqa
        return 999999999
    if a == 0:
        return 0
    return 1 + int(round(r * 255)) + 256 * int(round(g * 255)) + 65536 * int(round(b * 255))


def _sides(style):
    from weasyprint.draw.color import get_color
    out = []
    for side in ('top', 'right', 'bottom', 'left'):
        out.append([style['border_%s_style' % side], _num(style['border_%s_width' % side]),
                    _cid(get_color(style, 'border_%s_color' % side))])
    return out


def _decl(v):
    if v == 'auto':
        return 'auto'
    return [v.unit, _num(v.value)]


def render(case):
    """case: dict(html=...).  Renders with hooks on auto_table_layout, fixed_table_layout and
    collapse_table_borders; returns the recorded calls (inputs and outputs) and the geometry of every table
    fragment of every page."""
    from tests.testing_utils import render_pages
    from weasyprint.layout import table as T
    from weasyprint.formatting_structure import build as B, boxes
    rec = {'auto': [], 'fixed': [], 'borders': [], 'pref': [], 'tables': [], 'pages': 0}
    seen_pref = set()
    orig_auto, orig_fixed, orig_collapse = T.auto_table_layout, T.fixed_table_layout, B.collapse_table_borders

    def auto_hook(context, box, containing_block):
        table = box.get_wrapped_table()
        r = None
        try:
            oracle = T.table_and_columns_preferred_widths(context, box, outer=False)
            (tmin, tmax, mins, maxs, pcts, cons, ths, grid) = oracle
            if id(table) not in seen_pref:        # once per table (the result is cached in the context)
                seen_pref.add(id(table))
                try:
                    pr = _pref_record(context, table, oracle)
                    if pr is not None:
                        rec['pref'].append(pr)
                except Exception as exc:  # noqa
                    rec['pref'].append(dict(hook_error=repr(exc)))
            r = dict(tid=table.element.get('id') if table.element is not None else None,
                     tw='auto' if table.width == 'auto' else _num(table.width), cb=_num(containing_block[0]),
                     ml='auto' if box.margin_left == 'auto' else _num(box.margin_left),
                     mr='auto' if box.margin_right == 'auto' else _num(box.margin_right),
                     pl=_num(table.padding_left), pr=_num(table.padding_right),
                     bl=_num(table.border_left_width), br=_num(table.border_right_width),
                     tmin=_num(tmin), tmax=_num(tmax), ths=_num(ths),
                     cols=[[1 if g else 0, 1 if c else 0, _num(p), _num(mx), _num(mn)]
                           for g, c, p, mx, mn in zip(grid, cons, pcts, maxs, mins)])
        except Exception as exc:  # noqa
            r = dict(hook_error=repr(exc))
        try:
            orig_auto(context, box, containing_block)
        except Exception as exc:  # noqa
            r['out'] = None
            r['exc'] = repr(exc)
            rec['auto'].append(r)
            raise
        r['out'] = [_num(table.width), [_num(w) for w in table.column_widths]]
        rec['auto'].append(r)

    def fixed_hook(box):
        table = box.get_wrapped_table()
        W = table.width
        collapse = table.style['border_collapse'] == 'collapse'
        cols = [c for g in table.column_groups for c in g.children]
        cells = table.children[0].children[0].children if table.children and table.children[0].children else None
        orig_fixed(box)
        r = dict(tid=table.element.get('id') if table.element is not None else None, W=_num(W),
                 spacing=_num(table.style['border_spacing'][0]), collapse=collapse,
                 cols=[_decl(c.style['width']) for c in cols], cells=None,
                 out=[_num(table.width), [_num(w) for w in table.column_widths]])
        if cells is not None:
            r['cells'] = []
            for cell in cells:
                if cell.style['box_sizing'] == 'content-box' or cell.style['width'] == 'auto':
                    wd = _decl(cell.style['width'])
                else:
                    wd = ['px', _num(cell.width)]
                r['cells'].append(dict(span=cell.colspan, width=wd, pl=_num(cell.padding_left), pr=_num(cell.padding_right),
                                       bl=_num(cell.border_left_width), br=_num(cell.border_right_width)))
        rec['fixed'].append(r)

    def collapse_hook(table, grid_width, grid_height):
        bxs = []
        y = 0
        for group in table.children:
            for row in group.children:
                for cell in row.children:
                    bxs.append(['cell', cell.grid_x, y, cell.colspan, cell.rowspan, _sides(cell.style)])
                y += 1
        y = 0
        for group in table.children:
            for row in group.children:
                bxs.append(['row', 0, y, grid_width, 1, _sides(row.style)])
                y += 1
        y = 0
        for group in table.children:
            bxs.append(['group', 0, y, grid_width, len(group.children), _sides(group.style)])
            y += len(group.children)
        for cg in table.column_groups:
            for col in cg.children:
                bxs.append(['col', col.grid_x, 0, 1, grid_height, _sides(col.style)])
        for cg in table.column_groups:
            bxs.append(['colgroup', cg.grid_x, 0, cg.span, grid_height, _sides(cg.style)])
        bxs.append(['table', 0, 0, grid_width, grid_height, _sides(table.style)])
        res = orig_collapse(table, grid_width, grid_height)
        v, h = res
        enc = lambda g: [[[b[0], _num(b[1]), _cid(b[2])] for (_, b) in rowl] for rowl in g]
        rec['borders'].append(dict(tid=table.element.get('id') if table.element is not None else None,
                                   rtl=table.style['direction'] == 'rtl', gw=grid_width, gh=grid_height,
                                   boxes=bxs, v=enc(v), h=enc(h)))
        return res

    T.auto_table_layout, T.fixed_table_layout, B.collapse_table_borders = auto_hook, fixed_hook, collapse_hook
    try:
        pages = render_pages(case['html'])
    except Exception as exc:  # noqa  (kept with the records made so far: the harness classifies the crash with them)
        import traceback, os
        site = None
        for fr in reversed(traceback.extract_tb(exc.__traceback__)):
            if '/weasyprint/' in fr.filename:
                site = [type(exc).__name__, fr.filename.split('/weasyprint/', 1)[1], fr.name]
                break
        rec['crash'] = {'type': type(exc).__name__, 'msg': str(exc)[:300], 'site': site,
                        'tb': ''.join(traceback.format_exception(type(exc), exc, exc.__traceback__))[-1500:]}
        pages = []
    finally:
        T.auto_table_layout, T.fixed_table_layout, B.collapse_table_borders = orig_auto, orig_fixed, orig_collapse
    rec['pages'] = len(pages)

    def text_of(box):
        if isinstance(box, boxes.TextBox):
            return box.text
        return ''.join(text_of(c) for c in getattr(box, 'children', ()) or ())

    def walk(box, page_index, page, wrapper=None, parent=None):
        if isinstance(box, boxes.TableBox):
            rec['tables'].append(table_geometry(box, page_index, page, wrapper, parent))
        for c in getattr(box, 'children', ()) or ():
            walk(c, page_index, page, box if getattr(box, 'is_table_wrapper', False) else None, box)

    def eid(b):
        return b.element.get('id') if b.element is not None else None

    def table_geometry(table, page_index, page, wrapper, parent):
        rtl = table.style['direction'] == 'rtl'
        collapse = table.style['border_collapse'] == 'collapse'
        cw = list(table.column_widths)
        cp = list(table.column_positions)
        if rtl:   # stored graphically (left to right) after layout: back to logical order
            cw.reverse(); cp.reverse()
        g = dict(page=page_index, tid=eid(table), rtl=rtl, collapse=collapse,
                 fixed=(table.style['table_layout'] == 'fixed' and table.style['width'] != 'auto'),
                 cbx=_num(table.content_box_x()), cby=_num(table.content_box_y()), W=_num(table.width), H=_num(table.height),
                 spacing=_num(0 if collapse else table.style['border_spacing'][0]),
                 spacing_y=_num(0 if collapse else table.style['border_spacing'][1]),
                 ws=[_num(w) for w in cw], pos=[_num(p) for p in cp], groups=[],
                 page_bottom=_num(page.content_box_y() + page.height),
                 wrapper=None)
        if wrapper is not None:
            g['wrapper'] = dict(x=_num(wrapper.position_x), w=_num(wrapper.margin_width()),
                                ml=_num(wrapper.margin_left), mr=_num(wrapper.margin_right),
                                bw=_num(wrapper.border_width()),
                                captions=[dict(side=c.style['caption_side'], y=_num(c.position_y), h=_num(c.margin_height()))
                                          for c in wrapper.children if isinstance(c, boxes.TableCaptionBox)])
        for group in table.children:
            gg = dict(header=bool(group.is_header), footer=bool(group.is_footer), gid=eid(group),
                      y=_num(group.position_y), h=_num(group.height), rows=[])
            for row in group.children:
                rr = dict(rid=eid(row), x=_num(row.position_x), y=_num(row.position_y), w=_num(row.width), h=_num(row.height), cells=[])
                for cell in row.children:
                    el = cell.element
                    try:
                        span = int(el.get('colspan', 1)) if (el is not None and el.tag in ('td', 'th')) else 1
                    except ValueError:
                        span = 1
                    rr['cells'].append(dict(
                        cid=eid(cell), gx=cell.grid_x, span=max(span, 1), k=cell.colspan, rowspan=cell.rowspan,
                        x=_num(cell.position_x), y=_num(cell.position_y), w=_num(cell.width),
                        bp=_num(cell.padding_left + cell.padding_right + cell.border_left_width + cell.border_right_width),
                        bh=_num(cell.border_height()), text=text_of(cell)))
                gg['rows'].append(rr)
            g['groups'].append(gg)
        return g

    for i, page in enumerate(pages):
        walk(page, i, page)
    return rec
