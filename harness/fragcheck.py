"""Shared streams of C01 / C03 / C04 (and C05's vertical geometry): the fragmentation model Frag2 against
full renders, and the wide per-element conservation monitor."""
import random
import common, fraggen, widegen

FRAG_PRE = ('From Coq Require Import ZArith List Bool.\nRequire Import WV.model.Frag2 WV.model.FragSpec.\n'
            'Import ListNotations.\nOpen Scope Z_scope.\n')
FRAG_TYPE = 'box * Z * list (list (Z * Z))'


def frag_stream(run, rng, n, tag, feats=fraggen.ALL_FEATS, heights=fraggen.PAGE_HEIGHTS, docgen=None):
    """returns list of (doc, mask) ; doc = dict(html, H, nwords, pages)"""
    docs = []
    for _ in range(n):
        html, root, H, nw = docgen(rng) if docgen else fraggen.document(rng, feats, heights)
        docs.append(dict(html=html, root=root, H=H, nwords=nw))
    outs = common.run_impl('impl_frag', 'render_lines_blank', [{'html': d['html']} for d in docs], limit=60)
    cases, kept = [], []
    for d, (st, o) in zip(docs, outs):
        if st == 'timeout':
            run.fail('render timeout', {'stream': tag, 'html': d['html']}, signature='timeout')
            continue
        if st == 'exc':
            run.fail('render raised %s at %s' % (o['type'], o['site']), {'stream': tag, 'html': d['html'], 'exc': o},
                     signature='crash:%s' % (o['site'],))
            continue
        d['blank'] = o['blank']
        o = o['lines']
        try:
            pages = [[(fraggen.unword(w), y) for w, y in p] for p in o]
        except ValueError:
            run.oblige('harness:%s-words' % tag, False, 'unexpected text in %r' % (o,))
            continue
        if any(not isinstance(y, int) for p in pages for w, y in p):
            run.oblige('harness:%s-integer-geometry' % tag, False, 'non integer y in %r' % (pages,))
            continue
        d['pages'] = pages
        cases.append('(%s, %s, %s)' % (fraggen.coq_box(d['root']), fraggen.z(d['H']), fraggen.coq_pages(pages)))
        kept.append(d)
    masks = common.eval_cases(tag, FRAG_PRE, FRAG_TYPE, cases, 'frag_judge', per_file=150)
    return list(zip(kept, masks))


SIDE_VALUES = ('left', 'right', 'recto', 'verso')


def judge_blank_pages(doc):
    """C03 / C04 on the implementation's pages of a document of the model grammar: a blank page (no box at all) is a
    REQUIRED blank page - between the last word before it and the first word after it (document order) some box
    boundary carries a break-before / break-after value that names a page side - and it is followed by content.
    (Lenient on purpose: which of several meeting values wins and the parity are judged by the forced-side clause.)"""
    events = []

    def walk(b):
        if b[0] == 'lines':
            events.extend(('w', w) for w in b[1])
            return
        events.append(('v', b[1].get('bf', 'auto')))
        for k in b[2]:
            walk(k)
        events.append(('v', b[1].get('ba', 'auto')))
    walk(doc['root'])
    index = {e[1]: i for i, e in enumerate(events) if e[0] == 'w'}
    pages = doc['pages']
    bad = []
    blank = doc.get('blank') or [False] * len(pages)
    gaps = {}
    for pi, pg in enumerate(pages):
        if not blank[pi]:
            continue            # a page holding boxes (possibly empty ones) is not a blank page
        after = next((p for p in pages[pi + 1:] if p), None)
        if pi + 1 >= len(pages) or blank[pi + 1]:
            bad.append(('blank-page-not-followed-by-content', dict(page=pi)))
            continue
        before = next((p for p in reversed(pages[:pi]) if p), None)
        lo = index.get(before[-1][0], -1) if before else -1
        hi = index.get(after[0][0], len(events)) if after else len(events)
        nside = sum(1 for e in events[lo + 1:hi] if e[0] == 'v' and e[1] in SIDE_VALUES)
        gaps[(lo, hi)] = gaps.get((lo, hi), 0) + 1
        if gaps[(lo, hi)] > nside > 0:
            # every value naming a side asks for one blank page at most
            bad.append(('more-blank-pages-than-side-breaks', dict(page=pi, blank=gaps[(lo, hi)], side_values=nside)))
        if nside == 0:
            bad.append(('blank-page-not-required', dict(page=pi, before=before[-1][0] if before else None,
                                                        after=after[0][0] if after else None)))
    return bad


def doc_key(d):
    return (d['H'], d['nwords'], len(d['pages']), hash(d['html']) & 0xffff)


# ------------------------------------------------------------------------------------------------ wide monitor

def judge_conservation(leaves, pages):
    """Per-element conservation (C01) on the implementation's pages; returns list of (failure, leaf)."""
    pos = {}
    for pi, ws in enumerate(pages):
        for k, w in enumerate(ws):
            pos.setdefault(w, []).append((pi, k))
    known = set(w for lf in leaves for w in lf['words'])
    bad = []
    for w in pos:
        if w not in known:
            bad.append(('unknown-word', {'kind': 'none', 'ctx': [], 'words': [w], 'id': -1}))
    for lf in leaves:
        occ = [pos.get(w, []) for w in lf['words']]
        if lf['hidden']:
            if any(occ):
                bad.append(('hidden-shown', lf))
            continue
        if lf['repeat']:
            if lf['kind'] == 'fixed' and any(not o for o in occ):
                bad.append(('fixed-missing', lf))
            continue
        if lf.get('fixed_height'):
            # R4: a fixed-height box that ends on a page forgets the children that overflow the page bottom: a
            # suffix of its words may be dropped
            while occ and len(occ[-1]) == 0:
                occ.pop()
        if any(len(o) == 0 for o in occ):
            bad.append(('lost', lf))
            continue
        if any(len(o) > 1 for o in occ):
            bad.append(('duplicated', lf))
            continue
        seq = [o[0] for o in occ]
        if seq != sorted(seq):
            bad.append(('reordered', lf))
            continue
        pgs = [p for p, _ in seq]
        if any(b - a > 1 for a, b in zip(pgs, pgs[1:])):
            bad.append(('non-consecutive', lf))
    return bad


def signature_of(failure, lf):
    if failure in ('lost', 'duplicated') and lf['kind'] == 'footnote' and 'columns' in lf['ctx']:
        return 'lost:footnote-in-columns'
    if failure == 'duplicated' and lf['kind'] == 'cell':
        # a split table cell restarts from its beginning (listed for C10, also seen by C01/C03)
        return 'table-split:cell-content-once[restart-after-empty-fragment]'
    if failure == 'non-consecutive' and 'table' in lf['ctx']:
        # a cell of a split row whose next piece does not fit waits while its neighbours go on (listed finding)
        return 'non-consecutive:stalled-table-cell'
    return None


def wide_stream(run, rng, n, tag, feats=widegen.ALL_FEATS, docs=None):
    if docs is None:
        docs = [widegen.document(rng, feats) for _ in range(n)]
    outs = common.run_impl('impl_wide', 'render_words', [{'html': h} for h, _, _ in docs], limit=90)
    res = []
    for (html, leaves, H), (st, o) in zip(docs, outs):
        if st == 'timeout':
            run.fail('render timeout', {'stream': tag, 'html': html}, signature='timeout')
            continue
        if st == 'exc':
            run.fail('render raised %s at %s' % (o['type'], o['site']), {'stream': tag, 'html': html, 'exc': o},
                     signature='crash:%s' % (o['site'],))
            continue
        res.append((html, leaves, H, o['pages']))
    return res


F67_WITNESS = ('<style>@page{size:200px 30px;margin:0}html{font-family:weasyprint;font-size:10px;line-height:10px}'
               'body,p{margin:0}</style><div style="columns:2;column-gap:4px"><p>aaaaaaa baaaaaa caaaaaa daaaaaa '
               'eaaaaaa <span style="float:footnote">faaaaaa</span> gaaaaaa haaaaaa</p></div>')
