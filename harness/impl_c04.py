"""Implementation side of C04: break value resolution by direct calls on stub boxes."""
from types import SimpleNamespace


def _chain(values, last):
    """nested BlockBox chain: values[0] outermost; inner box is the last (or first) child"""
    from weasyprint.formatting_structure import boxes
    box = None
    for v in reversed(values):
        b = object.__new__(boxes.BlockBox)
        b.style = {'break_after': v, 'break_before': v}
        b.children = [box] if box is not None else []
        box = b
    return box


def fold(case):
    """case: (before_values innermost-last? , after_values) as lists of CSS strings.
    before chain is given outermost first; returns the resolved value."""
    from weasyprint.layout import block
    before, after = case
    sb = _chain(before, True)
    sa = _chain(after, False)
    if sb is None:
        sb = SimpleNamespace()      # not a block-level box: contributes nothing
    if sa is None:
        sa = SimpleNamespace()
    return block.block_level_page_break(sb, sa)


def preds(case):
    from weasyprint.layout import block
    v, incol = case
    ctx = SimpleNamespace(in_column=incol)
    return [bool(block.force_page_break(v, ctx)), bool(block.avoid_page_break(v, ctx))]
