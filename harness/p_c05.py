"""C05 - box model arithmetic and normal-flow geometry."""
import random, itertools, math
from fractions import Fraction
import common
from common import qlit, slit

PRE = ('From Coq Require Import QArith List String.\nRequire Import WV.base.Py WV.model.C05Spec.\n'
       'Import ListNotations.\nOpen Scope string_scope.\nOpen Scope Q_scope.\n')
PRE_PURE = ('From Coq Require Import QArith List String.\nRequire Import WV.base.Py WV.model.C05SpecPure.\n'
            'Import ListNotations.\nOpen Scope string_scope.\nOpen Scope Q_scope.\n')
MODES = ['tuple', 'ltr', 'rtl', 'ltrcol', 'rtlcol']


def vlit(x):
    if x == 'auto':
        return '(VStr "auto")'
    return '(VNum %s)' % qlit(Fraction(x))


def parse_out(s):
    return 'auto' if s == 'auto' else Fraction(s)


def gen_blw(rng, n):
    small = ['auto', -3, 0, 5, 40]
    cases = []
    # exhaustive auto patterns x a few values x modes
    for ml, mr, w in itertools.product(['auto', -3, 0, 5], ['auto', -3, 0, 8], ['auto', 0, 40, 130]):
        for mode in MODES:
            cases.append(dict(ml=ml, mr=mr, w=w, pl=1, pr=2, bl=3, br=4, px=7, cbw=100, mode=mode))
    while len(cases) < n:
        def length():
            r = rng.random()
            if r < 0.3:
                return 'auto'
            if r < 0.5:
                return rng.choice([0, 1, -1, 50, 100])
            return str(Fraction(rng.randint(-200, 400), rng.choice([1, 1, 2, 3, 7])))
        def nn():
            return str(Fraction(rng.randint(0, 60), rng.choice([1, 1, 2, 3])))
        w = length()
        if w != 'auto' and Fraction(w) < 0:
            w = str(-Fraction(w))
        cases.append(dict(ml=length(), mr=length(), w=w, pl=nn(), pr=nn(), bl=nn(), br=nn(),
                          px=str(Fraction(rng.randint(-20, 20))), cbw=str(Fraction(rng.randint(0, 500), rng.choice([1, 1, 3]))),
                          mode=rng.choice(MODES)))
    return cases


def coq_blw_case(c, out):
    outs = '[%s]' % '; '.join(vlit(parse_out(o)) for o in out)
    return '((%s, %s, %s), (%s, %s, %s, %s, %s, %s), %d%%nat, %s)' % (
        vlit(c['ml']), vlit(c['mr']), vlit(c['w']), qlit(c['pl']), qlit(c['pr']), qlit(c['bl']), qlit(c['br']),
        qlit(c['px']), qlit(c['cbw']), MODES.index(c['mode']), outs)


def gen_resolve(rng, n):
    """cases of the resolve-direct stream: every box-sizing keyword, 'auto' / px / % in every slot that admits it,
    paddings and borders mostly small against the sizes but sometimes larger (the floor at 0), containing block of
    fixed or auto height, collapsed borders already resolved or not"""
    def length(auto, neg=False, big=False):
        r = rng.random()
        if auto and r < 0.3:
            return 'auto'
        v = Fraction(rng.choice([0, 0, 1, 2, 5, 10, 30, 60, 150] if not big else [0, 20, 80, 300, 1000]),
                     rng.choice([1, 1, 1, 2, 3]))
        if neg and rng.random() < 0.2:
            v = -v
        return ['%' if rng.random() < 0.4 else 'px', str(v)]
    cases = []
    for _ in range(n):
        cbh = rng.choice(['auto', 'auto', '50', '400'])
        lengths = [length(True, True) for _ in range(4)] + [length(False) for _ in range(4)] + \
                  [length(True), length(True), length(False, big=True), length(True), length(True), length(False, big=True)]
        if cbh == 'auto' and lengths[13][0] == '%':
            lengths[13] = ['px', lengths[13][1]]      # a percentage max-height of an auto height is `inf`: not a rational
        cases.append(dict(kw=rng.choice(['content-box', 'padding-box', 'border-box', 'border-box']),
                          collapse=rng.random() < 0.3, has=[rng.random() < 0.5 for _ in range(4)], lengths=lengths,
                          borders=[str(rng.choice([0, 0, 1, 3, 8])) for _ in range(4)],
                          cbw=str(rng.choice([100, 200, 333])), cbh=cbh))
    return cases


def coq_resolve_case(c, out):
    def cval(v):
        return 'CAuto' if v == 'auto' else '(%s %s)' % ('CPx' if v[0] == 'px' else 'CPct', qlit(Fraction(v[1])))
    b = lambda x: 'true' if x else 'false'
    return '((%s, %s, (%s, %s, %s, %s)), [%s], (%s, %s, %s, %s), (%s, %s), [%s])' % (
        slit(c['kw']), b(c['collapse']), *[b(x) for x in c['has']], '; '.join(cval(v) for v in c['lengths']),
        *[qlit(Fraction(x)) for x in c['borders']], qlit(Fraction(c['cbw'])),
        'None' if c['cbh'] == 'auto' else '(Some %s)' % qlit(Fraction(c['cbh'])),
        '; '.join(vlit(parse_out(o)) for o in out))


# ------------------------------------------------------------------------------------------ render monitor

UNITS = ['px', '%', 'em']


def gen_tree(rng, depth, counter, rtl):
    def L(allow_auto=True, allow_neg=False, pct=True):
        r = rng.random()
        if allow_auto and r < 0.35:
            return 'auto'
        if r < 0.5:
            return '0'
        u = rng.choice(['px', 'px', '%', 'em'] if pct else ['px', 'em'])
        v = rng.choice([1, 2, 3, 5, 10, 20, 30]) if u != '%' else rng.choice([5, 10, 25, 50, 80, 120, 0])
        if allow_neg and rng.random() < 0.15:
            v = -v
        return '%d%s' % (v, u)
    st = []
    for side in ('left', 'right', 'top', 'bottom'):
        if rng.random() < 0.5:
            st.append('margin-%s:%s' % (side, L(allow_auto=side in ('left', 'right'), allow_neg=True)))
        if rng.random() < 0.3:
            st.append('padding-%s:%s' % (side, L(False)))
        if rng.random() < 0.25:
            st.append('border-%s:%dpx solid' % (side, rng.choice([0, 1, 3, 8])))
    if rng.random() < 0.5:
        st.append('width:%s' % L())
    if rng.random() < 0.2:
        st.append('min-width:%s' % L(False))
    if rng.random() < 0.2:
        st.append('max-width:%s' % L(False))
    if rng.random() < 0.2:
        st.append('height:%s' % L())
    if rng.random() < 0.1:
        st.append('min-height:%s' % L(False))
    if rng.random() < 0.1:
        st.append('max-height:%s' % L(False))
    if rng.random() < 0.25:
        st.append('box-sizing:%s' % rng.choice(['border-box', 'content-box', 'padding-box']))
    if rng.random() < 0.1:
        st.append('direction:%s' % rng.choice(['ltr', 'rtl']))
    counter[0] += 1
    eid = 'b%d' % counter[0]
    kids = ''
    if depth < 4 and rng.random() < 0.7:
        for _ in range(rng.choice([0, 1, 1, 2, 3])):
            kids += gen_tree(rng, depth + 1, counter, rtl)
    elif rng.random() < 0.6:
        kids = 'abc'
    return '<div id="%s" style="%s">%s</div>' % (eid, ';'.join(st), kids)


def gen_doc(rng):
    counter = [0]
    rtl = rng.random() < 0.3
    body = ''.join(gen_tree(rng, 0, counter, rtl) for _ in range(rng.choice([1, 2, 3])))
    return ('<style>@page{size:%dpx 100000px;margin:0}html{direction:%s}body{margin:0;font-family:weasyprint;'
            'font-size:10px;line-height:10px;width:%dpx}</style>%s'
            % (rng.choice([200, 400, 640]), 'rtl' if rtl else 'ltr', rng.choice([100, 200, 333]), body))


def gen_empty_doc(rng):
    """sections of empty and nearly empty blocks: height 0 / auto / small against min-height and max-height, margins that
    may collapse through them (all non-negative, so that the no-overlap and containment clauses apply), a few with
    padding or borders.  Aimed at the 'collapsing through' decision of block_container_layout (CSS 2.1 8.3.1: only a box
    whose used height is zero - min-height included - lets its own margins meet)."""
    n = [0]

    def child():
        n[0] += 1
        st = []
        for side in ('top', 'bottom'):
            if rng.random() < 0.7:
                st.append('margin-%s:%dpx' % (side, rng.choice([0, 2, 4, 6, 10, 15])))
            if rng.random() < 0.12:
                st.append('padding-%s:%dpx' % (side, rng.choice([0, 1, 3])))
            if rng.random() < 0.12:
                st.append('border-%s:%dpx solid' % (side, rng.choice([0, 1, 2])))
        if rng.random() < 0.7:
            st.append('height:%s' % rng.choice(['0', '0', '0px', 'auto', '5px', '20px', '0%']))
        if rng.random() < 0.6:
            st.append('min-height:%s' % rng.choice(['0', '10px', '20px', '7px', '50%', '1em']))
        if rng.random() < 0.25:
            st.append('max-height:%s' % rng.choice(['none', '0', '5px', '30px']))
        kids = '' if rng.random() < 0.7 else rng.choice(['abc', '<div id="c%d" style="height:%dpx"></div>' % (n[0], rng.choice([0, 4]))])
        return '<div id="e%d" style="%s">%s</div>' % (n[0], ';'.join(st), kids)
    body = ''
    for i in range(rng.choice([1, 2, 3])):
        st = []
        if rng.random() < 0.3:
            st.append('padding:%dpx 0' % rng.choice([1, 3]))
        if rng.random() < 0.3:
            st.append('border-top:1px solid')
        if rng.random() < 0.3:
            st.append('height:%dpx' % rng.choice([40, 100]))
        if rng.random() < 0.4:
            st.append('margin:%dpx 0 %dpx' % (rng.choice([0, 3, 8]), rng.choice([0, 3, 8])))
        body += '<section id="s%d" style="%s">%s</section>' % (i, ';'.join(st), ''.join(child() for _ in range(rng.choice([2, 3, 4, 5]))))
    return ('<style>@page{size:300px 100000px;margin:0}body{margin:0;font-family:weasyprint;font-size:10px;'
            'line-height:10px;width:200px}section{display:block}</style>' + body)


EPS = 1e-6


def isnum(x):
    return isinstance(x, (int, float)) and math.isfinite(x)


def judge_geometry(recs):
    """returns list of (clause, record idx, detail) violated; recs from impl_c05.render_geometry."""
    bad = []
    byidx = {(r['page'], r['idx']): r for r in recs}
    kids = {}
    for r in recs:
        for k in ('x', 'y', 'w', 'h', 'ml', 'mr', 'mt', 'mb', 'pl', 'pr', 'pt', 'pb', 'bl', 'br', 'bt', 'bb'):
            if not isnum(r[k]):
                bad.append(('finite-numeric', r['eid'], '%s=%r' % (k, r[k])))
        if any(not isnum(r[k]) for k in ('x', 'w', 'ml', 'mr', 'pl', 'pr', 'bl', 'br', 'y', 'h')):
            continue
        for k in ('w', 'h', 'pl', 'pr', 'pt', 'pb', 'bl', 'br', 'bt', 'bb'):
            if r[k] < -EPS:
                bad.append(('non-negative', r['eid'], '%s=%r' % (k, r[k])))
        if r['parent'] is not None:
            kids.setdefault((r['page'], r['parent']), []).append(r)
        p = byidx.get((r['page'], r['parent'])) if r['parent'] is not None else None
        if p is None or not r['normal'] or r['eid'] is None:
            continue
        if not all(isnum(p[k]) for k in ('x', 'w', 'ml', 'bl', 'pl')):
            continue
        cbx = p['x'] + p['ml'] + p['bl'] + p['pl']
        cbw = p['w']
        bbx = r['x'] + r['ml']                      # border box left
        bbw = r['bl'] + r['pl'] + r['w'] + r['pr'] + r['br']
        s = r['ml'] + bbw + r['mr']
        autos = [r['s_w'] == 'auto', r['s_ml'] == 'auto', r['s_mr'] == 'auto']
        over = abs(s - cbw) > EPS * max(1, abs(cbw))
        # min/max
        if isnum(r['minw']) and r['w'] < r['minw'] - EPS:
            bad.append(('min-width', r['eid'], (r['w'], r['minw'])))
        if isnum(r['maxw']) and isnum(r['minw']) and r['maxw'] >= r['minw'] and r['w'] > r['maxw'] + EPS:
            bad.append(('max-width', r['eid'], (r['w'], r['maxw'])))
        clamped = (isnum(r['maxw']) and abs(r['w'] - r['maxw']) < EPS) or (isnum(r['minw']) and abs(r['w'] - r['minw']) < EPS)
        if over:
            # allowed only when over-constrained: width not auto (or clamped by min/max) and
            # either no auto margin, or the box does not fit (auto margins are then 0)
            if autos[0] and not clamped:
                bad.append(('width-equation(auto width fills)', r['eid'], (s, cbw)))
            elif (autos[1] or autos[2]) and s < cbw - EPS:
                bad.append(('width-equation(auto margin absorbs)', r['eid'], (s, cbw)))
        # geometric: specified margin honoured on the start side (ltr: left; rtl: right)
        if p['direction'] == 'ltr':
            if abs((bbx - cbx) - r['ml']) > EPS:
                bad.append(('start-margin-honoured-ltr', r['eid'], (bbx - cbx, r['ml'])))
        else:
            right_gap = (cbx + cbw) - (bbx + bbw)
            if abs(right_gap - r['mr']) > EPS and not (autos[0] is False and over):
                bad.append(('start-margin-honoured-rtl', r['eid'], (right_gap, r['mr'])))
            if over and not autos[0] and abs(right_gap - r['mr']) > EPS:
                bad.append(('rtl-overconstrained-right-edge', r['eid'], (right_gap, r['mr'])))
        # horizontal containment when margins are non-negative and the box fits
        if r['ml'] >= 0 and r['mr'] >= 0 and bbw <= cbw + EPS and not over:
            if bbx < cbx - EPS or bbx + bbw > cbx + cbw + EPS:
                bad.append(('inside-parent-horizontally', r['eid'], (bbx, bbw, cbx, cbw)))
    # heights (CSS 2.1 10.5, 10.6.3, 10.7): a box in normal flow that holds only line boxes and whose
    # height is auto - or a percentage of a containing block whose height is itself auto - is as high as its lines;
    # under such a containing block a percentage min-height is 0 and a percentage max-height is none
    def decl(r, name):
        v = None
        for d in (r.get('sty') or '').split(';'):
            k, _, val = d.partition(':')
            if k.strip() == name:
                v = val.strip()
        return v

    def eff_auto(r):
        h = decl(r, 'height')
        if r.get('sty') is None or h in (None, 'auto'):
            return True
        if h.endswith('%'):
            p = byidx.get((r['page'], r['parent'])) if r['parent'] is not None else None
            return p is not None and p['parent'] is not None and eff_auto(p)
        return False
    for r in recs:
        # (boxes without any line are left out: their used height is entangled with margins collapsing through them)
        if (r.get('sty') is None or not r['normal'] or r['nkids'] or not r['nlines'] or not isnum(r['h'])
                or r['parent'] is None):
            continue
        p = byidx.get((r['page'], r['parent']))
        if p is None or p['parent'] is None or not eff_auto(r):
            continue
        mn, mx = decl(r, 'min-height'), decl(r, 'max-height')
        cb_auto = eff_auto(p)
        if not (mn in (None, '0', 'auto') or (mn.endswith('%') and cb_auto)):
            continue
        if not (mx in (None, 'none') or (mx.endswith('%') and cb_auto)):
            continue
        if abs(r['h'] - 10 * r['nlines']) > EPS:
            bad.append(('auto-height-is-content-height', r['eid'],
                        (r['h'], 10 * r['nlines'], decl(r, 'height'), mn, mx)))
    # min-height (CSS 2.1 10.7): a declared px min-height under content-box sizing is a floor of the used height
    for r in recs:
        if r.get('sty') is None or not r['normal'] or not isnum(r['h']):
            continue
        mn = decl(r, 'min-height')
        if mn and mn.endswith('px') and decl(r, 'box-sizing') in (None, 'content-box'):
            if r['h'] < float(mn[:-2]) - EPS:
                bad.append(('min-height-is-a-floor', r['eid'], (r['h'], mn)))
    # vertical stacking without overlap when all vertical margins are non-negative
    any_negative = any(isnum(r[k]) and r[k] < 0 for r in recs for k in ('mt', 'mb'))
    for key, ch in ([] if any_negative else kids.items()):
        ch = [c for c in ch if c['normal'] and all(isnum(c[k]) for k in ('y', 'mt', 'mb', 'h', 'pt', 'pb', 'bt', 'bb'))]
        for a, b in zip(ch, ch[1:]):
            if min(a['mt'], a['mb'], b['mt'], b['mb']) < 0:
                continue
            a_bottom = a['y'] + a['mt'] + a['bt'] + a['pt'] + a['h'] + a['pb'] + a['bb']
            b_top = b['y'] + b['mt']
            if b_top < a_bottom - EPS:
                bad.append(('siblings-overlap', b['eid'], (a_bottom, b_top)))
    # an in-flow child of non-zero height lies inside the content box of a parent whose height is auto (10.6.3), when no
    # vertical margin is negative
    for key, ch in ([] if any_negative else kids.items()):
        p = byidx.get(key)
        if (p is None or p.get('sty') is None or not p['normal'] or decl(p, 'height') not in (None, 'auto')
                or decl(p, 'max-height') not in (None, 'none')
                or not all(isnum(p[k]) for k in ('y', 'mt', 'bt', 'pt', 'h'))):
            continue
        p_bottom = p['y'] + p['mt'] + p['bt'] + p['pt'] + p['h']
        for c in ch:
            if not c['normal'] or not all(isnum(c[k]) for k in ('y', 'mt', 'mb', 'h', 'pt', 'pb', 'bt', 'bb')) or c['h'] <= EPS:
                continue
            c_bottom = c['y'] + c['mt'] + c['bt'] + c['pt'] + c['h'] + c['pb'] + c['bb']
            if c_bottom > p_bottom + EPS:
                bad.append(('auto-height-parent-contains-child', c['eid'], (c_bottom, p_bottom)))
    return bad


# ---------------------------------------------------------------------------------- pagination does not move siblings
def gen_ptree(rng, depth, counter):
    st = []
    if rng.random() < 0.6:
        st.append('margin-top:%dpx' % rng.choice([0, 5, 10, 20, 30, -5]))
    if rng.random() < 0.6:
        st.append('margin-bottom:%dpx' % rng.choice([0, 5, 10, 20, 30, -5]))
    if rng.random() < 0.3:
        st.append('padding-top:%dpx' % rng.choice([0, 3, 10, 25]))
    if rng.random() < 0.4:
        st.append('padding-bottom:%dpx' % rng.choice([0, 3, 10, 25, 40]))
    if rng.random() < 0.2:
        st.append('border-top:%dpx solid' % rng.choice([1, 4]))
    if rng.random() < 0.2:
        st.append('border-bottom:%dpx solid' % rng.choice([1, 4]))
    counter[0] += 1
    eid = 'b%d' % counter[0]
    r = rng.random()
    if depth < 3 and r < 0.55:
        kids = ''.join(gen_ptree(rng, depth + 1, counter) for _ in range(rng.choice([1, 2, 3])))
        if rng.random() < 0.2:
            st.append('height:%dpx' % rng.choice([40, 60, 90]))
    elif r < 0.8:
        kids = '<br>'.join(['abc'] * rng.choice([1, 1, 2, 3]))
    else:
        kids = ''
        if rng.random() < 0.6:
            st.append('height:%dpx' % rng.choice([10, 20, 30]))
    return '<div id="%s" style="%s">%s</div>' % (eid, ';'.join(st), kids)


def gen_pdoc(rng):
    counter = [0]
    body = ''.join(gen_ptree(rng, 0, counter) for _ in range(rng.choice([2, 3, 5])))
    css = ('html{font-family:weasyprint;font-size:10px;line-height:10px}body{margin:0;width:200px}')
    H = rng.choice([60, 80, 100, 120, 150, 200])
    return ('<style>@page{size:300px 100000px;margin:0}' + css + '</style>' + body,
            '<style>@page{size:300px %dpx;margin:0}' % H + css + '</style>' + body, H)


def judge_gaps(tall, short):
    """gaps between adjacent in-flow siblings that share a page (and are whole on it) are those of the unpaginated
    rendering: pagination neither adds nor removes space between them"""
    def top(r):
        return r['y'] + r['mt']

    def bottom(r):
        return r['y'] + r['mt'] + r['bt'] + r['pt'] + r['h'] + r['pb'] + r['bb']
    tby = {r['eid']: r for r in tall if r['eid'] and r['normal']}
    if not all(isnum(r[k]) for r in tall for k in ('y', 'h', 'mt')) or not all(isnum(r[k]) for r in short for k in ('y', 'h', 'mt')):
        return []
    kids = {}
    byidx = {r['idx']: r for r in tall}
    for r in tall:
        if r['eid'] and r['normal'] and r['parent'] is not None:
            kids.setdefault(byidx[r['parent']]['eid'], []).append(r['eid'])
    sby = {}
    for r in short:
        if r['eid'] and r['normal']:
            sby.setdefault(r['eid'], []).append(r)
    bad = []
    for parent, ks in kids.items():
        for a, b in zip(ks, ks[1:]):
            if len(sby.get(a, [])) != 1 or len(sby.get(b, [])) != 1:
                continue
            ra, rb = sby[a][0], sby[b][0]
            if ra['page'] != rb['page']:
                continue
            # a must not be the first fragment of the parent's content on that page unless the parent starts there
            first_on_page = not any(len(sby.get(k, [])) >= 1 and sby[k][-1]['page'] == ra['page'] for k in ks[:ks.index(a)])
            if first_on_page and parent in sby and sby[parent][0]['page'] != ra['page']:
                continue
            # margins that collapse through empty boxes, and margins adjoining the top of a page (truncated after a
            # break), are not judged here
            if bottom(ra) - top(ra) <= 1e-9 or bottom(rb) - top(rb) <= 1e-9 or top(ra) <= 1e-9:
                continue
            g_tall = top(tby[b]) - bottom(tby[a])
            g_short = top(rb) - bottom(ra)
            if abs(g_tall - g_short) > 1e-6:
                bad.append(('sibling-gap-changed-by-pagination', (a, b, g_tall, g_short, ra['page'])))
    return bad


def check(run):
    rng = random.Random(run.seed * 7919 + 5)
    thorough = run.tier == 'thorough'
    common.prove(run, 'C05', ['model/C05SpecPure.vo'])
    common.coq_make(['model/C05Spec.vo', 'model/C05MinMax.vo', 'model/C05ResolveSpec.vo', 'model/C05ResolveLink.vo'])
    run.trusted += ['Coq 8.16.1 kernel (coqc); vm_compute for the cases.v evaluation',
                    'tools/py2coq.py (printer) + coq/base/Py.v (interpreter): validated against CPython by stream blw-direct/collapse-direct',
                    'harness stubs (SimpleNamespace/Fraction) and render monitor (Python)']
    run.assumptions += ['vertical stacking/collapsing through the tree is tied by the Frag2 correspondence (C01/C03 streams), not re-proved here',
                        'handle_min_max_width is modelled by hand (with_min_max) around the regenerated body and tied by stream blw-minmax-direct',
                        'handle_min_max_width / handle_min_max_height: the inner wrapper is regenerated (gen/GenMinMax.v) and proved equal to '
                        'model/C05MinMaxWrap.v for every decorated function; the decorated function is an oracle of the state of box and of the '
                        'tuple of the other arguments, which it may both mutate (value semantics: box is not one of the other arguments, and the '
                        'function keeps no other state between the calls); getattr(box, name, None) is the builtin, its meaning (the attribute when '
                        'the object has one, else the default) is a hypothesis of the theorems; functools.wraps does not change what a call executes',
                        'resolve_percentages / adjust_box_sizing / resolve_one_percentage: the printer specialises a function to constant '
                        'string arguments (getattr / setattr / f-strings with constant names become attribute accesses); calls that mutate '
                        'the box are linked by name to the regenerated specialisation (model/C05ResolveLink.v rlink); '
                        'isinstance(box, boxes.PageBox) and the name inf are inputs; hasattr(box, border_*_width) is a function of the '
                        'name (no statement before the question binds these attributes); lengths are rationals (max-height none = inf is outside)']
    # ---- stream 1: block_level_width, direct calls with Fractions, model = interpreter on the regenerated body
    cases = gen_blw(rng, 6000 if thorough else 1500)
    outs = common.run_impl('impl_c05', 'blw', cases)
    coq_cases, kept = [], []
    for c, (st, o) in zip(cases, outs):
        if st != 'ok':
            run.fail('block_level_width raised %s' % (o,), {'stream': 'blw-direct', 'case': c, 'outcome': o},
                     signature='blw-raise')
            continue
        coq_cases.append(coq_blw_case(c, o)); kept.append((c, o))
    # the specification is judged on the implementation's outputs independently of the regenerated model
    try:
        smasks = common.eval_cases('c05blws', PRE_PURE, '(val * val * val) * (Q * Q * Q * Q * Q * Q) * nat * list val',
                                   coq_cases, 'blw_spec_judge')
        for (c, o), m in list(zip(kept, smasks)):
            if m & 2:
                run.fail('block_level_width output violates the width equation spec', {'stream': 'blw-direct', 'case': c, 'impl_output': o})
                break
    except RuntimeError as exc:
        run.oblige('spec:blw-direct', False, str(exc))
    try:
        masks = common.eval_cases('c05blw', PRE, '(val * val * val) * (Q * Q * Q * Q * Q * Q) * nat * list val',
                                  coq_cases, 'blw_judge')
        mism = [(c, o) for (c, o), m in zip(kept, masks) if m & 1]
        specbad = []
        run.oblige('corr:blw-direct(model=interpreter(py2coq(source)) vs CPython)', not mism,
                   'first disagreements: %s' % mism[:3])
        for c, o in specbad[:3]:
            run.fail('block_level_width output violates the width equation spec', {'stream': 'blw-direct', 'case': c, 'impl_output': o})
        run.count('blw-direct', len(kept), [(c['ml'] == 'auto', c['mr'] == 'auto', c['w'] == 'auto', c['mode'],
                                              c['w'] != 'auto' and c['ml'] != 'auto' and c['mr'] != 'auto' and
                                              Fraction(c['w']) + Fraction(c['ml']) + Fraction(c['mr']) > Fraction(c['cbw']),
                                              str(c['cbw'])) for c, _ in kept],
                  samples=[{'case': kept[0][0], 'impl': kept[0][1]}, {'case': kept[-1][0], 'impl': kept[-1][1]}])
        run.stream_info('blw-direct', rule='64 auto/value patterns x 5 containing-block modes exhaustively + random rationals; '
                        'distinct = (auto pattern, mode, over-constrained?, cb width)')
    except RuntimeError as exc:
        run.oblige('corr:blw-direct', False, str(exc))
    # ---- stream 1b: the decorated function (handle_min_max_width), model = with_min_max over the regenerated body
    mm_cases = []
    for c in gen_blw(rng, 1200 if thorough else 400):
        if c['mode'] != 'tuple' and rng.random() < 0.7:
            continue
        c = dict(c, mode='tuple')
        c['minw'] = str(Fraction(rng.choice([0, 0, 0, 5, 30, 80, 200])))
        c['maxw'] = rng.choice(['inf', 'inf', '0', '10', '50', '120', '400'])
        mm_cases.append(c)
    outs = common.run_impl('impl_c05', 'blw_minmax', mm_cases)
    coq_cases, kept = [], []
    for c, (st, o) in zip(mm_cases, outs):
        if st != 'ok':
            run.fail('block_level_width (with min/max) raised %s' % (o,), {'stream': 'blw-minmax-direct', 'case': c, 'outcome': o},
                     signature='blw-raise')
            continue
        outs_l = '[%s]' % '; '.join(vlit(parse_out(x)) for x in o)
        coq_cases.append('((%s, %s, %s), (%s, %s, %s, %s, %s, %s), (%s, %s), %s)' % (
            vlit(c['ml']), vlit(c['mr']), vlit(c['w']), qlit(c['pl']), qlit(c['pr']), qlit(c['bl']), qlit(c['br']),
            qlit(c['px']), qlit(c['cbw']), qlit(c['minw']), 'None' if c['maxw'] == 'inf' else '(Some %s)' % qlit(c['maxw']), outs_l))
        kept.append((c, o))
    try:
        masks = common.eval_cases('c05mm', PRE + 'Require Import WV.model.C05MinMax.\n',
                                  '(val * val * val) * (Q * Q * Q * Q * Q * Q) * (Q * option Q) * list val', coq_cases, 'minmax_judge')
        run.oblige('corr:blw-minmax-direct(model=with_min_max over the regenerated body vs CPython)',
                   not any(m & 1 for m in masks), str([k for k, m in zip(kept, masks) if m & 1][:2]))
        for (c, o), m in zip(kept, masks):
            if m & 2:
                run.fail('used width violates min-width / max-width', {'stream': 'blw-minmax-direct', 'case': c, 'impl_output': o})
                break
        run.count('blw-minmax-direct', len(kept), [(c['ml'] == 'auto', c['mr'] == 'auto', c['w'] == 'auto', c['minw'], c['maxw']) for c, _ in kept],
                  samples=[{'case': kept[0][0], 'impl': kept[0][1]}] if kept else [])
    except RuntimeError as exc:
        run.oblige('corr:blw-minmax-direct', False, str(exc))
    # ---- stream 1c: resolve_percentages (percentages, border widths, box-sizing), direct calls with Fractions.
    # bit 1: the hand models resolve / adjust (independent of coq/gen) on the implementation's outputs;
    # bit 0: the interpreter on the regenerated resolve_percentages, calls linked to the regenerated callees
    rp_cases = gen_resolve(rng, 2400 if thorough else 600)
    outs = common.run_impl('impl_c05', 'resolve_pct', rp_cases)
    coq_cases, kept = [], []
    for c, (st, o) in zip(rp_cases, outs):
        if st != 'ok':
            run.fail('resolve_percentages raised %s' % (o,), {'stream': 'resolve-direct', 'case': c, 'outcome': o},
                     signature='resolve-raise')
            continue
        coq_cases.append(coq_resolve_case(c, o)); kept.append((c, o))
    rp_type = '(string * bool * (bool * bool * bool * bool)) * list cval * (Q * Q * Q * Q) * (Q * option Q) * list val'
    try:
        smasks = common.eval_cases('c05rps', PRE_PURE + 'Require Import WV.model.C05BoxSizing WV.model.C05Resolve WV.model.C05ResolveSpec.\n',
                                   rp_type, coq_cases, 'rp_spec_judge')
        for (c, o), m in zip(kept, smasks):
            if m & 2:
                run.fail('used values after resolve_percentages differ from the percentage / box-sizing model',
                         {'stream': 'resolve-direct', 'case': c, 'impl_output': o})
                break
        run.count('resolve-direct', len(kept),
                  [(c['kw'], c['collapse'], c['cbh'] == 'auto', tuple(v if v == 'auto' else v[0] for v in c['lengths'][8:]))
                   for c, _ in kept], samples=[{'case': kept[0][0], 'impl': kept[0][1]}] if kept else [])
        run.stream_info('resolve-direct', rule='3 box-sizing keywords x auto/px/% in each of the 14 lengths x fixed/auto '
                        'containing height x collapsed borders already resolved or not; distinct = (keyword, collapse, '
                        'auto cb height, unit pattern of the six sizes)')
    except RuntimeError as exc:
        run.oblige('spec:resolve-direct', False, str(exc))
    try:
        masks = common.eval_cases('c05rpc', PRE + 'Require Import WV.model.C05BoxSizing WV.model.C05Resolve WV.model.C05ResolveLink.\n',
                                  rp_type, coq_cases, 'rp_corr_judge')
        run.oblige('corr:resolve-direct(model=interpreter on the regenerated resolve_percentages, calls linked, vs CPython)',
                   not any(m & 1 for m in masks), str([k for k, m in zip(kept, masks) if m & 1][:2]))
    except RuntimeError as exc:
        run.oblige('corr:resolve-direct', False, str(exc))
    # ---- stream 2: collapse_margin
    lists = [[], [0], [5], [-5], [5, -5], [0, 0]]
    while len(lists) < (3000 if thorough else 800):
        lists.append([str(Fraction(rng.randint(-60, 60), rng.choice([1, 1, 1, 2, 3]))) for _ in range(rng.choice([1, 2, 3, 5, 8, 13]))])
    outs = common.run_impl('impl_c05', 'collapse', lists)
    coq_cases = []
    for l, (st, o) in zip(lists, outs):
        if st != 'ok':
            run.fail('collapse_margin raised', {'stream': 'collapse-direct', 'case': l, 'outcome': o})
            continue
        coq_cases.append('([%s], VNum %s)' % ('; '.join(qlit(x) for x in l), qlit(o)))
    try:
        smasks = common.eval_cases('c05cols', PRE_PURE, 'list Q * val', coq_cases, 'collapse_spec_judge')
        for l, m in zip(lists, smasks):
            if m & 2:
                run.fail('collapse_margin differs from max(pos)+min(neg)', {'stream': 'collapse-direct', 'case': l})
                break
    except RuntimeError as exc:
        run.oblige('spec:collapse-direct', False, str(exc))
    try:
        masks = common.eval_cases('c05col', PRE, 'list Q * val', coq_cases, 'collapse_judge')
        run.oblige('corr:collapse-direct', not any(m & 1 for m in masks), str([l for l, m in zip(lists, masks) if m & 1][:3]))
        for l, m in zip(lists, masks):
            if m & 2:
                run.fail('collapse_margin differs from max(pos)+min(neg)', {'stream': 'collapse-direct', 'case': l})
                break
        run.count('collapse-direct', len(coq_cases), [tuple(l) for l in lists], samples=[lists[7], lists[-1]])
    except RuntimeError as exc:
        run.oblige('corr:collapse-direct', False, str(exc))
    # ---- stream 3: renders of random block trees, judged by the geometric reading of the property
    docs = [{'html': gen_doc(rng)} for _ in range(2500 if thorough else 500)]
    docs += [{'html': gen_empty_doc(rng)} for _ in range(1000 if thorough else 250)]
    outs = common.run_impl('impl_c05', 'render_geometry', docs, limit=60)
    nboxes = 0
    seen = set()
    for d, (st, o) in zip(docs, outs):
        if st == 'timeout':
            run.fail('render timeout', {'stream': 'render-geometry', 'html': d['html']}, signature='timeout')
            continue
        if st == 'exc':
            run.fail('render raised %s at %s' % (o['type'], o['site']), {'stream': 'render-geometry', 'html': d['html'], 'exc': o},
                     signature='crash:%s' % (o['site'],))
            continue
        nboxes += len(o)
        for r in o:
            seen.add((r['s_w'] == 'auto', r['s_ml'] == 'auto', r['s_mr'] == 'auto', r['direction'], r['parent'] is None))
        bad = judge_geometry(o)
        for clause, eid, detail in bad[:1]:
            run.fail('geometry clause %s fails for #%s: %s' % (clause, eid, detail),
                     {'stream': 'render-geometry', 'html': d['html'], 'clause': clause, 'element': eid, 'detail': detail},
                     signature='geom:%s' % clause)
    run.count('render-geometry', len(docs), [('doc', i) for i in range(len(docs))], samples=[docs[0]['html'][:600]])
    run.stream_info('render-geometry', boxes=nboxes, patterns=len(seen),
                    rule='random trees of block boxes depth<=5, margins/paddings/borders/width/min/max/height/box-sizing '
                         'in {auto,0,px,%,em,negative margins}, ltr/rtl; every in-flow block box judged; plus one third as many documents of '
                         'empty / nearly empty blocks (height 0 / auto against min-height, max-height, collapsing margins)')
    # ---- pagination must not change the space between siblings that stay on one page
    pdocs = [gen_pdoc(rng) for _ in range(1500 if thorough else 300)]
    outs_t = common.run_impl('impl_c05', 'render_geometry', [{'html': t} for t, _, _ in pdocs], limit=60)
    outs_s = common.run_impl('impl_c05', 'render_geometry', [{'html': sh} for _, sh, _ in pdocs], limit=60)
    npairs = 0
    for (t, sh, H), (st1, o1), (st2, o2) in zip(pdocs, outs_t, outs_s):
        if st1 != 'ok' or st2 != 'ok':
            st, o = (st1, o1) if st1 != 'ok' else (st2, o2)
            run.fail('render failed: %s' % (o if st != 'exc' else o['type']), {'stream': 'pagination-gaps', 'html': sh},
                     signature='timeout' if st == 'timeout' else 'crash:%s' % (o.get('site'),))
            continue
        npairs += sum(1 for r in o2 if r['eid'])
        for clause, detail in judge_gaps(o1, o2)[:1]:
            run.fail('%s: %s' % (clause, detail), {'stream': 'pagination-gaps', 'html': sh, 'tall': t, 'clause': clause,
                                                   'detail': detail}, signature='geometry:%s' % clause)
    run.count('pagination-gaps', len(pdocs), [(H, hash(t) & 0xffff) for t, _, H in pdocs], samples=[pdocs[0][1][:500]])
    run.stream_info('pagination-gaps', boxes=npairs,
                    rule='block trees with vertical margins / paddings / borders / fixed heights rendered on one tall page and '
                         'on pages of 60..200px: the gap between adjacent siblings sharing a page is the same')


def replay(data):
    import json
    d = data.get('data', {})
    if d.get('stream') == 'pagination-gaps':
        (s1, o1), (s2, o2) = common.run_impl('impl_c05', 'render_geometry', [{'html': d['tall']}, {'html': d['html']}])
        bad = judge_gaps(o1, o2) if s1 == s2 == 'ok' else [(s1, s2)]
        print(bad[:3])
        return 1 if bad else 0
    if d.get('stream') == 'render-geometry':
        (st, o), = common.run_impl('impl_c05', 'render_geometry', [{'html': d['html']}])
        bad = judge_geometry(o) if st == 'ok' else [(st, None, o)]
        print('replay:', bad[:5])
        return 1 if bad else 0
    if d.get('stream') == 'blw-direct':
        (st, o), = common.run_impl('impl_c05', 'blw', [d['case']])
        print('replay: impl output', o)
        m = common.eval_cases('c05replay', PRE, '(val * val * val) * (Q * Q * Q * Q * Q * Q) * nat * list val',
                              [coq_blw_case(d['case'], o)], 'blw_judge')
        print('judge mask', m)
        return 1 if m[0] else 0
    print('nothing to replay for', d.get('stream'))
    return 0
