"""C06 - the cascade, inheritance and computed values select the right value.

Streams
  prec-direct / media-direct / values-direct : exhaustive or random direct calls, judged in Coq (judge_direct)
  cascade-render   : random DOM x stylesheets over all origins, full renders; every element's style compared with
                     an independent reference cascade (Python, sort-key based, match sets from cssselect2 and from an
                     own matcher) and with the Coq models (judge_tree: fold model + key-maximum spec)
  cascade-tuples   : exhaustively all ordered pairs / triples of conflicting declaration kinds for one property
  values-render    : random trees with relative font-size / length / line-height / font-weight values
  page-render      : @page declarations (add_page_declarations)
"""
import random, itertools, json, os, glob, math, time
from fractions import Fraction
import common
from common import slit

PRE = ('From Coq Require Import ZArith QArith List Bool String.\n'
       'Require Import WV.model.C06Cascade WV.model.C06Inherit WV.model.C06Values WV.model.C06Imports WV.model.C06Judge.\n'
       'Import ListNotations.\nOpen Scope string_scope.\nOpen Scope Z_scope.\n')
INF = float('inf')


def zlit(n):
    return '(%d)%%Z' % n


def qlit(fr):
    fr = Fraction(fr)
    return '((%d)#%d)%%Q' % (fr.numerator, fr.denominator)


def blit(b):
    return 'true' if b else 'false'


# =============================================================================================== properties
# name, style key, inherited, encoder id -> css text, decoder normalized computed value -> id (None = unknown)

def _dec_color(v):
    if isinstance(v, list) and v and v[0] == 'rgba':
        r, g, b = v[1]
        if (round(g), round(b)) == (1, 2) and abs(r - round(r)) < 1e-3:
            return int(round(r))
        if (round(r), round(g), round(b)) == (0, 0, 0):
            return 0
    return None


def _dec_px(v):
    if isinstance(v, list) and v and v[0] == 'dim' and v[2] == 'px' and float(v[1]) == int(v[1]):
        return int(v[1])
    if v == 0:
        return 0
    return None


def _dec_int(initial):
    def dec(v):
        if v == initial:
            return 0
        if isinstance(v, int) and v >= 100:
            return v - 100
        return None
    return dec


ALIGN = {'start': 0, 'right': 1, 'center': 2, 'justify': 3, 'left': 4, 'end': 5}

PROPS = {
    'color':       dict(pid=1, key='color', inh=True, enc=lambda i: 'rgb(%d,1,2)' % i, dec=_dec_color),
    'text-indent': dict(pid=2, key='text_indent', inh=True, enc=lambda i: '%dpx' % i, dec=_dec_px),
    'widows':      dict(pid=3, key='widows', inh=True, enc=lambda i: '%d' % (100 + i), dec=_dec_int(2)),
    'tab-size':    dict(pid=4, key='tab_size', inh=True, enc=lambda i: '%d' % (100 + i), dec=_dec_int(8)),
    'z-index':     dict(pid=5, key='z_index', inh=False, enc=lambda i: '%d' % (100 + i), dec=_dec_int('auto')),
    'margin-left': dict(pid=6, key='margin_left', inh=False, enc=lambda i: '%dpx' % i, dec=_dec_px),
    'order':       dict(pid=7, key='order', inh=False, enc=lambda i: '%d' % (100 + i), dec=_dec_int(0)),
    'padding-top': dict(pid=8, key='padding_top', inh=False, enc=lambda i: '%dpx' % i, dec=_dec_px),
    'text-align':  dict(pid=9, key='text_align_all', inh=True,
                        enc=lambda i: [k for k, v in ALIGN.items() if v == i][0], dec=lambda v: ALIGN.get(v)),
}
INH_PROPS = ['color', 'text-indent', 'widows', 'tab-size']
NON_PROPS = ['z-index', 'margin-left', 'order', 'padding-top']

UA_BASE = ('html, body, div, p, section, ul, center { display: block } li { display: list-item } '
           'head, style, link { display: none } body { font-family: weasyprint; font-size: 10px; line-height: 10px } '
           '[data-b]::before { content: "b" } @page { bleed: 0; @footnote { margin: 0 } } '
           '::marker { font-variant-numeric: tabular-nums }\n')


# =============================================================================================== DOM model

BLOCKS = ['div', 'div', 'section', 'p', 'ul', 'center']
INLINES = ['span', 'b', 'i', 'em', 'a', 'font']


def new_el(tag, n=None, **kw):
    e = dict(tag=tag, n=n, id=None, classes=[], attrs={}, style=[], hints=[], before=False, kids=[], text='',
             parent=None)
    e.update(kw)
    return e


def gen_tree(rng, nmax):
    """html > head + body > ... ; returns (html element, list of numbered elements in preorder)"""
    html = new_el('html', 0)
    head = new_el('head')
    body = new_el('body', 1)
    html['kids'] = [head, body]
    count = [2]

    def grow(parent, depth):
        if count[0] >= nmax:
            return
        ptag = parent['tag']
        if ptag in ('p',) or ptag in INLINES:
            pool = [t for t in INLINES if not (t == 'a' and has_anc(parent, 'a'))]
        elif ptag == 'ul':
            pool = ['li']
        else:
            pool = BLOCKS + INLINES + (['img'] if rng.random() < 0.15 else [])
        k = rng.choice([1, 1, 2, 2, 3]) if depth < 4 else rng.choice([0, 1])
        for _ in range(k):
            if count[0] >= nmax:
                return
            tag = rng.choice(pool)
            e = new_el(tag, count[0])
            count[0] += 1
            e['parent'] = parent
            parent['kids'].append(e)
            if tag != 'img' and rng.random() < (0.75 if depth < 2 else 0.45):
                grow(e, depth + 1)

    def has_anc(e, tag):
        while e is not None:
            if e['tag'] == tag:
                return True
            e = e['parent']
        return False

    head['parent'] = html
    body['parent'] = html
    grow(body, 0)
    els = []

    def pre(e):
        if e['n'] is not None:
            els.append(e)
        for k in e['kids']:
            pre(k)
    pre(html)
    for e in els:
        if e['n'] >= 2:
            if rng.random() < 0.4:
                e['id'] = 'x%d' % e['n']
            e['classes'] = [c for c in 'abc' if rng.random() < 0.3]
            if rng.random() < 0.3:
                e['attrs']['data-k'] = rng.choice(['u', 'v'])
            if rng.random() < 0.15:
                e['attrs']['title'] = 't'
            if e['tag'] != 'img':
                e['text'] = rng.choice(['a', 'ab', 'abc'])
                if rng.random() < 0.2:
                    e['before'] = True
    return html, els


def decl_text(d):
    return '%s: %s%s' % (d['prop'], d['val'], ' !important' if d['imp'] else '')


def html_text(e):
    if e['tag'] == 'style':
        return '<style%s>%s</style>' % (e.get('attrtext', ''), e['css'])
    if e['tag'] == 'link':
        return '<link%s>' % e.get('attrtext', '')
    a = ''
    if e['n'] is not None:
        a += ' data-n="%d"' % e['n']
    if e['id']:
        a += ' id="%s"' % e['id']
    if e['classes']:
        a += ' class="%s"' % ' '.join(e['classes'])
    for k, v in e['attrs'].items():
        a += ' %s="%s"' % (k, v)
    for k, v, _ in e['hints']:
        a += ' %s="%s"' % (k, v)
    if e['before']:
        a += ' data-b="1"'
    if e['style']:
        a += ' style="%s"' % '; '.join(decl_text(d) for d in e['style'])
    if e['tag'] == 'img':
        return '<img%s>' % a
    return '<%s%s>%s%s</%s>' % (e['tag'], a, e['text'], ''.join(html_text(k) for k in e['kids']), e['tag'])


# =============================================================================================== selectors

def gen_compound(rng, e, rich=True):
    """a compound selector built from the features of element e (so it matches e), sometimes perturbed"""
    c = dict(tag=None, id=None, classes=[], attrs=[], pcs=[])
    r = rng.random()
    if r < 0.45:
        c['tag'] = e['tag']
    if e['id'] and rng.random() < 0.3:
        c['id'] = e['id']
    for cl in e['classes']:
        if rng.random() < 0.5:
            c['classes'].append(cl)
    if rich and e['attrs'] and rng.random() < 0.4:
        k = rng.choice(sorted(e['attrs']))
        c['attrs'].append((k, rng.choice(['', '=']), e['attrs'][k]))
    if rich and rng.random() < 0.2:
        pc = rng.choice(['first-child', 'last-child', 'not', 'nth-child', 'only-child', 'root', 'not-id'])
        if pc == 'not':
            c['pcs'].append(('not', dict(tag=None, id=None, classes=[rng.choice('abc')], attrs=[], pcs=[])))
        elif pc == 'not-id':
            c['pcs'].append(('not', dict(tag=None, id='x%d' % rng.randint(2, 9), classes=[], attrs=[], pcs=[])))
        elif pc == 'nth-child':
            c['pcs'].append(('nth-child', rng.choice([1, 2, 3])))
        else:
            c['pcs'].append((pc,))
    if rng.random() < 0.08:      # perturb: likely no longer matches
        c['classes'].append(rng.choice('abc'))
    return c


def compound_text(c):
    s = c['tag'] or ''
    if c['id']:
        s += '#' + c['id']
    for cl in c['classes']:
        s += '.' + cl
    for k, op, v in c['attrs']:
        s += '[%s]' % k if op == '' else '[%s%s"%s"]' % (k, op, v)
    for pc in c['pcs']:
        if pc[0] == 'not':
            s += ':not(%s)' % compound_text(pc[1])
        elif pc[0] == 'nth-child':
            s += ':nth-child(%d)' % pc[1]
        else:
            s += ':' + pc[0]
    return s or '*'


def sel_text(sel):
    s = ''
    for comb, c in sel['parts']:
        if comb is not None:
            s += {' ': ' ', '>': ' > ', '+': ' + ', '~': ' ~ '}[comb]
        s += compound_text(c)
    if sel['pseudo']:
        s += '::' + sel['pseudo']
    return s


def gen_selector(rng, els):
    e = rng.choice(els)
    parts = [(None, gen_compound(rng, e))]
    r = rng.random()
    if r < 0.45 and e['parent'] is not None and e['parent']['n'] is not None:
        anc = e['parent']
        comb = '>'
        if rng.random() < 0.5:
            comb = ' '
            while anc['parent'] is not None and anc['parent']['n'] is not None and rng.random() < 0.5:
                anc = anc['parent']
        parts = [(None, gen_compound(rng, anc, rich=False)), (comb, parts[0][1])]
        if rng.random() < 0.2 and anc['parent'] is not None and anc['parent']['n'] is not None:
            parts = [(None, gen_compound(rng, anc['parent'], rich=False)), (rng.choice([' ', '>']), parts[0][1]),
                     parts[1]]
    elif r < 0.55 and e['parent'] is not None:
        sibs = e['parent']['kids']
        i = sibs.index(e)
        if i > 0 and sibs[i - 1]['n'] is not None:
            parts = [(None, gen_compound(rng, sibs[i - 1], rich=False)), (rng.choice(['+', '~']), parts[0][1])]
    pseudo = 'before' if rng.random() < 0.12 else None
    return dict(parts=parts, pseudo=pseudo)


def own_spec(sel):
    a = b = c = 0

    def comp(cp):
        nonlocal a, b, c
        if cp['tag']:
            c += 1
        if cp['id']:
            a += 1
        b += len(cp['classes']) + len(cp['attrs'])
        for pc in cp['pcs']:
            if pc[0] == 'not':
                comp(pc[1])
            else:
                b += 1
    for _, cp in sel['parts']:
        comp(cp)
    if sel['pseudo']:
        c += 1
    return (a, b, c)


def elem_children(e):
    return e['kids']


def own_match_compound(e, c):
    if c['tag'] and c['tag'] != e['tag']:
        return False
    if c['id'] and c['id'] != e['id']:
        return False
    for cl in c['classes']:
        if cl not in e['classes']:
            return False
    for k, op, v in c['attrs']:
        have = dict(e['attrs'])
        if k not in have:
            return False
        if op == '=' and have[k] != v:
            return False
    for pc in c['pcs']:
        sibs = e['parent']['kids'] if e['parent'] is not None else [e]
        i = sibs.index(e)
        if pc[0] == 'first-child' and i != 0:
            return False
        if pc[0] == 'last-child' and i != len(sibs) - 1:
            return False
        if pc[0] == 'only-child' and len(sibs) != 1:
            return False
        if pc[0] == 'nth-child' and i + 1 != pc[1]:
            return False
        if pc[0] == 'root' and e['parent'] is not None:
            return False
        if pc[0] == 'not' and own_match_compound(e, pc[1]):
            return False
    return True


def own_match(e, sel):
    parts = sel['parts']

    def m(e, i):
        comb, c = parts[i]
        if not own_match_compound(e, c):
            return False
        if i == 0:
            return True
        if comb == '>':
            return e['parent'] is not None and m(e['parent'], i - 1)
        if comb == ' ':
            p = e['parent']
            while p is not None:
                if m(p, i - 1):
                    return True
                p = p['parent']
            return False
        sibs = e['parent']['kids'] if e['parent'] is not None else [e]
        j = sibs.index(e)
        if comb == '+':
            return j > 0 and m(sibs[j - 1], i - 1)
        if comb == '~':
            return any(m(s, i - 1) for s in sibs[:j])
        raise ValueError(comb)
    return m(e, len(parts) - 1)


# =============================================================================================== stylesheets

def media_text(types):
    return ', '.join(types)


def items_text(items):
    out = []
    for it in items:
        if it[0] == 'rule':
            r = it[1]
            out.append('%s { %s }' % (', '.join(r.get('seltexts') or [sel_text(s) for s in r['sels']]),
                                      '; '.join(decl_text(d) for d in r['decls'])))
        elif it[0] == 'media':
            out.append('@media %s { %s }' % (media_text(it[1]), items_text(it[2])))
        elif it[0] == 'import':
            out.append('@import url(%s)%s;' % (it[1], (' ' + media_text(it[2])) if it[2] else ''))
        elif it[0] == 'raw':
            out.append(it[1])
    return '\n'.join(out)


def media_applies(types, device):
    """CSS: a media type list applies iff it names `all` or the device's type (ASCII case-insensitive)"""
    return any(t.lower() == 'all' or t.lower() == device for t in types)


def flatten(items, device, files_items, top=True):
    """rules of a sheet in cascade order, @import-ed sheets substituted in place (valid only at the top, before
    any other rule), @media blocks kept iff they apply.  -> list of rule dicts"""
    out = []
    seen_other = not top
    for it in items:
        if it[0] == 'import':
            if seen_other:
                continue                      # invalid position: ignored
            if it[2] and not media_applies(it[2], device):
                continue
            out.extend(flatten(files_items[it[1]], device, files_items, True))
        elif it[0] == 'rule':
            if it[1].get('invalid'):
                continue                      # an ignored statement does not end the @import section (CSS 2.1 4.1.5)
            seen_other = True
            out.append(it[1])
        elif it[0] == 'media':
            seen_other = True
            if media_applies(it[1], device):
                out.extend(flatten(it[2], device, files_items, False))
        elif it[0] == 'raw':
            seen_other = seen_other or it[2]
    return out


# =============================================================================================== documents

def build_doc(doc):
    """doc: tree (html), els, sheets (in document/list order), device, hints, props -> render case + bookkeeping"""
    html = doc['html']
    head = html['kids'][0]
    head['kids'] = []
    files = {}
    files_items = {}
    user_css = []
    ua_css = UA_BASE
    li = 0

    def collect_imports(items):
        for it in items:
            if it[0] == 'import':
                files[it[1]] = items_text(it[3])
                files_items[it[1]] = it[3]
                collect_imports(it[3])
            elif it[0] == 'media':
                collect_imports(it[2])
    for sh in doc['sheets']:
        collect_imports(sh['items'])
        text = items_text(sh['items'])
        if sh['kind'] == 'ua':
            # @import must stand before the rules: sheets that import come before the base rules
            ua_css = (text + '\n' + ua_css) if doc.get('ua_first') else (ua_css + text)
        elif sh['kind'] == 'user':
            user_css.append(text)
        elif sh['kind'] == 'style':
            at = ''
            if sh.get('media') is not None:
                at += ' media="%s"' % media_text(sh['media'])
            if sh.get('type'):
                at += ' type="%s"' % sh['type']
            el = new_el('style', css=text, attrtext=at)
            el['parent'] = sh.get('place') or head
            (sh.get('place') or head)['kids'].insert(sh.get('at', len((sh.get('place') or head)['kids'])), el)
            sh['el'] = el
        elif sh['kind'] == 'link':
            li += 1
            url = 'http://mem/l%d.css' % li
            files[url] = text
            at = ' rel="%s" href="%s"' % (sh.get('rel', 'stylesheet'), url)
            if sh.get('media') is not None:
                at += ' media="%s"' % media_text(sh['media'])
            el = new_el('link', attrtext=at)
            el['parent'] = head
            head['kids'].append(el)
    case = dict(html='<!DOCTYPE html>' + html_text(html), ua_css=ua_css, user_css=user_css, files=files,
                media=doc['device'], hints=doc['hints'], keys=[PROPS[p]['key'] for p in doc['props']],
                render=doc.get('render', True))
    doc['files_items'] = files_items
    return case


def sheet_applies(sh, device):
    if sh['kind'] in ('style', 'link'):
        if sh.get('type') and sh['type'].split(';')[0].strip().lower() != 'text/css':
            return False
        if sh.get('media') is not None and not media_applies(sh['media'] or ['all'], device):
            return False
    if sh['kind'] == 'link':
        rel = sh.get('rel', 'stylesheet').lower().split()
        if 'stylesheet' not in rel or 'alternate' in rel:
            return False
    return True


def doc_order_sheets(doc):
    """author sheets in document order (head first, then body placement)"""
    html = doc['html']
    order = []

    def pre(e):
        if e['tag'] in ('style', 'link') and e.get('sheet') is not None:
            order.append(e['sheet'])
        for k in e['kids']:
            pre(k)
    pre(html)
    return order


class Matcher:
    """match sets and specificities from cssselect2 (outside the repository) on the parsed document"""
    def __init__(self, html_text_):
        import cssselect2, tinyhtml5
        self.cs = cssselect2
        root = cssselect2.ElementWrapper.from_html_root(
            tinyhtml5.parse(html_text_, namespace_html_elements=False))
        self.by_n = {}
        self.struct = []
        for w in root.iter_subtree():
            n = w.etree_element.get('data-n')
            if n is not None:
                self.by_n[int(n)] = w
                p = w.parent
                self.struct.append((int(n), w.local_name,
                                    int(p.etree_element.get('data-n')) if p is not None and
                                    p.etree_element.get('data-n') is not None else None))
        self.cache = {}

    def compiled(self, text):
        if text not in self.cache:
            self.cache[text] = self.cs.compile_selector_list(text)
        return self.cache[text]

    def info(self, text):
        """[(specificity, pseudo_element, set of matching n)] per selector of the list"""
        out = []
        for c in self.compiled(text):
            out.append((tuple(c.specificity), c.pseudo_element,
                        {n for n, w in self.by_n.items() if c.test(w)}))
        return out


RANK = {('ua', False): 1, ('ua', True): 1, ('user', False): 2, ('author', False): 3, ('author', True): 4,
        ('user', True): 5}


def reference(doc, case):
    """independent reference: for every element / ::before and tracked property the expected value id.
    Also returns the data for the Coq case and the self-check of the own matcher against cssselect2."""
    device = doc['device']
    els = doc['els']
    M = Matcher(case['html'])
    # the parsed tree must be the tree we meant
    meant = [(e['n'], e['tag'], e['parent']['n'] if e['parent'] is not None else None) for e in els]
    if sorted(meant) != sorted(M.struct):
        return None
    selfcheck = []
    # ---- sheets in the order of WeasyPrint's `sheets` list: UA, (hints sheet), author in document order, user
    ua = [s for s in doc['sheets'] if s['kind'] == 'ua']
    users = [s for s in doc['sheets'] if s['kind'] == 'user']
    authors = [s for s in doc['sheets'] if s['kind'] in ('style', 'link')]
    # document order: head children order then body placement; build_doc inserted them in list order in head,
    # body-placed ones come after
    authors = [s for s in authors if not s.get('place')] + [s for s in authors if s.get('place')]
    ordered = [('ua', s) for s in ua] + ([('ph', None)] if doc['hints'] else []) + \
              [('author', s) for s in authors if sheet_applies(s, device)] + [('user', s) for s in users]
    sheets_out = []        # per sheet: (origin, has_override, [ (selspec, order, pseudo, match set, decls) ])
    cands = {}             # (n, pseudo) -> prop -> list of (key, vid)
    for si, (origin, sh) in enumerate(ordered):
        entries = []
        if origin == 'ph':
            for e in els:
                for attr, val, hint in e['hints']:
                    if hint.get('sheet'):
                        d = hint['decl']
                        entries.append(((0, 1, 1), hint['order'], None, {e['n']}, [d]))
                        cands.setdefault((e['n'], None), {}).setdefault(d['prop'], []).append(
                            ((3, (0, 0, 0), si, hint['order'], 0), d['vid']))
            sheets_out.append(('author', True, entries))
            continue
        rules = flatten(sh['items'], device, doc['files_items'])
        order = 0
        for r in rules:
            texts = r.get('seltexts') or [sel_text(s) for s in r['sels']]
            for k, text in enumerate(texts):
                order += 1
                (spec, pseudo, ms), = M.info(text)
                if not r.get('seltexts'):
                    s = r['sels'][k]
                    oms = {e['n'] for e in els if own_match(e, s)}
                    if own_spec(s) != spec or oms != ms or (s['pseudo'] or None) != pseudo:
                        selfcheck.append((text, own_spec(s), spec, sorted(oms), sorted(ms)))
                entries.append((spec, order, pseudo, ms, r['decls']))
                for n in ms:
                    for di, d in enumerate(r['decls']):
                        rank = RANK[(origin, d['imp'])]
                        cands.setdefault((n, pseudo), {}).setdefault(d['prop'], []).append(
                            ((rank, spec, si, order, di), d['vid']))
        sheets_out.append((origin, False, entries))
    # ---- attributes
    attrs_out = {}
    for e in els:
        lst = []
        if e['style']:
            lst.append(('style', e['style']))
            for di, d in enumerate(e['style']):
                cands.setdefault((e['n'], None), {}).setdefault(d['prop'], []).append(
                    ((RANK[('author', d['imp'])], (INF, 0, 0), -1, 0, di), d['vid']))
        if doc['hints']:
            for hi, (attr, val, hint) in enumerate(e['hints']):
                if hint.get('sheet'):
                    continue
                lst.append(('hint', hint['decls']))
                for di, d in enumerate(hint['decls']):
                    cands.setdefault((e['n'], None), {}).setdefault(d['prop'], []).append(
                        ((3, (0, 0, 0), -1, 1 + hi, di), d['vid']))
        attrs_out[e['n']] = lst
    # ---- winners, then inheritance top-down
    expected = {}
    decided = dict(single=0, origin=0, specificity=0, order=0, none=0, keyword=0)

    def resolve(n, pseudo, parent_vals):
        vals = {}
        for p in doc['props']:
            c = cands.get((n, pseudo), {}).get(p)
            inh = PROPS[p]['inh']
            if c:
                top = sorted(c, key=lambda kv: kv[0])
                vid = top[-1][1]
                if len(top) == 1:
                    decided['single'] += 1
                elif top[-1][0][0] != top[-2][0][0]:
                    decided['origin'] += 1
                elif top[-1][0][1] != top[-2][0][1]:
                    decided['specificity'] += 1
                else:
                    decided['order'] += 1
                if vid < 0:
                    decided['keyword'] += 1
            else:
                vid = -1 if inh else -2
                decided['none'] += 1
            if vid == -1:
                vid = parent_vals[p] if parent_vals is not None else 0
            elif vid == -2:
                vid = 0
            vals[p] = vid
        return vals

    def down(e, parent_vals):
        vals = parent_vals
        if e['n'] is not None:
            vals = resolve(e['n'], None, parent_vals)
            expected[(e['n'], '')] = vals
            expected[(e['n'], 'before')] = resolve(e['n'], 'before', vals)
        for k in e['kids']:
            down(k, vals)
    down(doc['html'], None)
    return dict(expected=expected, sheets=sheets_out, attrs=attrs_out, selfcheck=selfcheck, decided=decided,
                ordered=ordered, matcher=M)


# ---------------------------------------------------------------------------------------------- Coq terms

def spec_lit(s):
    if s[0] == INF:
        return '(Inf, %d, %d)' % (s[1], s[2])
    return '(Fin %d, %d, %d)' % s


def rd_lit(d):
    return '(mkr %d %s %s)' % (PROPS[d['prop']]['pid'], zlit(d['vid']), blit(d['imp']))


def coq_tree_case(doc, ref, observed):
    """observed: {(n, pseudo): [ids]} ; nodes in preorder: element, its ::before (if observed), children"""
    origin_lit = {'ua': 'UA', 'user': 'User', 'author': 'Author'}
    tracked = set(doc['props'])
    obs_rows = []

    def node(e):
        n = e['n']
        attrs = []
        for kind, ds in ref['attrs'][n]:
            ds = [d for d in ds if d['prop'] in tracked]
            attrs.append('(%s, [%s])' % ('style_attr_spec' if kind == 'style' else 'hint_spec',
                                          '; '.join(rd_lit(d) for d in ds)))
        sheets = []
        for origin, override, entries in ref['sheets']:
            ms = []
            for spec, order, pseudo, mset, decls in entries:
                if n in mset:
                    ds = [d for d in decls if d['prop'] in tracked]
                    ms.append('(%s, %d, %d, [%s])' % (spec_lit(spec), order, 1 if pseudo == 'before' else
                                                      (0 if pseudo is None else 2), '; '.join(rd_lit(d) for d in ds)))
            sheets.append('(%s, %s, [%s])' % (origin_lit[origin], 'Some hint_spec' if override else 'None',
                                              '; '.join(ms)))
        hb = (n, 'before') in observed
        obs_rows.append(observed.get((n, ''), []))
        if hb:
            obs_rows.append(observed[(n, 'before')])
        kids = [node(k) for k in e['kids'] if k['n'] is not None]
        return '(CNode [%s] [%s] %s [%s])' % ('; '.join(attrs), '; '.join(sheets), blit(hb), '; '.join(kids))
    t = node(doc['html'])
    props = '[%s]' % '; '.join(str(PROPS[p]['pid']) for p in doc['props'])
    inhs = '[%s]' % '; '.join(str(PROPS[p]['pid']) for p in doc['props'] if PROPS[p]['inh'])
    obs = '[%s]' % '; '.join('[%s]' % '; '.join(zlit(v) for v in row) for row in obs_rows)
    return '(%s, %s, %s, %s)' % (props, inhs, t, obs)


# =============================================================================================== generators

def gen_decls(rng, props, vid, k=None, imp_p=0.25, keywords=True):
    out = []
    for _ in range(k or rng.choice([1, 1, 2, 3])):
        p = rng.choice(props)
        r = rng.random() if keywords else 1.0
        if r < 0.07:
            v, val = -1, 'inherit'
        elif r < 0.13:
            v, val = -2, 'initial'
        else:
            vid[0] += 1
            v, val = vid[0], PROPS[p]['enc'](vid[0])
        out.append(dict(prop=p, val=val, imp=rng.random() < imp_p, vid=v))
    return out


def gen_rule(rng, els, props, vid, imp_p=0.25):
    sels = [gen_selector(rng, els) for _ in range(rng.choice([1, 1, 1, 2]))]
    return dict(sels=sels, decls=gen_decls(rng, props, vid, imp_p=imp_p))


def gen_items(rng, els, props, vid, nrules, files_counter, allow_import=True, depth=0):
    items = []
    if allow_import and rng.random() < 0.3 and depth < 2:
        files_counter[0] += 1
        url = 'http://mem/i%d.css' % files_counter[0]
        sub = gen_items(rng, els, props, vid, rng.choice([1, 1, 2]), files_counter, True, depth + 1)
        media = rng.choice([None, None, ['print'], ['screen'], ['all'], ['screen', 'print']])
        items.append(('import', url, media, sub))
    for _ in range(nrules):
        r = rng.random()
        if r < 0.15:
            inner = [('rule', gen_rule(rng, els, props, vid))]
            if rng.random() < 0.2:
                inner.append(('rule', gen_rule(rng, els, props, vid)))
            items.append(('media', rng.choice([['print'], ['screen'], ['all'], ['screen', 'print'], ['speech']]),
                          inner))
        elif r < 0.2:
            # noise that must be ignored as a whole: unknown pseudo-class in a selector list / invalid value
            rr = gen_rule(rng, els, props, vid)
            rr['seltexts'] = [sel_text(rr['sels'][0]), rng.choice(['p:bogus-class', 'div::bogus-element', 'p >'])]
            rr['invalid'] = True
            items.append(('rule', rr))
        else:
            items.append(('rule', gen_rule(rng, els, props, vid)))
    if allow_import and rng.random() < 0.1 and depth == 0 and items and items[-1][0] != 'import':
        # @import after a rule: ignored
        files_counter[0] += 1
        url = 'http://mem/i%d.css' % files_counter[0]
        items.append(('import', url, None, [('rule', gen_rule(rng, els, props, vid))]))
    return items


HINT_TAGS = {'font': 'color', 'body': None, 'img': 'hspace'}


def add_hints(rng, els, props, vid):
    for e in els:
        if e['tag'] == 'font' and 'color' in props and rng.random() < 0.7:
            vid[0] += 1
            d = dict(prop='color', val=PROPS['color']['enc'](vid[0]), imp=False, vid=vid[0])
            e['hints'].append(('color', d['val'], dict(decls=[d])))
        if e['tag'] == 'body':
            if 'margin-left' in props and rng.random() < 0.5:
                vid[0] += 1
                d = dict(prop='margin-left', val='%dpx' % vid[0], imp=False, vid=vid[0])
                e['hints'].append((rng.choice(['marginwidth', 'leftmargin']), str(vid[0]), dict(decls=[d])))
            if 'color' in props and rng.random() < 0.5:
                vid[0] += 1
                d = dict(prop='color', val=PROPS['color']['enc'](vid[0]), imp=False, vid=vid[0])
                e['hints'].append(('text', d['val'], dict(decls=[d])))
        if e['tag'] == 'img' and 'margin-left' in props and rng.random() < 0.8:
            vid[0] += 1
            d = dict(prop='margin-left', val='%dpx' % vid[0], imp=False, vid=vid[0])
            e['hints'].append(('hspace', str(vid[0]), dict(decls=[d])))
    # find_style_attributes yields the body hints in a fixed order: margins, then text
    for e in els:
        if e['tag'] == 'body':
            e['hints'].sort(key=lambda h: 0 if h[0] in ('marginwidth', 'leftmargin') else 1)


def finding_listed(sig):
    return any(k.get('signature') == sig for k in common.load_known())


def gen_doc(rng, attr_case=False):
    nmax = rng.choice([4, 6, 8, 10, 12, 12])
    html, els = gen_tree(rng, nmax)
    props = rng.sample(INH_PROPS, 2) + rng.sample(NON_PROPS, 2)
    vid = [0]
    fc = [0]
    nrules = rng.randint(1, 8)
    kinds = ['ua'] + rng.choice([[], ['user'], ['user'], ['user', 'user']]) + \
        rng.choice([['style'], ['style', 'link'], ['link', 'style'], ['style', 'style'], ['style', 'link', 'style'],
                    ['link']])
    split = [0] * len(kinds)
    for _ in range(nrules):
        split[rng.randrange(len(kinds))] += 1
    sheets = []
    for kind, k in zip(kinds, split):
        sh = dict(kind=kind, items=gen_items(rng, els, props, vid, k, fc, allow_import=(kind != 'ua')))
        if kind in ('style', 'link') and rng.random() < 0.25:
            sh['media'] = rng.choice([['print'], ['screen'], ['all'], ['screen', 'print'], []])
        if kind == 'link' and rng.random() < 0.12:
            sh['rel'] = rng.choice(['alternate stylesheet', 'Stylesheet', 'stylesheet alternate', 'icon'])
        if kind == 'style' and rng.random() < 0.06:
            sh['type'] = rng.choice(['text/plain', 'text/css; charset=utf-8'])
        if attr_case and kind in ('style', 'link') and rng.random() < 0.08:
            # HTML: media types and the type attribute match ASCII case-insensitively (finding c06-stylesheet-attr-case)
            if rng.random() < 0.5:
                sh['media'] = [m.upper() for m in (sh.get('media') or ['print', 'screen'])]
            elif kind == 'style':
                sh['type'] = 'TEXT/CSS'
            sh['attr_case'] = True
        sheets.append(sh)
    # one author <style> may sit in the body (document order still decides)
    body_styles = [s for s in sheets if s['kind'] == 'style']
    if body_styles and rng.random() < 0.2:
        s = body_styles[-1]
        s['place'] = els[1]
        s['at'] = len(els[1]['kids'])
    for e in els:
        if rng.random() < 0.3:
            e['style'] = gen_decls(rng, props, vid, k=rng.choice([1, 1, 2]), imp_p=0.15)
    add_hints(rng, els, props, vid)
    return dict(html=html, els=els, sheets=sheets, props=props, device=rng.choice(['print', 'print', 'print', 'screen']),
                hints=rng.random() < 0.5, attr_case=any(s.get('attr_case') for s in sheets))


# ---- exhaustive pairs / triples for one property (text-align) on one target element

KINDS = [
    ('ua', 'T', False), ('ua', 'T', True),
    ('user', 'T', False), ('user', '#t', False), ('user', 'T', True),
    ('style1', '*', False), ('style1', 'T', False), ('style1', '.c', False), ('style1', '#t', False),
    ('style1', 'T', True), ('style1', '#t', True),
    ('link', '.c', False), ('import', '.c', False), ('style2', '.c', False), ('style2', 'T', True),
    ('attr', None, False), ('attr', None, True), ('hint', None, False),
]
TVALS = ['right', 'center', 'justify']


def tuple_doc(kinds, target_tag, layout):
    """kinds: tuple of indices into KINDS, declared in this order; target: <div|p id=t class=c>"""
    html = new_el('html', 0)
    head = new_el('head')
    body = new_el('body', 1)
    tgt = new_el(target_tag, 2, id='t', classes=['c'], text='ab')
    kid = new_el('span', 3, text='a')
    html['kids'] = [head, body]
    body['kids'] = [tgt]
    tgt['kids'] = [kid]
    for e, p in ((head, html), (body, html), (tgt, body), (kid, tgt)):
        e['parent'] = p
    els = [html, body, tgt, kid]
    cont = {c: [] for c in ('ua', 'user', 'style1', 'link', 'import', 'style2')}
    hints = False
    for pos, ki in enumerate(kinds):
        c, s, imp = KINDS[ki]
        val = TVALS[pos]
        d = dict(prop='text-align', val=val, imp=imp, vid=ALIGN[val])
        if c == 'attr':
            tgt['style'].append(d)
        elif c == 'hint':
            hints = True
            if not tgt['hints']:
                hd = dict(prop='text-align', val='left', imp=False, vid=ALIGN['left'])
                if target_tag == 'div':
                    tgt['hints'].append(('align', 'left', dict(decls=[hd])))
                else:     # p[align=left i] lives in the presentational hints sheet
                    tgt['hints'].append(('align', 'left', dict(sheet=True, decl=hd, order=14)))
        else:
            seltext = {'T': target_tag, '*': '*', '.c': '.c', '#t': '#t'}[s]
            part = dict(tag=target_tag if s == 'T' else None, id='t' if s == '#t' else None,
                        classes=['c'] if s == '.c' else [], attrs=[], pcs=[])
            cont[c].append(('rule', dict(sels=[dict(parts=[(None, part)], pseudo=None)], decls=[d])))
    sheets = [dict(kind='ua', items=cont['ua'])]
    if cont['user']:
        sheets.append(dict(kind='user', items=cont['user']))
    s1 = list(cont['style1'])
    if cont['import']:
        s1 = [('import', 'http://mem/i1.css', None, cont['import'])] + s1
    author = []
    if s1:
        author.append(dict(kind='style', items=s1))
    if cont['link']:
        author.append(dict(kind='link', items=cont['link']))
    if layout == 1:
        author.reverse()
    if cont['style2']:
        author.append(dict(kind='style', items=cont['style2']))
    sheets += author
    return dict(html=html, els=els, sheets=sheets, props=['text-align'], device='print', hints=hints,
                kinds=list(kinds), target=target_tag, layout=layout)


# ---- @import DAGs: repeated URLs, diamonds, media lists, misplaced imports

def gen_import_doc(rng):
    html, els = gen_tree(rng, rng.choice([4, 5, 6, 7]))
    props = [rng.choice(INH_PROPS)] + rng.sample(NON_PROPS, 2)
    vid = [0]
    pool = []
    for _ in range(rng.choice([2, 3, 3])):
        s = gen_selector(rng, [e for e in els if e['n'] >= 1])
        s['pseudo'] = None
        pool.append(s)

    def rule(imp_p=0.12):
        sels = [rng.choice(pool)] if rng.random() < 0.8 else [rng.choice(pool), rng.choice(pool)]
        return dict(sels=sels, decls=gen_decls(rng, props, vid, k=rng.choice([1, 1, 2]), imp_p=imp_p, keywords=False))

    def noise():
        rr = rule()
        rr['seltexts'] = [sel_text(rr['sels'][0]), 'p:bogus-class']
        rr['invalid'] = True
        return ('rule', rr)

    def media():
        return rng.choice([None, None, None, ['print'], ['screen'], ['all'], ['screen', 'print'], ['speech']])
    nfiles = rng.randint(2, 5)
    levels = sorted(rng.choice([1, 2, 2, 3, 3]) for _ in range(nfiles))
    urls = ['http://mem/d%d.css' % i for i in range(nfiles)]
    files = {}

    def imports_from(cands, k):
        """k import items among cands (with repetitions: the same URL before and after another one)"""
        out = []
        if not cands or k == 0:
            return out
        picks = [rng.choice(cands) for _ in range(k)]
        if k >= 2 and rng.random() < 0.5:
            picks[-1] = picks[0]                      # u ... u
        for u in picks:
            out.append(('import', u, media(), files[u]))
        return out
    for i in reversed(range(nfiles)):
        deeper = [urls[j] for j in range(nfiles) if levels[j] > levels[i]]
        items = []
        if rng.random() < 0.12:
            items.append(noise())                     # an ignored rule does not close the @import section
        items += imports_from(deeper, rng.choice([0, 1, 1, 2, 3]))
        for _ in range(rng.choice([1, 1, 2])):
            if rng.random() < 0.12:
                inner = [('rule', rule())]
                if deeper and rng.random() < 0.4:
                    u = rng.choice(deeper)
                    inner.insert(0, ('import', u, None, files[u]))        # inside @media: ignored
                items.append(('media', rng.choice([['print'], ['screen'], ['all']]), inner))
            else:
                items.append(('rule', rule()))
        if deeper and rng.random() < 0.15:
            u = rng.choice(deeper)
            items.append(('import', u, None, files[u]))       # after a rule: ignored
        files[urls[i]] = items
    kinds = rng.choice([['style'], ['style', 'style'], ['style', 'link'], ['link', 'user'], ['ua', 'style'],
                        ['user', 'style'], ['style', 'user', 'link'], ['ua', 'user', 'style', 'link']])
    if 'ua' not in kinds:
        kinds = ['ua'] + kinds
    sheets = []
    for kind in kinds:
        if kind == 'ua' and rng.random() < 0.6:
            sheets.append(dict(kind='ua', items=[]))
            continue
        items = []
        if rng.random() < 0.08:
            items.append(noise())
        items += imports_from(urls, rng.choice([1, 2, 2, 3, 3, 4]))
        for _ in range(rng.choice([0, 1, 1, 2])):
            items.append(('rule', rule()))
        if rng.random() < 0.1:
            u = rng.choice(urls)
            items.append(('import', u, None, files[u]))
        sh = dict(kind=kind, items=items)
        if kind in ('style', 'link') and rng.random() < 0.1:
            sh['media'] = rng.choice([['print'], ['screen'], ['all']])
        sheets.append(sh)
    for e in els:
        if rng.random() < 0.15:
            e['style'] = gen_decls(rng, props, vid, k=1, imp_p=0.1, keywords=False)
        e['before'] = False
    return dict(html=html, els=els, sheets=sheets, props=props, device=rng.choice(['print', 'print', 'screen']),
                hints=False, import_dag=True, ua_first=True, render=rng.random() < 0.3)


def expected_fetches(doc, ref):
    """the URLs in the order the text demands them: user sheets are built first (by the caller of render), then the
    user-agent sheet, then the author sheets in document order; inside a sheet every honoured @import, depth first,
    each time it is met"""
    device = doc['device']
    out = []

    def walk(items, top=True):
        seen_other = not top
        for it in items:
            if it[0] == 'import':
                if seen_other or (it[2] and not media_applies(it[2], device)):
                    continue
                out.append(it[1])
                walk(doc['files_items'][it[1]])
            elif it[0] == 'rule':
                if not it[1].get('invalid'):
                    seen_other = True
            elif it[0] == 'media':
                seen_other = True
                if media_applies(it[1], device):
                    walk(it[2], False)
    by_kind = lambda k: [s for s in doc['sheets'] if s['kind'] == k]
    for s in by_kind('user'):
        walk(s['items'])
    for s in by_kind('ua'):
        walk(s['items'])
    li = 0
    for s in doc['sheets']:
        if s['kind'] == 'link':
            li += 1
            s['url'] = 'http://mem/l%d.css' % li
    for origin, s in ref['ordered']:
        if origin != 'author':
            continue
        if s['kind'] == 'link':
            out.append(s['url'])
        walk(s['items'])
    return out


def coq_import_case(doc, ref, e, obs_ids):
    """the stylesheet texts seen from element e, for judge_imports"""
    M = ref['matcher']
    device = doc['device']
    n = e['n']
    tracked = [p for p in doc['props']]
    url_id = {u: i + 1 for i, u in enumerate(sorted(doc['files_items']))}

    def mq(types):
        return '(evaluate_media_query [%s] %s)' % ('; '.join(slit(t) for t in (types or ['all'])), slit(device))

    def item(it):
        if it[0] == 'rule':
            r = it[1]
            ds = '[%s]' % '; '.join(rd_lit(d) for d in r['decls'] if d['prop'] in tracked)
            if r.get('invalid'):
                return '(IRule false [] %s)' % ds
            sels = []
            for text in [sel_text(x) for x in r['sels']]:
                (spec, pseudo, ms), = M.info(text)
                sels.append('(%s, %d, %s)' % (spec_lit(spec), 1 if pseudo == 'before' else 0 if pseudo is None else 2,
                                              blit(n in ms)))
            return '(IRule true [%s] %s)' % ('; '.join(sels), ds)
        if it[0] == 'import':
            return '(IImport %d %s)' % (url_id[it[1]], mq(it[2]))
        if it[0] == 'media':
            return '(IMedia %s [%s])' % (mq(it[1]), '; '.join(item(x) for x in it[2]))
        raise ValueError(it[0])
    files = '[%s]' % '; '.join('(%d, [%s])' % (url_id[u], '; '.join(item(x) for x in doc['files_items'][u]))
                               for u in sorted(doc['files_items']))
    origin_lit = {'ua': 'UA', 'user': 'User', 'author': 'Author'}
    tops = '[%s]' % '; '.join('(%s, [%s])' % (origin_lit[o], '; '.join(item(x) for x in s['items']))
                              for o, s in ref['ordered'])
    attrs = []
    for kind, ds in ref['attrs'][n]:
        attrs.append('(%s, [%s])' % ('style_attr_spec' if kind == 'style' else 'hint_spec',
                                      '; '.join(rd_lit(d) for d in ds if d['prop'] in tracked)))
    obs = '[%s]' % '; '.join('(%d, %s)' % (PROPS[p]['pid'], zlit(v)) for p, v in zip(doc['props'], obs_ids)
                             if not PROPS[p]['inh'])
    return '(%s, %s, [%s], %s)' % (files, tops, '; '.join(attrs), obs)


# =============================================================================================== judging

def observe(doc, out, where):
    """impl output -> {(n, pseudo): [ids]}; undecodable values are reported"""
    obs, bad = {}, []
    for key, vals in out[where].items():
        n, pseudo = key.split('|')
        ids = []
        for p, v in zip(doc['props'], vals):
            i = PROPS[p]['dec'](v)
            if i is None:
                bad.append((key, p, v))
                i = -99
            ids.append(i)
        obs[(int(n), pseudo)] = ids
    return obs, bad


def compare(doc, ref, obs):
    diffs = []
    for (n, pseudo), ids in sorted(obs.items()):
        exp = ref['expected'].get((n, pseudo))
        if exp is None:
            continue
        for p, i in zip(doc['props'], ids):
            if exp[p] != i:
                diffs.append(dict(element=n, pseudo=pseudo, prop=p, expected=exp[p], got=i))
    return diffs


def doc_signature(doc, diffs):
    return None


def slim(doc):
    """JSON-able copy of a structured document (parents removed)"""
    def el(e):
        return {k: ([el(x) for x in v] if k == 'kids' else v) for k, v in e.items()
                if k not in ('parent', 'sheet', 'place')}
    out = {k: v for k, v in doc.items() if k not in ('html', 'els', 'sheets', 'files_items')}
    out['tree'] = el(doc['html'])
    return out


def run_cascade_stream(run, name, docs, thorough):
    """renders + reference + Coq judge for a list of structured documents"""
    cases = []
    for d in docs:
        cases.append(build_doc(d))
    outs = common.run_impl('impl_c06', 'render_styles', cases, limit=60)
    coq_cases, kept = [], []
    n_el = n_decided = 0
    skipped = 0
    selfbad = []
    stats = dict(style_attrs=0, hint_attrs=0, pseudo_elements=0, fetched_sheets=0, decided_by_origin=0,
                 decided_by_specificity=0, decided_by_order=0, single_candidate=0, no_declaration=0,
                 inherit_initial_keyword_wins=0)
    keys = []
    failures = 0
    import_cases, import_kept = [], []
    for d, c, (st, o) in zip(docs, cases, outs):
        if st != 'ok':
            failures += 1
            run.fail('%s: render %s %s' % (name, st, (o or {}).get('type')),
                     {'stream': name, 'case': c, 'outcome': o},
                     signature='c06-crash:%s' % ((o or {}).get('site'),))
            continue
        ref = reference(d, c)
        if ref is None:
            skipped += 1
            continue
        selfbad += ref['selfcheck']
        obs, bad = observe(d, o, 'direct')
        obs_boxes, bad2 = observe(d, o, 'boxes')
        for key, p, v in (bad + bad2)[:1]:
            failures += 1
            run.fail('%s: computed value of %s on element %s is not one of the declared values nor the initial '
                     'value: %r' % (name, p, key, v), {'stream': name, 'case': c, 'element': key, 'prop': p,
                                                         'value': v, 'doc': slim(d)}, signature='c06-undecodable')
        diffs = compare(d, ref, obs)
        diffs_b = compare(d, ref, obs_boxes)
        for df in (diffs or diffs_b)[:1]:
            failures += 1
            run.fail('%s: element data-n=%s%s property %s: the cascade selects value id %s, the implementation '
                     'has %s (%s)' % (name, df['element'], '::' + df['pseudo'] if df['pseudo'] else '', df['prop'],
                                      df['expected'], df['got'], 'style_for' if diffs else 'box.style'),
                     {'stream': name, 'case': c, 'diff': df, 'all_diffs': (diffs or diffs_b)[:10],
                      'doc': slim(d)},
                     signature='c06-stylesheet-attr-case' if d.get('attr_case') else 'c06-cascade-mismatch')
        if d.get('attr_case') and (diffs or diffs_b):
            continue
        n_el += len(obs)
        n_decided += len(obs) * len(d['props'])
        coq_cases.append(coq_tree_case(d, ref, obs))
        kept.append((d, c))
        if d.get('import_dag'):
            exp_fetch = expected_fetches(d, ref)
            got_fetch = [u for u in o['fetched']]
            stats['fetches'] = stats.get('fetches', 0) + len(got_fetch)
            stats['repeated_fetches'] = stats.get('repeated_fetches', 0) + len(got_fetch) - len(set(got_fetch))
            if exp_fetch != got_fetch:
                run.fail('%s: the stylesheets are not fetched as the text orders: expected %s, the fetcher saw %s'
                         % (name, [u.split('/')[-1] for u in exp_fetch], [u.split('/')[-1] for u in got_fetch]),
                         {'stream': name, 'case': c, 'expected_fetches': exp_fetch, 'fetched': got_fetch,
                          'doc': slim(d)}, signature='c06-import-fetch-sequence')
            for e in d['els']:
                # elements on which at least two sheet rules or a rule and an attribute compete
                ncand = sum(1 for _, _, entries in ref['sheets'] for en in entries if e['n'] in en[3]) + bool(e['style'])
                if (e['n'], '') in obs and ncand >= 2:
                    import_cases.append(coq_import_case(d, ref, e, obs[(e['n'], '')]))
                    import_kept.append((d, c, e['n']))
        for e in d['els']:
            stats['style_attrs'] += bool(e['style'])
            stats['hint_attrs'] += bool(e['hints']) and d['hints']
        stats['pseudo_elements'] += sum(1 for k in obs if k[1] == 'before')
        stats['fetched_sheets'] += len(c['files'])
        dc = ref['decided']
        stats['decided_by_origin'] += dc['origin']
        stats['decided_by_specificity'] += dc['specificity']
        stats['decided_by_order'] += dc['order']
        stats['single_candidate'] += dc['single']
        stats['no_declaration'] += dc['none']
        stats['inherit_initial_keyword_wins'] += dc['keyword']
        if dc['origin'] + dc['specificity'] + dc['order']:
            keys.append(json.dumps([c['html'], c['files'], c['ua_css'], c['user_css'], c['media'], c['hints']],
                                   sort_keys=True))
    run.oblige('selftest:%s own matcher and specificity agree with cssselect2' % name, not selfbad, str(selfbad[:3]))
    try:
        masks = common.eval_cases('c06' + name.replace('-', ''), PRE,
                                  'list Z * list Z * ctree * list (list Z)', coq_cases, 'judge_tree', per_file=120)
        mism = [(d, c) for (d, c), m in zip(kept, masks) if m & 1]
        specbad = [(d, c) for (d, c), m in zip(kept, masks) if m & 2]
        run.oblige('corr:%s(Coq fold + inheritance model vs box styles)' % name, not mism,
                   'first disagreement: %s' % (json.dumps(mism[0][1])[:3000] if mism else ''))
        for d, c in specbad[:2]:
            run.fail('%s: the implementation\'s styles are not the maximum for (origin/importance, specificity, '
                     'source order) + inheritance (Coq spec_styles)' % name,
                     {'stream': name, 'case': c, 'doc': slim(d)}, signature='c06-cascade-mismatch')
    except RuntimeError as exc:
        run.oblige('corr:%s' % name, False, str(exc))
    if import_cases:
        try:
            masks = common.eval_cases('c06' + name.replace('-', '') + 'imp', PRE,
                                      'icase', import_cases, 'judge_imports', per_file=60)
            mism = [k for k, m in zip(import_kept, masks) if m & 1]
            specbad = [k for k, m in zip(import_kept, masks) if m & 2]
            run.oblige('corr:%s(Coq model of the @import walk + cascade vs styles)' % name, not mism,
                       'first disagreement: element %s of %s' % (mism[0][2], json.dumps(mism[0][1])[:3000]) if mism else '')
            for d, c, n in specbad[:2]:
                run.fail('%s: element data-n=%s: the styles are not those of the textually flattened stylesheets '
                         '(every @import substituted at its place, each time; Coq inline/text_rules/key_max)' % (name, n),
                         {'stream': name, 'case': c, 'element': n, 'doc': slim(d)}, signature='c06-cascade-mismatch')
            stats['import_cases'] = len(import_cases)
        except RuntimeError as exc:
            run.oblige('corr:%s(imports)' % name, False, str(exc))
    run.count(name, len(kept), keys, samples=[kept[0][1]['html'][:500]] if kept else [])
    run.stream_info(name, elements=n_el, decided_values=n_decided, discarded_docs=skipped, **stats)
    return kept


# ---------------------------------------------------------------------------------------------- direct streams

UNITS = {'px': 'Px', 'pt': 'Pt', 'pc': 'Pc', 'in': 'In_', 'cm': 'Cm', 'mm': 'Mm', 'q': 'Qu', 'em': 'Em', 'ex': 'Ex',
         'ch': 'Ch', 'rem': 'Rem', '%': 'Pct'}
FS_KW = ['xx-small', 'x-small', 'small', 'medium', 'large', 'x-large', 'xx-large']


def env_lit(c):
    return '{| own_fs := %s; root_fs := %s; ex_ratio := %s; ch_ratio := %s; is_root := %s |}' % (
        qlit(c.get('own_fs') or 0), qlit(c.get('root_fs', 16)), qlit(c.get('exr', '1/2')), qlit(c.get('chr', '1/2')),
        blit(c['is_root'] if 'is_root' in c else c.get('parent_fs') is None and c.get('parent_fw') is None))


def oq(x):
    return 'None' if x is None else '(Some %s)' % qlit(x)


def oz(x):
    return 'None' if x is None else '(Some %s)' % zlit(x)


def rq(rng, lo=0, hi=64):
    r = rng.random()
    if r < 0.2:
        return str(rng.choice([0, 1, 10, 16, 12, 32, 24]))
    return str(Fraction(rng.randint(lo * 8, hi * 8), rng.choice([1, 2, 4, 8, 3, 5])))


def gen_direct(rng, thorough):
    cases = []     # (fn, case, coq builder)
    # declaration_precedence: exhaustive
    for o in ['user agent', 'user', 'author', 'User', 'agent', '', 'author ']:
        for imp in [True, False]:
            cases.append(('prec', (o, imp), None))
    # evaluate_media_query: all lists of length <= 3 over 5 tokens x 3 devices
    toks = ['all', 'print', 'screen', 'speech', '']
    for k in range(4):
        for ql in itertools.product(toks, repeat=k):
            for dev in ['print', 'screen', 'all']:
                cases.append(('media', (list(ql), dev), None))
    n = 1500 if thorough else 400
    units = list(UNITS)
    for _ in range(n):
        base = dict(own_fs=rq(rng), root_fs=rq(rng), exr=str(Fraction(rng.randint(1, 9), 10)),
                    chr=str(Fraction(rng.randint(1, 9), 10)))
        r = rng.random()
        if r < 0.4:
            c = dict(base, fs=rng.choice([None, None, rq(rng)]), pixels_only=rng.random() < 0.5,
                     is_root=rng.random() < 0.4, name=rng.choice(['margin_left', 'margin_left', 'font_size']),
                     value=rng.choice(['auto', 'content', 'from-font']) if rng.random() < 0.08 else
                     [rq(rng, -8, 40), rng.choice(units)])
            if c['is_root']:
                c['root_fs'] = '16'       # set_computed_styles: the root element's root_style is the initial size
            cases.append(('length', c, None))
        elif r < 0.75:
            rr = rng.random()
            v = rng.choice(FS_KW) if rr < 0.2 else 'larger' if rr < 0.35 else 'smaller' if rr < 0.5 else \
                [rq(rng, 0, 40), rng.choice(units)]
            c = dict(base, parent_fs=rng.choice([None, rq(rng), rq(rng), rq(rng, 0, 8)]), value=v)
            c.pop('own_fs')
            if c['parent_fs'] is None:
                c['root_fs'] = '16'
            cases.append(('font_size', c, None))
        else:
            rr = rng.random()
            v = 'normal' if rr < 0.1 else [rq(rng, 0, 4), None] if rr < 0.4 else [rq(rng, 0, 300), '%'] if rr < 0.7 \
                else [rq(rng, 0, 40), rng.choice([u for u in units if u != '%'])]
            c = dict(base, value=v, is_root=rng.random() < 0.4)
            if c['is_root']:
                c['root_fs'] = '16'
            cases.append(('line_height', c, None))
    # larger / smaller around every table boundary
    for b in [Fraction(48, 5), 12, Fraction(128, 9), 16, Fraction(96, 5), 24, 32]:
        for dlt in [Fraction(-1, 100), 0, Fraction(1, 100)]:
            if dlt == 0 and Fraction(b).denominator != 1:
                continue          # 9.6, 14.22.., 19.2 are not floats: the exact boundary is a rounding matter
            for v in ('larger', 'smaller'):
                cases.append(('font_size', dict(parent_fs=str(b + dlt), root_fs='16', value=v), None))
    # font-weight: exhaustive over the valid weights, plus the root
    for pw in [None, 100, 200, 300, 400, 500, 600, 700, 800, 900]:
        for v in ['normal', 'bold', 'bolder', 'lighter', 100, 400, 900]:
            cases.append(('font_weight', dict(parent_fw=pw, value=v), None))
    return cases


def lval_lit(v):
    if isinstance(v, str):
        return 'LKeyword'
    return '(LDim %s %s)' % (qlit(v[0]), UNITS[v[1]])


def coq_direct(fn, c, st, o):
    if fn == 'prec':
        out = oz(o) if st == 'ok' else 'None'
        return '(DPrec %s %s %s)' % (slit(c[0]), blit(c[1]), out)
    if fn == 'media':
        return '(DMedia [%s] %s %s)' % ('; '.join(slit(x) for x in c[0]), slit(c[1]), blit(o))
    if fn == 'length':
        out = None if o == 'same' else Fraction(o)
        return '(DLen %s %s %s %s %s)' % (env_lit(c), blit(c.get('name') == 'font_size'), oq(c.get('fs')),
                                          lval_lit(c['value']), oq(out))
    if fn == 'font_size':
        v = c['value']
        if v in FS_KW:
            vl = '(FKeyword %d%%nat)' % FS_KW.index(v)
        elif v == 'larger':
            vl = 'FLarger'
        elif v == 'smaller':
            vl = 'FSmaller'
        else:
            vl = '(FDim %s %s)' % (qlit(v[0]), UNITS[v[1]])
        return '(DFs %s %s %s %s)' % (env_lit(c), oq(c.get('parent_fs')), vl, oq(Fraction(o)))
    if fn == 'font_weight':
        v = c['value']
        vl = {'normal': 'WNormal', 'bold': 'WBold', 'bolder': 'WBolder', 'lighter': 'WLighter'}.get(v) or \
            '(WNum %s)' % zlit(v)
        return '(DFw %s %s %s)' % (oz(c.get('parent_fw')), vl, oz(o) if st == 'ok' else 'None')
    if fn == 'line_height':
        v = c['value']
        vl = 'HNormal' if v == 'normal' else '(HNumber %s)' % qlit(v[0]) if v[1] is None else \
            '(HPct %s)' % qlit(v[0]) if v[1] == '%' else '(HLen %s %s)' % (qlit(v[0]), UNITS[v[1]])
        out = 'RNormal' if o == ['normal'] else '(%s %s)' % ('RNumber' if o[0] == 'NUMBER' else 'RPixels',
                                                             qlit(Fraction(o[1])))
        return '(DLh %s %s %s)' % (env_lit(c), vl, out)
    raise ValueError(fn)


def run_direct(run, rng, thorough, extra=()):
    """extra: (fn, case) pairs run in the same worker pool; their results are returned"""
    cases = gen_direct(rng, thorough)
    by_fn = {}
    for fn, c, _ in cases:
        by_fn.setdefault(fn, []).append(c)
    flat = [(fn, c) for fn, cs in by_fn.items() for c in cs]
    res = common.run_impl('impl_c06', 'direct', list(extra) + flat, chunksize=16, limit=60)
    extra_res, res = res[:len(extra)], res[len(extra):]
    results, k = {}, 0
    for fn, cs in by_fn.items():
        results[fn] = res[k:k + len(cs)]
        k += len(cs)
    coq_cases, kept = [], []
    for fn, cs in by_fn.items():
        for c, (st, o) in zip(cs, results[fn]):
            if st == 'exc' and fn == 'prec' and o['type'] == 'AssertionError':
                pass
            elif st != 'ok':
                run.fail('%s raised %s on %r' % (fn, (o or {}).get('type'), c),
                         {'stream': 'values-direct', 'fn': fn, 'case': c, 'outcome': o},
                         signature='c06-direct-raise:%s' % fn)
                continue
            coq_cases.append(coq_direct(fn, c, st, o))
            kept.append((fn, c, o))
    # the order of the five levels, on the implementation's own answers
    tbl = {c: o for c, (st, o) in zip(by_fn['prec'], results['prec']) if st == 'ok'}
    try:
        ok = (tbl[('user agent', False)] == tbl[('user agent', True)] < tbl[('user', False)] < tbl[('author', False)]
              < tbl[('author', True)] < tbl[('user', True)])
    except KeyError:
        ok = False
    if not ok:
        run.fail('declaration_precedence does not order user agent < user < author < author! < user!: %r' % (tbl,),
                 {'stream': 'prec-direct', 'table': {str(k): v for k, v in tbl.items()}},
                 signature='c06-precedence-order')
    try:
        masks = common.eval_cases('c06direct', PRE, 'dcase', coq_cases, 'judge_direct',
                                  per_file=400)
        mism = [(fn, c, o) for (fn, c, o), m in zip(kept, masks) if m & 1]
        for fn in sorted(by_fn):
            run.oblige('corr:%s-direct(hand model vs CPython)' % fn.replace('_', '-'),
                       not [x for x in mism if x[0] == fn], 'first disagreements: %s' % [x for x in mism if x[0] == fn][:3])
        for (fn, c, o), m in zip(kept, masks):
            if m & 2:
                run.fail('%s%r = %r contradicts the CSS definition (Coq spec)' % (fn, c, o),
                         {'stream': 'values-direct', 'fn': fn, 'case': c, 'impl_output': o},
                         signature='c06-direct-spec:%s' % fn)
                break
    except RuntimeError as exc:
        run.oblige('corr:values-direct', False, str(exc))
    for fn, cs in by_fn.items():
        nm = {'prec': 'prec-direct', 'media': 'media-direct'}.get(fn, 'values-direct')
        run.count(nm, len(cs), [(fn, json.dumps(c, sort_keys=True)) for c in cs], samples=[{'fn': fn, 'case': cs[-1]}])
    run.stream_info('prec-direct', rule='7 origin strings x importance, exhaustive; the 5-level order is re-checked '
                    'on the implementation answers')
    run.stream_info('media-direct', rule='all media lists of length <= 3 over {all, print, screen, speech, ""} x 3 devices')
    run.stream_info('values-direct', rule='length / font_size / line_height with Fraction stubs: random rationals, all '
                    '12 units, keywords, larger/smaller around every table boundary; font_weight exhaustive over the '
                    '9 valid parent weights + root x 7 values')
    return extra_res


# ---------------------------------------------------------------------------------------------- values through renders

VPROPS = ['font_size', 'margin_left', 'line_height', 'font_weight', 'text_indent']
ABS = {'px': Fraction(1), 'pt': Fraction(4, 3), 'pc': Fraction(16), 'in': Fraction(96), 'cm': Fraction(9600, 254),
       'mm': Fraction(960, 254), 'q': Fraction(240, 254)}


def gen_values_doc(rng):
    n = rng.randint(3, 10)
    nodes = [dict(n=0, tag='html', parent=None, kids=[]), dict(n=1, tag='body', parent=0, kids=[])]
    nodes[0]['kids'].append(1)
    for i in range(2, n):
        p = rng.choice([x for x in nodes if x['n'] >= 1 and x['tag'] in ('body', 'div')])
        tag = rng.choice(['div', 'div', 'span'])
        nodes.append(dict(n=i, tag=tag, parent=p['n'], kids=[]))
        p['kids'].append(i)

    def num(lo, hi):
        return rng.choice([Fraction(rng.randint(lo * 4, hi * 4), 4), Fraction(rng.randint(lo, hi))])
    for nd in nodes:
        st = {}
        if rng.random() < 0.65:
            r = rng.random()
            if r < 0.15:
                st['font-size'] = rng.choice(FS_KW)
            elif r < 0.3:
                st['font-size'] = rng.choice(['larger', 'smaller'])
            else:
                u = rng.choice(['px', 'em', 'em', '%', 'rem', 'pt', 'mm', 'pc', 'in', 'cm', 'q'])
                v = {'px': num(4, 40), 'em': num(0, 3), '%': num(20, 300), 'rem': num(0, 3), 'pt': num(4, 30),
                     'mm': num(1, 10), 'pc': num(0, 3), 'in': Fraction(rng.randint(1, 4), 8),
                     'cm': Fraction(rng.randint(1, 8), 8), 'q': num(4, 40)}[u]
                st['font-size'] = [v, u]
        for prop in ('margin-left', 'text-indent'):
            if rng.random() < 0.5:
                u = rng.choice(['px', 'em', 'em', 'rem', 'pt', 'mm', 'in', '%', 'pc', 'cm', 'q'])
                st[prop] = [num(0, 6) if u not in ('%',) else num(0, 50), u]
        if rng.random() < 0.5:
            r = rng.random()
            st['line-height'] = 'normal' if r < 0.1 else [num(0, 3), None] if r < 0.4 else [num(50, 250), '%'] \
                if r < 0.6 else [num(0, 3), rng.choice(['em', 'em', 'rem', 'px', 'pt'])]
        if rng.random() < 0.5:
            st['font-weight'] = rng.choice(['bolder', 'lighter', 'bolder', 'lighter', 'normal', 'bold', 100, 300, 400, 500,
                                            600, 800, 900])
        if rng.random() < 0.15:
            st[rng.choice(['font-size', 'line-height', 'font-weight', 'margin-left'])] = rng.choice(['inherit', 'initial'])
        nd['st'] = st
    return nodes


def vtext(v):
    if isinstance(v, (str, int)):
        return str(v)
    val, u = v
    f = Fraction(val)
    s = ('%d' % f) if f.denominator == 1 else ('%.4f' % float(f)).rstrip('0')
    return s + (u or '')


def values_case(nodes, via_rules):
    css = []

    def el(nd):
        decls = '; '.join('%s: %s' % (k, vtext(v)) for k, v in nd['st'].items())
        a = ' data-n="%d"' % nd['n']
        if via_rules:
            if decls:
                css.append('[data-n="%d"] { %s }' % (nd['n'], decls))
        elif decls:
            a += ' style="%s"' % decls
        inner = ''.join(el(nodes[k]) for k in nd['kids'])
        if nd['tag'] == 'html':
            return '<html%s><head><style>%s</style></head>%s</html>' % (a, '@@CSS@@', inner)
        return '<%s%s>%s%s</%s>' % (nd['tag'], a, 'a' if nd['tag'] != 'body' else '', inner, nd['tag'])
    html = el(nodes[0]).replace('@@CSS@@', '\n'.join(css))
    return dict(html='<!DOCTYPE html>' + html, ua_css=UA_BASE.replace('font-size: 10px; line-height: 10px', ''),
                user_css=[], files={}, media='print', hints=False, keys=VPROPS)


KWV = {k: Fraction(16) * f for k, f in zip(FS_KW, [Fraction(3, 5), Fraction(3, 4), Fraction(8, 9), Fraction(1),
                                               Fraction(6, 5), Fraction(3, 2), Fraction(2)])}
BOLDER = lambda w: 400 if w < 350 else 700 if w < 550 else 900 if w < 900 else w      # CSS Fonts table
LIGHTER = lambda w: w if w < 100 else 100 if w < 550 else 400 if w < 750 else 700


def near(a, b):
    return abs(float(a) - float(b)) <= 1e-9 * (1 + abs(float(b)))


def snap(x):
    """a float that is the rounding of a keyword size (16 * 8/9 ...) denotes that rational"""
    for k in KWV.values():
        if near(x, k):
            return k
    return Fraction(x)


def judge_values(nodes, obs):
    """local consistency of every element's computed values with its declarations and the OBSERVED computed values
    of its parent / the root (which composes to the whole tree by induction from the root).
    obs: {n: dict(fs, ml, lh, fw, ti)} normalized.  Returns (list of problems, list of Coq direct cases)."""
    bad, coq = [], []
    root = obs.get(0)

    def length_expected(v, own_fs, root_fs):
        val, u = Fraction(v[0]), v[1]
        if u == '%':
            return ('pct', val)      # percentages are kept, 0% included (they are resolved at layout time)
        if val == 0:
            return ('px', Fraction(0))
        if u in ABS:
            return ('px', val * ABS[u])
        return ('px', val * (own_fs if u == 'em' else root_fs))

    def same_len(exp, got):
        if exp[0] == 'pct':
            return isinstance(got, list) and got[0] == 'dim' and got[2] == '%' and near(got[1], exp[1])
        if isinstance(got, list) and got[0] == 'dim' and got[2] == 'px':
            return near(got[1], exp[1])
        return isinstance(got, (int, float)) and near(got, exp[1])

    for nd in nodes:
        n = nd['n']
        o = obs.get(n)
        if o is None:
            continue
        par = obs.get(nd['parent']) if nd['parent'] is not None else None
        is_root = nd['parent'] is None
        st = nd['st']
        pfs = Fraction(par['fs']) if par else Fraction(16)
        # the root element's computed font size is the reference of rem everywhere but in its own font-size
        rfs_font = Fraction(16) if is_root else Fraction(root['fs'])
        rfs_len = Fraction(o['fs']) if is_root else Fraction(root['fs'])
        env = dict(own_fs=str(Fraction(o['fs'])), root_fs=str(rfs_font if is_root else Fraction(root['fs'])),
                   is_root=is_root)
        # ---- font-size
        v = st.get('font-size')
        exp = None
        if v == 'initial' or (is_root and v in (None, 'inherit')):
            exp = Fraction(16)
        elif v in (None, 'inherit'):
            exp = pfs
        elif isinstance(v, str) and v in KWV:
            exp = KWV[v]
        elif v in ('larger', 'smaller'):
            ok = (o['fs'] > pfs) if v == 'larger' else (0 < o['fs'] < pfs)
            if pfs > 0 and not ok:
                bad.append((n, 'font-size', v, 'parent %s' % float(pfs), o['fs']))
        elif v[1] == '%':
            exp = Fraction(v[0]) * pfs / 100
        else:
            exp = length_expected(v, pfs, rfs_font)[1]
        if exp is not None and not near(o['fs'], exp):
            bad.append((n, 'font-size', v, float(exp), o['fs']))
        if isinstance(v, list) or v in FS_KW or v in ('larger', 'smaller'):
            coq.append(coq_direct('font_size', dict(env, parent_fs=None if is_root else str(snap(pfs)), value=
                                                    v if not isinstance(v, list) else [str(Fraction(v[0])), v[1]]),
                                  'ok', str(Fraction(o['fs']))))
        # ---- margin-left (not inherited), text-indent (inherited)
        for prop, key, inh in (('margin-left', 'ml', False), ('text-indent', 'ti', True)):
            v = st.get(prop)
            got = o[key]
            if isinstance(v, list):
                exp = length_expected(v, Fraction(o['fs']), rfs_len)
                if not same_len(exp, got):
                    sig = 'c06-rem-on-root-element' if (is_root and v[1] == 'rem') else None
                    bad.append((n, prop, v, (exp[0], float(exp[1])), got, sig))
                out = 'same' if (isinstance(got, list) and got[2] == '%') else \
                    str(Fraction(got[1] if isinstance(got, list) else got))
                coq.append(coq_direct('length', dict(env, fs=None, value=[str(Fraction(v[0])), v[1]]), 'ok', out))
            else:
                if v == 'initial' or (v is None and not inh) or (is_root and v in (None, 'inherit')):
                    ok = same_len(('px', Fraction(0)), got)
                else:
                    ok = got == par[key]
                if not ok:
                    bad.append((n, prop, v, 'parent/initial', got))
        # ---- line-height (inherited)
        v = st.get('line-height')
        got = o['lh']
        if v == 'initial' or (is_root and v in (None, 'inherit')) or v == 'normal':
            ok = got == 'normal'
        elif v in (None, 'inherit'):
            ok = got == par['lh']
        elif v[1] is None:
            ok = isinstance(got, list) and got[0] == 'NUMBER' and near(got[1], Fraction(v[0]))
        else:
            if v[1] == '%':
                e = Fraction(v[0]) / 100 * Fraction(o['fs'])
            else:
                e = length_expected(v, Fraction(o['fs']), rfs_len)[1]
            ok = isinstance(got, list) and got[0] == 'PIXELS' and near(got[1], e)
        if not ok:
            sig = 'c06-rem-on-root-element' if (is_root and isinstance(v, list) and v[1] == 'rem') else None
            bad.append((n, 'line-height', v, None, got, sig))
        if isinstance(v, list) and isinstance(got, list):
            coq.append(coq_direct('line_height', dict(env, value=[str(Fraction(v[0])), v[1]]), 'ok',
                                  [got[0], str(Fraction(got[1]))]))
        # ---- font-weight (inherited)
        v = st.get('font-weight')
        pw = par['fw'] if par else 400
        if v == 'initial' or (is_root and v in (None, 'inherit')) or v == 'normal':
            e = 400
        elif v in (None, 'inherit'):
            e = pw
        elif v == 'bold':
            e = 700
        elif v == 'bolder':
            e = BOLDER(pw)
        elif v == 'lighter':
            e = LIGHTER(pw)
        else:
            e = v
        if o['fw'] != e:
            bad.append((n, 'font-weight', v, e, o['fw']))
        if v in ('bolder', 'lighter', 'normal', 'bold') or isinstance(v, int):
            coq.append(coq_direct('font_weight', dict(parent_fw=None if is_root else pw, value=v), 'ok', o['fw']))
    return bad, coq


def run_values_render(run, rng, thorough):
    docs = [gen_values_doc(rng) for _ in range(2500 if thorough else 160)]
    cases = [values_case(nodes, via_rules=(i % 3 == 0)) for i, nodes in enumerate(docs)]
    outs = common.run_impl('impl_c06', 'render_styles', cases, limit=60)
    coq_all, n_el, keys = [], 0, []
    for nodes, c, (st, o) in zip(docs, cases, outs):
        if st != 'ok':
            run.fail('values-render: render %s %s' % (st, (o or {}).get('type')),
                     {'stream': 'values-render', 'case': c, 'outcome': o},
                     signature='c06-crash:%s' % ((o or {}).get('site'),))
            continue
        for where in ('direct', 'boxes'):
            obs = {}
            for key, vals in o[where].items():
                n, pseudo = key.split('|')
                if pseudo:
                    continue
                obs[int(n)] = dict(zip(['fs', 'ml', 'lh', 'fw', 'ti'], vals))
            if where == 'boxes':
                # boxes carry the same dict; judge only what was not judged through the style function
                if all(obs.get(n) == o_direct.get(n) for n in obs):
                    continue
            else:
                o_direct = obs
            if where == 'direct' and set(obs) != {nd['n'] for nd in nodes}:
                run.fail('values-render: some element has no style', {'stream': 'values-render', 'case': c})
                continue
            if where == 'boxes':
                obs = dict(o_direct, **obs)
            bad, coq = judge_values(nodes, obs)
            if where == 'direct':
                coq_all += coq
                n_el += len(obs)
            for b in bad[:1]:
                run.fail('values-render: element data-n=%s %s: %r computes to %r, expected %r (%s)' % (
                    b[0], b[1], b[2], b[4], b[3], where),
                    {'stream': 'values-render', 'case': c, 'nodes': json.loads(json.dumps(nodes, default=str)),
                     'element': b[0], 'prop': b[1], 'declared': str(b[2]),
                     'expected': str(b[3]), 'got': b[4], 'all': [str(x) for x in bad[:8]]},
                    signature=(b[5] if len(b) > 5 and b[5] else 'c06-values-mismatch'))
        keys.append(c['html'][:600])
    try:
        masks = common.eval_cases('c06vals', PRE, 'dcase', coq_all, 'judge_direct', per_file=300)
        run.oblige('corr:values-render(hand models of font_size/length/line_height/font_weight vs rendered styles)',
                   not any(m & 1 for m in masks), str([c for c, m in zip(coq_all, masks) if m & 1][:3]))
        for c, m in zip(coq_all, masks):
            if m & 2:
                run.fail('values-render: a computed value contradicts the CSS definition (Coq spec): %s' % c,
                         {'stream': 'values-render', 'coq_case': c}, signature='c06-values-mismatch')
                break
    except RuntimeError as exc:
        run.oblige('corr:values-render', False, str(exc))
    run.count('values-render', len(docs), keys, samples=[cases[0]['html'][:500]])
    run.stream_info('values-render', elements=n_el, coq_cases=len(coq_all),
                    rule='random trees (3..10 elements) with font-size (px em % rem pt mm pc in cm q, keywords, '
                    'larger/smaller), margin-left, text-indent, line-height (number % em rem), font-weight '
                    '(bolder/lighter/normal/bold/numbers), inherit/initial, as style attributes or rules; every '
                    'element judged against its declarations and the observed values of its parent and of the root')


# ---------------------------------------------------------------------------------------------- @page declarations

PAGE_SELS = [('', (0, 0, 0), lambda i: True), (':first', (0, 1, 0), lambda i: i == 0),
             (':left', (0, 0, 1), lambda i: i % 2 == 1), (':right', (0, 0, 1), lambda i: i % 2 == 0),
             (':first:right', (0, 1, 1), lambda i: i == 0), (':left:first', (0, 1, 1), lambda i: False),
             (':blank', (0, 1, 0), lambda i: False)]
PAGE_PROPS = {'margin-top': 21, 'margin-bottom': 22, 'padding-left': 23}


def gen_page_doc(rng):
    vid = [0]

    def rules(k):
        items = []
        for _ in range(k):
            sels = [rng.choice(PAGE_SELS)] if rng.random() < 0.75 else [rng.choice(PAGE_SELS[1:]) for _ in range(2)]
            decls = []
            for _ in range(rng.choice([1, 1, 2])):
                vid[0] += 1
                decls.append(dict(prop=rng.choice(sorted(PAGE_PROPS)), vid=vid[0], imp=rng.random() < 0.25))
            it = ('page', sels, decls)
            if rng.random() < 0.15:
                it = ('media', rng.choice([['print'], ['screen'], ['all']]), [it])
            items.append(it)
        return items
    sheets = [dict(kind='ua', items=rules(rng.choice([0, 1])))]
    for _ in range(rng.choice([0, 1, 1])):
        sheets.append(dict(kind='user', items=rules(rng.choice([1, 2]))))
    for _ in range(rng.choice([1, 1, 2])):
        sh = dict(kind=rng.choice(['style', 'style', 'link']), items=rules(rng.choice([1, 2, 3])))
        if rng.random() < 0.3:
            sh['items'] = [('import', None, None, rules(rng.choice([1, 2])))] + sh['items']
        sheets.append(sh)
    return dict(sheets=sheets, device='print')


def page_items_text(items, files, counter):
    out = []
    for it in items:
        if it[0] == 'page':
            out.append('@page %s { %s }' % (', '.join(s[0] for s in it[1]), '; '.join(
                '%s: %dpx%s' % (d['prop'], d['vid'], ' !important' if d['imp'] else '') for d in it[2])))
        elif it[0] == 'media':
            out.append('@media %s { %s }' % (media_text(it[1]), page_items_text(it[2], files, counter)))
        elif it[0] == 'import':
            counter[0] += 1
            url = 'http://mem/p%d.css' % counter[0]
            files[url] = page_items_text(it[3], files, counter)
            out.append('@import url(%s);' % url)
    return '\n'.join(out)


def page_flatten(items, device):
    out = []
    for it in items:
        if it[0] == 'page':
            out.append(it)
        elif it[0] == 'media':
            if media_applies(it[1], device):
                out += page_flatten(it[2], device)
        elif it[0] == 'import':
            out += page_flatten(it[3], device)
    return out


def run_page_render(run, rng, thorough):
    docs = [gen_page_doc(rng) for _ in range(1200 if thorough else 100)]
    cases = []
    for d in docs:
        files, counter, user, ua, head, li = {}, [0], [], UA_BASE, '', 0
        for sh in d['sheets']:
            text = page_items_text(sh['items'], files, counter)
            if sh['kind'] == 'ua':
                ua += text
            elif sh['kind'] == 'user':
                user.append(text)
            elif sh['kind'] == 'style':
                head += '<style>%s</style>' % text
            else:
                li += 1
                files['http://mem/pl%d.css' % li] = text
                head += '<link rel=stylesheet href="http://mem/pl%d.css">' % li
        cases.append(dict(html='<!DOCTYPE html><html><head>%s</head><body><p>a</p><p style="break-before: page">b</p>'
                          '<p style="break-before: page">c</p></body></html>' % head, ua_css=ua, user_css=user,
                          files=files, media='print', hints=False, keys=[], attr='data-n', direct=False,
                          page_keys=[k.replace('-', '_') for k in sorted(PAGE_PROPS)]))
    outs = common.run_impl('impl_c06', 'render_styles', cases, limit=60)
    coq_cases, kept = [], []
    origin_lit = {'ua': 'UA', 'user': 'User', 'style': 'Author', 'link': 'Author'}
    for d, c, (st, o) in zip(docs, cases, outs):
        if st != 'ok':
            run.fail('page-render: render %s %s' % (st, (o or {}).get('type')), {'stream': 'page-render', 'case': c,
                     'outcome': o}, signature='c06-crash:%s' % ((o or {}).get('site'),))
            continue
        if len(o.get('pages', [])) != 3:
            run.fail('page-render: expected 3 pages', {'stream': 'page-render', 'case': c, 'pages': o.get('pages')})
            continue
        ordered = [s for s in d['sheets'] if s['kind'] == 'ua'] + \
                  [s for s in d['sheets'] if s['kind'] in ('style', 'link')] + [s for s in d['sheets'] if s['kind'] == 'user']
        for i, vals in enumerate(o['pages']):
            cands = {}
            sheets_lit = []
            for si, sh in enumerate(ordered):
                rl = []
                for ri, (_, sels, decls) in enumerate(page_flatten(sh['items'], 'print')):
                    rl.append('([%s], [%s])' % (
                        '; '.join('(%s, 0, %s)' % (spec_lit(sp), blit(pred(i))) for _, sp, pred in sels),
                        '; '.join('(mkr %d %s %s)' % (PAGE_PROPS[x['prop']], zlit(x['vid']), blit(x['imp'])) for x in decls)))
                    for ki, (_, sp, pred) in enumerate(sels):
                        if pred(i):
                            for di, x in enumerate(decls):
                                rank = RANK[('author' if sh['kind'] in ('style', 'link') else sh['kind'], x['imp'])]
                                cands.setdefault(x['prop'], []).append(((rank, sp, si, ri, ki, di), x['vid']))
                sheets_lit.append('(%s, None, [%s])' % (origin_lit[sh['kind']], '; '.join(rl)))
            obs = []
            for prop, v in zip(sorted(PAGE_PROPS), vals):
                got = _dec_px(v)
                exp = max(cands[prop], key=lambda kv: kv[0])[1] if prop in cands else None
                obs.append((PAGE_PROPS[prop], got))
                if exp is not None and got != exp:
                    run.fail('page-render: page %d %s: the cascade selects %spx, the page box has %r' % (i, prop, exp, v),
                             {'stream': 'page-render', 'case': c, 'page': i, 'prop': prop, 'expected': exp, 'got': v},
                             signature='c06-page-cascade-mismatch')
            # the initial page margin is not 0: only judge declared properties in Coq
            obs = [(k, g) for (k, g), prop in zip(obs, sorted(PAGE_PROPS)) if prop in cands and g is not None]
            coq_cases.append('(0, [%s], [%s])' % ('; '.join(sheets_lit),
                                                  '; '.join('(%d, %s)' % (k, zlit(g)) for k, g in obs)))
            kept.append((c, i))
    try:
        masks = common.eval_cases('c06page', PRE, 'Z * list (page_sheet Z) * list (Z * Z)', coq_cases, 'judge_page',
                                  per_file=150)
        bad = [k for k, m in zip(kept, masks) if m]
        run.oblige('corr:page-render(Coq add_page_declarations model vs page box styles)', not bad,
                   json.dumps(bad[:1])[:2500])
    except RuntimeError as exc:
        run.oblige('corr:page-render', False, str(exc))
    run.count('page-render', len(docs), [c['html'][:300] + c['ua_css'][-150:] + str(c['user_css']) for c in cases],
              samples=[cases[0]['html'][:400]])
    run.stream_info('page-render', pages_judged=len(kept),
                    rule='@page rules (no selector, :first, :left, :right, :first:right, :blank, lists) with margin / '
                    'padding declarations +-!important over UA, user, author <style>/<link>/@import/@media; 3 pages each')


# =============================================================================================== check

def obs_values(o):
    obs = {}
    for key, vals in o['direct'].items():
        n, pseudo = key.split('|')
        if not pseudo:
            obs[int(n)] = dict(zip(['fs', 'ml', 'lh', 'fw', 'ti'], vals))
    return obs


def corpus_items():
    return [json.load(open(p)) for p in sorted(glob.glob(os.path.join(common.VERIF, 'corpus', 'C06', '*.json')))]


def run_corpus(run, items, outs):
    """minimised witnesses of earlier findings: {'case': render case, 'expect': {"n|pseudo": [normalized values]}}"""
    for it, (st, o) in zip(items, outs):
        got = o['direct'] if st == 'ok' else None
        bad = st != 'ok' or any(got.get(k) != v or o['boxes'].get(k, v) != v for k, v in it['expect'].items())
        if bad:
            run.fail('corpus %s: %s; expected %s, got %s' % (it['name'], it['what'], it['expect'],
                                                             {k: (got or {}).get(k) for k in it['expect']}),
                     {'stream': 'corpus', 'item': it, 'outcome': o if st != 'ok' else None}, signature=it.get('signature'))
    run.count('corpus', len(items), [it['name'] for it in items])
    run.stream_info('corpus', rule='minimised witnesses of the findings of this property, replayed first')


# ---- gap, word_spacing, border_width, border_radius called directly on a stub style (the functions of
# gen/GenComputedGap.v): the CSS reading, in Python
C_ABS = {'px': Fraction(1), 'pt': Fraction(4, 3), 'pc': Fraction(16), 'in': Fraction(96), 'cm': Fraction(9600, 254),
         'mm': Fraction(960, 254), 'q': Fraction(960, 1016)}
C_STYLES = ('none', 'hidden', 'dotted', 'dashed', 'solid', 'double', 'groove', 'ridge', 'inset', 'outset')
C_BW_NAMES = ('border_top_width', 'border_right_width', 'border_bottom_width', 'border_left_width',
              'column_rule_width', 'outline_width')


def computer_px(c, v):
    n, u = Fraction(v[0]), v[1]
    if u == 'em':
        return n * Fraction(c['own_fs'])
    if u == 'rem':
        return n * Fraction(c['own_fs'] if c['is_root'] else c['root_fs'])
    return n * C_ABS[u]


def computer_expected(c):
    fn, v = c['fn'], c['value']
    dim = lambda x: x if x[1] == '%' else [str(computer_px(c, x)), 'px']
    if fn == 'border_radius':
        return [dim(x) for x in v]
    if fn == 'gap':
        return 'normal' if v == 'normal' else dim(v)
    if fn == 'word_spacing':
        return '0' if v == 'normal' else str(computer_px(c, v))
    if fn == 'tab_size':
        return str(v) if isinstance(v, int) else dim(v)
    if c['border_style'] in ('none', 'hidden'):
        return '0'
    if isinstance(v, str):
        return {'thin': '1', 'medium': '3', 'thick': '5'}[v]
    return str(v) if isinstance(v, int) else str(computer_px(c, v))


def computer_same(e, g):
    if isinstance(e, list) and e and isinstance(e[0], list):
        return isinstance(g, list) and len(g) == len(e) and all(computer_same(a, b) for a, b in zip(e, g))
    if isinstance(e, list):
        return isinstance(g, list) and len(g) == 2 and g[1] == e[1] and near(Fraction(g[0]), Fraction(e[0]))
    if e == 'normal':
        return g == 'normal'
    return isinstance(g, str) and g != 'normal' and near(Fraction(g), Fraction(e))


def gen_computer_cases(rng, count):
    def ln(pct):
        u = rng.choice(sorted(C_ABS) + ['em', 'rem'] + (['%'] if pct else []))
        return [str(Fraction(rng.randint(0, 400), rng.choice((1, 2, 4, 10)))), u]
    cases = []
    for _ in range(count):
        c = dict(own_fs=str(rng.randint(1, 40)), root_fs=str(rng.randint(1, 40)), is_root=rng.random() < 0.2)
        fn = rng.choice(('gap', 'word_spacing', 'border_width', 'border_width', 'border_radius'))
        c['fn'] = fn
        if fn == 'gap':
            c.update(name=rng.choice(('column_gap', 'row_gap')), value='normal' if rng.random() < 0.2 else ln(True))
        elif fn == 'word_spacing':
            c.update(name='word_spacing', value='normal' if rng.random() < 0.2 else ln(False))
        elif fn == 'border_radius':
            c.update(name='border_top_left_radius', value=[ln(True), ln(True)])
        else:
            c.update(name=rng.choice(C_BW_NAMES), border_style=rng.choice(C_STYLES),
                     value=rng.choice(('thin', 'medium', 'thick', 3, ln(False), ln(False))))
        cases.append(c)
    for _ in range(max(8, count // 8)):     # tab_size: a number of spaces (int) or a length
        c = dict(own_fs=str(rng.randint(1, 40)), root_fs=str(rng.randint(1, 40)), is_root=rng.random() < 0.2,
                 fn='tab_size', name='tab_size', value=rng.randint(0, 16) if rng.random() < 0.4 else ln(False))
        cases.append(c)
    return cases


def computer_judge(c, st, o):
    """None when the implementation's answer is the expected one, else a description"""
    if st != 'ok':
        return '%s raised %s' % (c['fn'], (o or {}).get('type'))
    e = computer_expected(c)
    return None if computer_same(e, o) else '%s(%s, %r)%s = %r, expected %r' % (
        c['fn'], c['name'], c['value'], ' with style %s' % c['border_style'] if c.get('border_style') else '', o, e)


def run_computers(run, rng, thorough):
    cases = gen_computer_cases(rng, 3000 if thorough else 400)
    outs = common.run_impl('impl_c06', 'direct', [('computer', c) for c in cases], chunksize=32, limit=60)
    for c, (st, o) in zip(cases, outs):
        why = computer_judge(c, st, o)
        if why:
            run.fail(why, {'stream': 'computers-direct', 'case': c, 'outcome': o},
                     signature='c06-computer:%s' % c['fn'])
    run.count('computers-direct', len(cases), ['%s:%s' % (c['fn'], c['value']) for c in cases])
    run.stream_info('computers-direct', rule='gap, word_spacing, border_width (6 names x 10 border styles x keyword / '
                    'int / length), tab_size (int / length), border_radius called on a stub style with random lengths in the 7 absolute units, '
                    'em, rem, %; judged against the CSS reading in Python (the functions of gen/GenComputedGap.v)')


def check(run):
    rng = random.Random(run.seed * 7919 + 6)
    thorough = run.tier == 'thorough'
    common.prove(run, 'C06', ['model/C06Judge.vo', 'proofs/C06_examples.vo', 'proofs/C06_gen_length.vo',
                               'proofs/C06_gen_font_size.vo', 'proofs/C06_gen_tuples.vo', 'proofs/C06_gen_gap.vo',
                               'proofs/C06_gen_border_width.vo', 'proofs/C06_gen_tab_size.vo'])
    run.trusted += ['Coq 8.16.1 kernel (coqc); vm_compute for the cases.v evaluation',
                    'cssselect2 / tinycss2 / tinyhtml5 (outside the repository): selector matching, specificity, '
                    'document parsing used by the reference cascade; cross-checked by an own matcher',
                    'harness reference cascade (Python sort key) and the value-id encoding of declared values']
    run.assumptions += ['hand models C06Cascade / C06Inherit and font_weight of C06Values are tied by '
                        'correspondence; declaration_precedence, evaluate_media_query, length, pixel_length, '
                        'length_pixels_only, length_tuple, length_or_percentage_tuple, line_height, font_size are regenerated by the '
                        'translator and proved '
                        'equal to their models',
                        'character_ratio(style, "x" | "0") (Pango) is an oracle in the theorems about the regenerated '
                        'length: any two functions of the style',
                        'cssselect2 Matcher.match returns the matches sorted by (specificity, order) with distinct orders '
                        '(library contract; the render streams would show a deviation)',
                        'var() pending values, text-decoration propagation, `page`, custom properties: not modelled (C07)',
                        'user-agent !important is ranked like user-agent normal (CSS 2.1 five levels, as the property states)']
    clock = [time.time()]

    def lap(stream):
        run.stream_info(stream, seconds=round(time.time() - clock[0], 1))
        clock[0] = time.time()
    run.stream_info('proofs', seconds=round(time.time() - run.t0, 1))
    # ---- the corpus and the direct streams (one worker pool)
    items = corpus_items()
    outs = run_direct(run, rng, thorough, [('render_styles', it['case']) for it in items])
    run_corpus(run, items, outs)
    lap('values-direct')
    # ---- random documents
    attr_case = finding_listed('c06-stylesheet-attr-case')
    docs = [gen_doc(rng, attr_case) for _ in range(4000 if thorough else 360)]
    run_cascade_stream(run, 'cascade-render', docs, thorough)
    lap('cascade-render')
    run.stream_info('cascade-render', rule='random DOM (<= 12 elements) x 1..8 rules over UA / user / author (<style> in '
                    'head or body, <link>, @import chains, style=, presentational hints), +-!important, @media blocks '
                    'and media attributes, print/screen device, inherit/initial keywords, ::before; 4 tracked '
                    'properties per document (2 inherited, 2 not), every declared value unique so that the computed '
                    'value identifies the winning declaration')
    # ---- exhaustive ordered pairs and triples
    K = range(len(KINDS))
    tdocs = []
    for tgt in ('div', 'p'):
        for a, b in itertools.product(K, K):
            for layout in (0, 1):
                tdocs.append(tuple_doc((a, b), tgt, layout))
    triples = list(itertools.product(K, K, K))
    if not thorough:
        triples = rng.sample(triples, 700)
    for i, t in enumerate(triples):
        tdocs.append(tuple_doc(t, 'div' if i % 2 else 'p', (i // 2) % 2))
        tdocs[-1]['render'] = thorough      # quick tier: triples are judged on the renderer's style function only
    for k in K:
        tdocs.append(tuple_doc((k,), 'div', 0))
    run_cascade_stream(run, 'cascade-tuples', tdocs, thorough)
    lap('cascade-tuples')
    run_values_render(run, rng, thorough)
    lap('values-render')
    run_page_render(run, rng, thorough)
    lap('page-render')
    run_computers(run, random.Random(run.seed * 7919 + 61), thorough)
    lap('computers-direct')
    idocs = [gen_import_doc(rng) for _ in range(1500 if thorough else 200)]
    run_cascade_stream(run, 'import-dag', idocs, thorough)
    lap('import-dag')
    run.stream_info('import-dag', rule='2..5 served sheets forming an @import DAG of depth <= 3 (repeated URLs: u .. u in one '
                    'sheet, diamonds, the same sheet through several chains), media lists on @import, @import after a '
                    'rule / inside @media (ignored) / after an ignored rule (honoured), imported by UA, user, <style>, '
                    '<link> sheets; a small selector pool so that origin, importance and specificity tie and the '
                    'position of the LAST instance decides; every element judged against the textual-flattening '
                    'reference (Python), the Coq walk model and the Coq substitution spec; the fetch sequence of the '
                    'recording url_fetcher is compared with the text order')
    run.stream_info('cascade-tuples', kinds=len(KINDS),
                    rule='all ordered pairs (x 2 targets x 2 sheet layouts) and %s ordered triples of %d declaration '
                    'kinds (origin x container x selector specificity x importance, style attribute, presentational '
                    'hint as attribute or hints sheet) for text-align on one element' %
                    ('all' if thorough else 'a seeded sample of 700 of the 5832', len(KINDS)))


def replay(data):
    d = data.get('data', {})
    stream = d.get('stream', '')
    if stream == 'computers-direct':
        (st, o), = common.run_impl('impl_c06', 'direct', [('computer', d['case'])])
        why = computer_judge(d['case'], st, o)
        print('replay:', why or 'the answer is the expected one: %r' % (o,))
        return 1 if why else 0
    if stream == 'corpus':
        it = d['item']
        (st, o), = common.run_impl('impl_c06', 'render_styles', [it['case']])
        got = o['direct'] if st == 'ok' else None
        print('replay corpus', it['name'], 'expected', it['expect'], 'got', got if st == 'ok' else o)
        return 1 if st != 'ok' or any(got.get(k) != v for k, v in it['expect'].items()) else 0
    if (stream.startswith('cascade') or stream == 'import-dag') and 'case' in d:
        (st, o), = common.run_impl('impl_c06', 'render_styles', [d['case']])
        if st != 'ok':
            print('replay:', st, o)
            return 1
        if 'expected_fetches' in d:
            print('replay: the text demands the fetches %s\n        the fetcher saw          %s' % (
                [u.split('/')[-1] for u in d['expected_fetches']], [u.split('/')[-1] for u in o['fetched']]))
            return 1 if o['fetched'] != d['expected_fetches'] else 0
        df = d.get('diff')
        if not df:
            print('replay: no recorded difference;', json.dumps(o)[:800])
            return 1
        key = '%s|%s' % (df['element'], df['pseudo'])
        idx = d['doc']['props'].index(df['prop'])
        now = [PROPS[df['prop']]['dec'](src[key][idx]) for src in (o['direct'], o['boxes']) if key in src]
        print('replay: element %s property %s: cascade selects id %s, implementation has %s' % (
            key, df['prop'], df['expected'], now))
        return 1 if any(x != df['expected'] for x in now) else 0
    if stream == 'values-render' and 'nodes' in d:
        (st, o), = common.run_impl('impl_c06', 'render_styles', [d['case']])
        if st != 'ok':
            print('replay:', st, o)
            return 1
        bad, _ = judge_values(d['nodes'], obs_values(o))
        print('replay:', [str(b) for b in bad[:5]])
        return 1 if bad else 0
    if stream == 'page-render' and 'case' in d:
        (st, o), = common.run_impl('impl_c06', 'render_styles', [d['case']])
        print('replay: pages', o.get('pages') if st == 'ok' else o, 'expected', d.get('expected'), 'for', d.get('prop'),
              'on page', d.get('page'))
        if st != 'ok':
            return 1
        keys = d['case']['page_keys']
        got = _dec_px(o['pages'][d['page']][keys.index(d['prop'].replace('-', '_'))])
        return 1 if got != d['expected'] else 0
    if stream in ('values-direct', 'prec-direct'):
        if 'fn' in d:
            (st, o), = common.run_impl('impl_c06', d['fn'], [d['case']])
            print('replay:', st, o)
            if st != 'ok':
                return 1
            m = common.eval_cases('c06replay', PRE, 'dcase', [coq_direct(d['fn'], d['case'], st, o)], 'judge_direct')
            print('judge mask', m)
            return 1 if m[0] else 0
        return 1
    print('nothing to replay for', stream)
    return 0
