"""C11 - floats and positioned boxes obey the CSS 2.1 placement rules."""
import random, itertools, math, json, os
from fractions import Fraction
import common
from common import qlit

PRE_ABS = ('From Coq Require Import QArith List Bool.\nRequire Import WV.model.C11Abs.\n'
           'Import ListNotations.\nOpen Scope Q_scope.\n')


def oqlit(x):
    return 'None' if x == 'auto' else '(Some %s)' % qlit(Fraction(x))


def blit(b):
    return 'true' if b else 'false'


# ----------------------------------------------------------------------------- stream 1: absolute.py direct

def gen_axis_cases(rng, n, with_minmax=True, directions=(True, False, 'root')):
    """One axis of an absolutely positioned box: every auto pattern of (start, end, size, margin-start, margin-end)
    x small value sets (fits / does not fit / negative margins) exhaustively, then random rationals."""
    cases = []
    base = dict(pl=1, pr=2, bl=3, br=4, px=13, cbx=50, cbw=200, mn=20, mx=90, minw=0, maxw='inf')
    seen = set()
    for pat in itertools.product([False, True], repeat=5):
        for vals in itertools.product([0, 30], [0, 45], [60, 250], [-7, 20], [0, 11]):
            for ltr in directions:
                c = dict(base, ltr=ltr)
                for k, auto, v in zip(('l', 'r', 'w', 'ml', 'mr'), pat, vals):
                    c[k] = 'auto' if auto else v
                sig = tuple(sorted(c.items(), key=str))
                if sig not in seen:          # the value of an auto field does not exist: 3^5 = 243 per direction
                    seen.add(sig)
                    cases.append(c)
    if with_minmax:
        for c in list(cases):
            if rng.random() < 0.35:
                c2 = dict(c)
                c2['minw'], c2['maxw'] = rng.choice([(0, 50), (0, 70), (80, 'inf'), (300, 'inf'), (90, 40), (60, 60), (10, 400)])
                cases.append(c2)

    def val(neg=False, small=False):
        d = rng.choice([1, 1, 1, 2, 3, 7])
        hi = 60 if small else 400
        return str(Fraction(rng.randint(-hi if neg else 0, hi), d))
    while len(cases) < n:
        c = dict(ltr=rng.choice(directions))
        for k in ('l', 'r', 'ml', 'mr'):
            c[k] = 'auto' if rng.random() < 0.4 else val(neg=True, small=k in ('ml', 'mr'))
        c['w'] = 'auto' if rng.random() < 0.4 else val()
        for k in ('pl', 'pr', 'bl', 'br'):
            c[k] = val(small=True) if rng.random() < 0.6 else '0'
        c['px'] = val(neg=True)
        c['cbx'] = val(neg=True)
        c['cbw'] = val()
        a, b = sorted([Fraction(val()), Fraction(val())])
        c['mn'], c['mx'] = str(a), str(b)
        if with_minmax and rng.random() < 0.5:
            c['minw'] = val(small=rng.random() < 0.5)
            c['maxw'] = rng.choice(['inf', val(), val(small=True)])
        else:
            c['minw'], c['maxw'] = '0', 'inf'
        cases.append(c)
    return cases


def pad_of(c):
    return Fraction(c['pl']) + Fraction(c['pr']) + Fraction(c['bl']) + Fraction(c['br'])


def axis_lit(c):
    return '(%s, %s, %s, %s, %s), (%s, %s), (%s, %s)' % (
        oqlit(c['l']), oqlit(c['r']), oqlit(c['w']), oqlit(c['ml']), oqlit(c['mr']),
        qlit(pad_of(c)), qlit(c['px']), qlit(c['cbx']), qlit(c['cbw']))


def coq_absw_case(c, o):
    return '(%s, %s, (%s, %s), (%s, %s), (%s, %s, %s, %s, %s))' % (
        blit(c['ltr'] in (True, 'root')), axis_lit(c), qlit(c['mn']), qlit(c['mx']),
        qlit(c['minw']), ('None' if c['maxw'] == 'inf' else '(Some %s)' % qlit(c['maxw'])),
        oqlit(o[0]), oqlit(o[1]), oqlit(o[2]), blit(o[3]), qlit(o[4]))


def coq_absh_case(c, o, content):
    return '(%s, %s, (%s, %s, %s, %s, %s))' % (
        axis_lit(c), qlit(content), oqlit(o[0]), oqlit(o[1]), oqlit(o[2]), blit(o[3]), qlit(o[4]))


def coq_absr_case(c, o):
    def out(x):
        return '(%s, %s, %s, %s, %s)' % (oqlit(x[0]), oqlit(x[1]), oqlit(x[2]), oqlit(x[3]), qlit(x[4]))
    return '(%s, %s, %s, %s, %s)' % (blit(c['ltr'] in (True, 'root')), axis_lit(c['h']), axis_lit(c['v']),
                                     out(o[0]), out(o[1]))


ABS_TYPES = {'absw': 'absw_case', 'absh': 'absh_case', 'absr': 'absr_case'}


def pattern_key(c):
    return tuple(c[k] == 'auto' for k in ('l', 'r', 'w', 'ml', 'mr'))


def fits_key(c):
    tot = sum(Fraction(c[k]) for k in ('l', 'r', 'w') if c[k] != 'auto') + pad_of(c)
    return tot <= Fraction(c['cbw'])


class Streams:
    """Direct-call streams are collected first, then run together: one worker pool for all implementation calls,
    the Coq evaluations of the different streams side by side."""
    def __init__(self):
        self.items = []

    def add(self, name, fn, cases, to_coq, judge, ctype, key, per_file=300, post=None):
        self.items.append(dict(name=name, fn=fn, cases=cases, to_coq=to_coq, judge=judge, ctype=ctype, key=key,
                               per_file=per_file, post=post))

    def run(self, run):
        from multiprocessing.pool import ThreadPool
        flat_cases = [dict(fn=it['fn'], case=c) for it in self.items for c in it['cases']]
        outs = common.run_impl('impl_c11', 'dispatch', flat_cases, chunksize=32)
        pos = 0
        for it in self.items:
            it['outs'] = outs[pos:pos + len(it['cases'])]
            pos += len(it['cases'])

        def evaluate(it):
            name, fn = it['name'], it['fn']
            coq_cases, kept, fails = [], [], []
            for c, (st, o) in zip(it['cases'], it['outs']):
                if st != 'ok':
                    fails.append((c, o))
                    continue
                coq_cases.append(it['to_coq'](c, o)); kept.append((c, o))
            try:
                masks = common.eval_cases('c11' + fn, PRE_ABS if fn.startswith('abs') else PRE_FLOAT, it['ctype'],
                                          coq_cases, it['judge'], per_file=it['per_file'])
                return kept, fails, masks, None
            except RuntimeError as exc:
                return kept, fails, None, str(exc)
        with ThreadPool(len(self.items)) as tp:
            results = tp.map(evaluate, self.items)
        for it, (kept, fails, masks, err) in zip(self.items, results):
            name, fn = it['name'], it['fn']
            for c, o in fails[:2]:
                run.fail('%s raised %s' % (fn, o), {'stream': name, 'fn': fn, 'case': c, 'outcome': o}, signature='%s-raise' % fn)
            if err is not None:
                run.oblige('corr:%s' % name, False, err)
                continue
            mism = [(c, o) for (c, o), m in zip(kept, masks) if m & 1]
            run.oblige('corr:%s(model vs CPython, exact rationals)' % name, not mism, 'first disagreements: %s' % mism[:3])
            for (c, o), m in zip(kept, masks):
                if m & 2:
                    run.fail('%s: implementation output violates the placement spec' % name,
                             {'stream': name, 'fn': fn, 'case': c, 'impl_output': o}, signature='%s-spec' % fn)
                    break
            if it['post']:
                it['post'](run, kept)
            if kept:
                run.count(name, len(kept), [it['key'](c) for c, _ in kept],
                          samples=[{'case': kept[0][0], 'impl': kept[0][1]}, {'case': kept[-1][0], 'impl': kept[-1][1]}])


def gen_absr(rng, n):
    hs = gen_axis_cases(rng, n, with_minmax=False, directions=(True,))
    vs = gen_axis_cases(rng, n, with_minmax=False, directions=(True,))
    rng.shuffle(vs)
    cases = []
    for i, (h, v) in enumerate(zip(hs, vs)):
        h, v = dict(h), dict(v)
        for a in (h, v):
            if a['w'] == 'auto':
                a['w'] = rng.choice([60, 250, '77/3'])
        cases.append(dict(ltr=[True, False, 'root'][i % 3], h=h, v=v))
    return cases


def check_abs_direct(run, rng, thorough, S):
    n = 12000 if thorough else 1600
    cases = gen_axis_cases(rng, n)
    S.add('absolute_width-direct', 'absw', cases, coq_absw_case, 'absw_judge', 'absw_case',
                  lambda c: (pattern_key(c), c['ltr'], fits_key(c), c['minw'] != '0' and c['minw'] != 0, c['maxw'] != 'inf'))
    run.stream_info('absolute_width-direct',
                    rule='32 auto patterns of (left,right,width,margin-left,margin-right) x 2 values per specified term '
                         '(243 per direction) x {ltr,rtl,root} exhaustively, 35% repeated with min/max-width, + random rationals; decorated function '
                         '(handle_min_max_width re-entry); distinct = (pattern, direction, fits?, min?, max?)')
    cases = gen_axis_cases(rng, n // 2, with_minmax=False, directions=(True,))
    for c in cases:
        c['content'] = str(Fraction(rng.randint(0, 300), rng.choice([1, 2, 3])))
    S.add('absolute_height-direct', 'absh', cases, lambda c, o: coq_absh_case(c, o, c['content']),
                  'absh_judge', 'absh_case', lambda c: (pattern_key(c), fits_key(c)))
    run.stream_info('absolute_height-direct', rule='32 auto patterns x 2 values per specified term (243) exhaustively + random rationals; '
                    'content height (used when height stays auto) random')
    cases = gen_absr(rng, n // 2)
    S.add('absolute_replaced-direct', 'absr', cases, coq_absr_case, 'absr_judge', 'absr_case',
                  lambda c: (pattern_key(c['h']), pattern_key(c['v']), c['ltr'], fits_key(c['h'])))
    run.stream_info('absolute_replaced-direct', rule='horizontal x vertical auto patterns (width/height given), ltr/rtl/root')


PRE_FLOAT = ('From Coq Require Import QArith List Bool.\nRequire Import WV.model.C11Float.\n'
             'Import ListNotations.\nOpen Scope Q_scope.\n')
KINDS = {'left': 'FloatLeft', 'right': 'FloatRight', 'line': 'LineBox', 'table': 'TableWrapper',
         'bfc': 'OtherBFC', 'replaced': 'OtherBFC'}
CLEARS = {'none': 'ClearNone', 'left': 'ClearLeft', 'right': 'ClearRight', 'both': 'ClearBoth'}


# ------------------------------------------------------------------------------ stream 2: float.py direct

def shape_lit(s):
    return '(mk_shape %s %s %s %s %s)' % (blit(s[0] == 'left'), qlit(s[1]), qlit(s[2]), qlit(s[3]), qlit(s[4]))


def fbox_lit(b):
    return '(mk_fbox %s %s %s %s %s %s %s %s)' % (KINDS[b['kind']], qlit(b['py']), qlit(b['ml']), qlit(b['mr']),
                                                 qlit(b['mt']), qlit(b['mb']), qlit(b['bw']), qlit(b['bh']))


def rq(rng, lo, hi, dens=(1, 1, 1, 2, 3)):
    return str(Fraction(rng.randint(lo, hi), rng.choice(dens)))


def gen_shapes(rng, cbx, cbw, nmax=8):
    """already placed floats: stacked against the sides of the containing block (or of a wider ancestor), tops
    non-decreasing, mostly positive sizes; a few degenerate ones (zero / negative height)."""
    cbx, cbw = Fraction(cbx), Fraction(cbw)
    shapes, y = [], Fraction(rng.choice([0, 0, 10, 35]))
    for _ in range(rng.choice([0, 1, 1, 2, 3, 4, 6, nmax])):
        side = rng.choice(['left', 'right'])
        w = Fraction(rng.choice([10, 20, 30, 50, 80, 120])) + (Fraction(rq(rng, 0, 9)) if rng.random() < 0.3 else 0)
        h = Fraction(rng.choice([5, 10, 10, 20, 40])) + (Fraction(rq(rng, 0, 9)) if rng.random() < 0.3 else 0)
        if rng.random() < 0.04:
            h = Fraction(rng.choice([0, -5]))
        off = Fraction(rng.choice([0, 0, 0, 10, 20, 60, -15]))
        x = cbx + off if side == 'left' else cbx + cbw - w - off
        shapes.append((side, str(x), str(y), str(w), str(h)))
        y += Fraction(rng.choice([0, 0, 5, 10, 10, 20, 25]))
    return shapes


def gen_fbox(rng, kinds, shapes, cbw):
    ys = [Fraction(s[2]) for s in shapes] + [Fraction(s[2]) + Fraction(s[4]) for s in shapes] + [Fraction(0)]
    py = rng.choice(ys) + Fraction(rng.choice([0, 0, 0, -3, 4, 12, -20]))

    def m(p=0.25):
        return rq(rng, -6, 15) if rng.random() < p else '0'
    bw = rng.choice([10, 20, 40, 50, 70, 100, 150, str(Fraction(cbw)), rq(rng, 1, 200)])
    bh = rng.choice([0, 10, 10, 10, 20, 30, 60, rq(rng, 1, 50)]) if rng.random() < 0.97 else 0
    return dict(kind=rng.choice(kinds), py=str(py), ml=m(), mr=m(), mt=m(), mb=m(), bw=str(bw), bh=str(bh))


def regular_key(shapes, b):
    return (all(Fraction(s[4]) > 0 for s in shapes), Fraction(b['bh']) != 0,
            Fraction(b['bh']) + Fraction(b['mt']) + Fraction(b['mb']) > 0)


def check_float_direct(run, rng, thorough, S):
    n = 4000 if thorough else 700
    # find_float_position on a given list of shapes
    cases = []
    for _ in range(n):
        cbx, cbw = rng.choice([(0, 200), (30, 150), (0, 300), ('7/2', '401/3')])
        shapes = gen_shapes(rng, cbx, cbw)
        cases.append(dict(shapes=shapes, cbx=cbx, cbw=cbw, rtl=rng.random() < 0.2,
                          box=gen_fbox(rng, ['left', 'right'], shapes, cbw)))
    S.add('find_float_position-direct', 'ffp', cases,
                  lambda c, o: '([%s], (%s, %s), %s, %s, (%s, %s))' % (
                      '; '.join(shape_lit(s) for s in c['shapes']), qlit(c['cbx']), qlit(c['cbw']), blit(c['rtl']),
                      fbox_lit(c['box']), qlit(o[0]), qlit(o[1])),
                  'ffp_judge', 'ffp_case',
                  lambda c: (len(c['shapes']), c['box']['kind'], regular_key(c['shapes'], c['box']), c['box']['bw']))
    run.stream_info('find_float_position-direct', rule='0..8 stacked shapes (4% degenerate heights) x left/right float '
                    'with random margins/size (3% zero height), py at a shape edge +- offset; stub context, real Box methods')
    # sequences
    cases = []
    for _ in range(n // 2):
        reqs, py = [], Fraction(0)
        cbs = rng.choice([[(0, 200)], [(0, 300), (20, 200)], [(10, 120), (10, 120), (0, 400)]])
        for _ in range(rng.randint(1, 12)):
            cbx, cbw = rng.choice(cbs)
            py += Fraction(rng.choice([0, 0, 0, 5, 10, 30]))
            b = gen_fbox(rng, ['left', 'right'], [], cbw)
            b['py'] = str(py)
            if rng.random() < 0.9:
                b['bh'] = str(max(Fraction(b['bh']), 5))
                b['mt'] = str(abs(Fraction(b['mt']))); b['mb'] = str(abs(Fraction(b['mb'])))
            reqs.append(dict(cbx=cbx, cbw=cbw, box=b))
        cases.append(dict(reqs=reqs))
    S.add('float-sequence-direct', 'fseq', cases,
                  lambda c, o: '([%s], [%s])' % (
                      '; '.join('(%s, %s, %s)' % (qlit(r['cbx']), qlit(r['cbw']), fbox_lit(r['box'])) for r in c['reqs']),
                      '; '.join('(%s, %s)' % (qlit(x), qlit(y)) for x, y in o)),
                  'fseq_judge', 'fseq_case', per_file=40, key=lambda c: (len(c['reqs']), tuple(r['box']['kind'] for r in c['reqs'])))
    run.stream_info('float-sequence-direct', rule='1..12 left/right floats placed one after the other '
                    '(find_float_position + excluded_shapes.append) in 1..3 containing blocks; every float judged by '
                    'the nine rules against all earlier ones')
    # avoid_collisions(outer=False)
    cases = []
    for _ in range(n):
        cbx, cbw = rng.choice([(0, 200), (30, 150), (0, 300)])
        shapes = gen_shapes(rng, cbx, cbw)
        b = gen_fbox(rng, ['line', 'table', 'bfc', 'replaced'], shapes, cbw)
        if b['kind'] == 'line':
            b['ml'] = b['mr'] = b['mt'] = b['mb'] = '0'
        cases.append(dict(shapes=shapes, cbx=cbx, cbw=cbw, rtl=rng.random() < 0.3, box=b))
    S.add('avoid_collisions-direct', 'avc', cases,
                  lambda c, o: '([%s], (%s, %s), %s, %s, (%s, %s, %s))' % (
                      '; '.join(shape_lit(s) for s in c['shapes']), qlit(c['cbx']), qlit(c['cbw']), blit(c['rtl']),
                      fbox_lit(c['box']), qlit(o[0]), qlit(o[1]), qlit(o[2])),
                  'avc_judge', 'avc_case',
                  lambda c: (len(c['shapes']), c['box']['kind'], c['rtl'], c['box']['bw']))
    run.stream_info('avoid_collisions-direct', rule='outer=False callers: line box / table wrapper / replaced block / '
                    'formatting-context root, ltr and rtl, among 0..8 shapes')
    # get_clearance
    cases = []
    for _ in range(n):
        shapes = gen_shapes(rng, 0, 200)
        ys = [Fraction(s[2]) + Fraction(s[4]) for s in shapes] + [Fraction(0)]
        cases.append(dict(shapes=shapes, clear=rng.choice(['none', 'left', 'right', 'both', 'both']),
                          py=str(rng.choice(ys) + rng.choice([0, 0, -5, 5, -30])),
                          cm=rng.choice([None, None, '0', '7', '-4', '5/2'])))
    S.add('get_clearance-direct', 'clr', cases,
                  lambda c, o: '([%s], %s, %s, %s)' % (
                      '; '.join(shape_lit(s) for s in c['shapes']), CLEARS[c['clear']],
                      qlit(Fraction(c['py']) + Fraction(c['cm'] or 0)), oqlit('auto' if o is None else o)),
                  'clr_judge', 'clr_case',
                  lambda c: (len(c['shapes']), c['clear'], c['py'], c['cm']))
    run.stream_info('get_clearance-direct', rule='0..8 shapes x clear none/left/right/both, hypothetical position at a '
                    'bottom edge +- offset, with and without collapsed margin')
    # relative_positioning
    def tree(depth):
        def off():
            return 'auto' if rng.random() < 0.5 else rq(rng, -20, 30)
        inline = depth > 0 and rng.random() < 0.6
        kids = [tree(depth + 1) for _ in range(rng.choice([0, 0, 1, 2, 3]))] if depth < 3 else []
        return dict(rel=rng.random() < 0.6, inline=inline, ltr=rng.random() < 0.6, offs=[off(), off(), off(), off()],
                    x=rq(rng, 0, 200), y=rq(rng, 0, 200), kids=kids)
    cases = []
    for i in range(n // 2):
        t = tree(0)
        if i % 3 == 0:
            t['inline'] = True
        cases.append(dict(tree=t, cbw=100, cbh=100))

    def tree_lit(t):
        return '(RBox %s %s %s (%s, %s, %s, %s) %s %s [%s])' % (
            blit(t['rel']), blit(t['inline']), blit(t['ltr']), oqlit(t['offs'][0]), oqlit(t['offs'][1]),
            oqlit(t['offs'][2]), oqlit(t['offs'][3]), qlit(t['x']), qlit(t['y']), '; '.join(tree_lit(k) for k in t['kids']))
    def rel_post(run, kept):
        for c, o in kept:
            if not o['ret'] or o['sibling'] != [[str(Fraction(x)), str(Fraction(y))] for x, y in flat(c['tree'])]:
                run.fail('relative_positioning returned a value or touched another tree',
                         {'stream': 'relative_positioning-direct', 'fn': 'rel', 'case': c, 'impl_output': o})
                break
    S.add('relative_positioning-direct', 'rel', cases,
                  lambda c, o: '(%s, [%s])' % (tree_lit(c['tree']), '; '.join('(%s, %s)' % (qlit(x), qlit(y)) for x, y in o['pos'])),
                  'rel_judge', 'rel_case',
                  lambda c: (c['tree']['rel'], c['tree']['inline'], c['tree']['ltr'], tuple(x == 'auto' for x in c['tree']['offs'])),
                  post=rel_post)
    run.stream_info('relative_positioning-direct', rule='random trees (depth<=4) of block / inline boxes, each relative or '
                    'static with left/right/top/bottom auto or a length, ltr/rtl; real Box.translate')


def flat(t):
    out = [(t['x'], t['y'])]
    for k in t['kids']:
        out += flat(k)
    return out




# ---------------------------------------------------------------------------------- monitors: full renders
EPS = 1e-4
WORDS = ['a', 'ab', 'abc', 'abcd', 'abcde', 'abcdef', 'abcdefg', 'abcdefgh', 'hg', 'fed', 'cab']


def gen_float_doc(rng, inline_floats=True):
    """1..12 left/right floats of random size/margin/clear mixed with paragraphs (some floats inside the text),
    formatting-context roots, tables and a nested narrower block, in a container of random width."""
    W = rng.choice([150, 200, 200, 320])
    n_floats = [0]
    ids = [0]

    def nid(prefix):
        ids[0] += 1
        return '%s%d' % (prefix, ids[0])

    def fl(inline=False, maxw=None):
        n_floats[0] += 1
        maxw = maxw or W
        side = rng.choice(['left', 'right'])
        st = ['float:%s' % side]
        if rng.random() < 0.75:
            st.append('width:%dpx' % rng.choice([20, 30, 50, 60, 80, 100, maxw // 2, maxw - 10, maxw, maxw + 20]))
            st.append('height:%dpx' % rng.choice([5, 10, 15, 20, 30, 60]))
            txt = ''
        else:
            txt = ' '.join(rng.choice(WORDS) for _ in range(rng.randint(1, 4)))
            if rng.random() < 0.4:
                st.append('width:%dpx' % rng.choice([40, 80]))
        r = rng.random()
        if r < 0.25:
            st.append('margin:%dpx' % rng.choice([1, 3, 5]))
        elif r < 0.4:
            st.append('margin:%dpx %dpx %dpx %dpx' % tuple(rng.choice([0, 2, 5, 10]) for _ in range(4)))
        if rng.random() < 0.15:
            st.append('padding:%dpx' % rng.choice([1, 4]))
        if rng.random() < 0.15:
            st.append('border:%dpx solid' % rng.choice([1, 2]))
        if rng.random() < 0.25:
            st.append('clear:%s' % rng.choice(['left', 'right', 'both']))
        return '<%s id="%s" style="%s">%s</%s>' % ('span' if inline else 'div', nid('f'), ';'.join(st), txt,
                                                  'span' if inline else 'div')

    def para():
        words = [rng.choice(WORDS) for _ in range(rng.randint(1, 25))]
        k = 0
        while inline_floats and n_floats[0] < 12 and rng.random() < 0.3 and k < 3:
            words.insert(rng.randint(0, len(words)), fl(inline=True))
            k += 1
        st = []
        if rng.random() < 0.15:
            st.append('clear:%s' % rng.choice(['left', 'right', 'both']))
        return '<p id="%s" style="margin:0;%s">%s</p>' % (nid('p'), ';'.join(st), ' '.join(words))

    def bfc():
        st = ['overflow:hidden', 'height:%dpx' % rng.choice([10, 20, 30])]
        if rng.random() < 0.85:
            st.append('width:%dpx' % rng.choice([40, 60, 100, W - 20, W]))
        if rng.random() < 0.2:
            st.append('margin-left:%dpx' % rng.choice([5, 20]))
        if rng.random() < 0.15:
            st.append('clear:%s' % rng.choice(['left', 'right', 'both']))
        return '<div id="%s" style="%s"></div>' % (nid('b'), ';'.join(st))

    def table():
        return ('<table id="%s" style="border-spacing:0"><tr><td style="width:%dpx;height:%dpx;padding:0"></td></tr></table>'
                % (nid('t'), rng.choice([40, 100, W - 30]), rng.choice([10, 20])))

    def items(n, depth):
        out = []
        for _ in range(n):
            r = rng.random()
            if r < 0.42 and n_floats[0] < 12:
                out.append(fl())
            elif r < 0.72:
                out.append(para())
            elif r < 0.84:
                out.append(bfc())
            elif r < 0.9:
                out.append(table())
            elif depth == 0:
                out.append('<div id="%s" style="margin-left:%dpx;margin-right:%dpx">%s</div>' % (
                    nid('n'), rng.choice([0, 10, 30]), rng.choice([0, 10, 40]), ''.join(items(rng.randint(1, 4), 1))))
            else:
                out.append(para())
        return out
    body = ''.join(items(rng.randint(2, 14), 0))
    if n_floats[0] == 0:
        body = fl() + body
    cst = ['width:%dpx' % W]
    if rng.random() < 0.3:
        cst.append('padding-left:%dpx' % rng.choice([5, 15]))
    if rng.random() < 0.3:
        cst.append('margin-left:%dpx' % rng.choice([10, 25]))
    return ('<style>@page{size:420px 20000px;margin:%dpx}body{margin:0;font-family:weasyprint;font-size:10px;'
            'line-height:10px}</style><div id="c" style="%s">%s</div>' % (rng.choice([0, 10]), ';'.join(cst), body))


def v_overlap(a_y, a_h, b_y, b_h):
    return a_y < b_y + b_h - EPS and b_y < a_y + a_h - EPS


def rect_overlap(ax, ay, aw, ah, bx, by, bw, bh):
    return (ax < bx + bw - EPS and bx < ax + aw - EPS and ay < by + bh - EPS and by < ay + ah - EPS
            and aw > EPS and ah > EPS and bw > EPS and bh > EPS)


def judge_floats(res):
    """The nine rules of CSS 2.1 9.5.1 and the no-overlap / clear clauses on one rendered document.
    Returns [(clause, id, detail)]."""
    bad = []
    if res['npages'] != 1:
        return [('single-page', None, res['npages'])]
    recs = res['recs']
    floats = [r for r in recs if r['kind'] == 'float']
    byidx = {r['idx']: r for r in recs}
    for f in floats:
        if f['bh'] < EPS:
            # zero-height floats are sent to the page origin (open known finding); not generated
            bad.append(('zero-height-float', f['id'], (f['x'], f['y'])))
    children_of = {}
    for r in recs:
        children_of.setdefault(r['parent'], []).append(r)

    def descendants(idx):
        out = []
        for c in children_of.get(idx, []):
            out.append(c)
            out += descendants(c['idx'])
        return out
    for i, f in enumerate(floats):
        earlier = floats[:i]
        x, y, mw, mh = f['x'], f['y'], f['mw'], f['mh']
        cbx, cbw, cby = f['cbx'], f['cbw'], f['cby']
        # rule 1
        if f['side'] == 'left' and x < cbx - EPS:
            bad.append(('rule1-left-edge-inside-cb', f['id'], (x, cbx)))
        if f['side'] == 'right' and x + mw > cbx + cbw + EPS:
            bad.append(('rule1-right-edge-inside-cb', f['id'], (x + mw, cbx + cbw)))
        # rules 2, 3: no overlap with any earlier float
        for e in earlier:
            if rect_overlap(x, y, mw, mh, e['x'], e['y'], e['mw'], e['mh']):
                bad.append(('rule2-3-floats-overlap', f['id'], (e['id'], (x, y, mw, mh), (e['x'], e['y'], e['mw'], e['mh']))))
        # rule 4
        if y < cby - EPS:
            bad.append(('rule4-above-containing-block', f['id'], (y, cby)))
        # rule 5
        for e in earlier:
            if y < e['y'] - EPS:
                bad.append(('rule5-above-earlier-float', f['id'], (e['id'], y, e['y'])))
        # rule 6: not above an earlier line box (nor the one it occurs in)
        for r in recs:
            if r['kind'] == 'line' and r['idx'] < f['idx'] and y < r['y'] - EPS:
                bad.append(('rule6-above-earlier-line', f['id'], (r['id'], y, r['y'])))
        # rule 7: sticks out only when nothing is to its side
        band = [e for e in earlier if v_overlap(y, mh, e['y'], e['mh']) and e['mh'] > EPS]
        if f['side'] == 'left' and x + mw > cbx + cbw + EPS and any(e['side'] == 'left' and e['x'] + e['mw'] <= x + EPS and e['mw'] > EPS for e in band) and mh > EPS:
            bad.append(('rule7-left-float-sticks-out-next-to-another', f['id'], (x + mw, cbx + cbw)))
        if f['side'] == 'right' and x < cbx - EPS and any(e['side'] == 'right' and e['x'] >= x + mw - EPS and e['mw'] > EPS for e in band) and mh > EPS:
            bad.append(('rule7-right-float-sticks-out-next-to-another', f['id'], (x, cbx)))
        if mh <= EPS or f['bh'] < EPS:
            continue
        # clear
        for e in earlier:
            if f['clear'] in (e['side'], 'both') and y < e['y'] + e['mh'] - EPS:
                bad.append(('clear-float-below', f['id'], (e['id'], y, e['y'] + e['mh'])))
        # rule 9: as far to its side as possible
        if f['side'] == 'left':
            if not (abs(x - cbx) < EPS or any(e['side'] == 'left' and abs(e['x'] + e['mw'] - x) < EPS for e in band)):
                bad.append(('rule9-left-float-not-far-left', f['id'], (x, cbx)))
        else:
            if not (abs(x + mw - cbx - cbw) < EPS or any(e['side'] == 'right' and abs(e['x'] - x - mw) < EPS for e in band)):
                bad.append(('rule9-right-float-not-far-right', f['id'], (x + mw, cbx + cbw)))
        # rule 8: as high as possible.  A safe (high) lower bound of where the float may start:
        low = cby
        for e in earlier:
            low = max(low, e['y'])
            if f['clear'] in (e['side'], 'both'):
                low = max(low, e['y'] + e['mh'])
        par = byidx.get(f['parent'])
        if par is not None and par['kind'] == 'line':
            low = max(low, par['y'] if y < par['y'] + par['mh'] - EPS else par['y'] + par['mh'])
        for r in recs:                     # everything in flow that precedes it: it starts below
            if r['idx'] < f['idx'] and r['kind'] in ('line', 'bfc', 'table') and r['idx'] != f['parent']:
                low = max(low, r['by'] + r['bh'] if r['kind'] != 'line' else r['y'] + r['mh'])
        for y2 in sorted(set([low] + [e['y'] + e['mh'] for e in earlier])):
            if y2 < low - EPS or y2 >= y - EPS:
                continue
            b2 = [e for e in earlier if v_overlap(y2, mh, e['y'], e['mh']) and e['mh'] > EPS]
            lb = max([cbx] + [e['x'] + e['mw'] for e in b2 if e['side'] == 'left'])
            rb = min([cbx + cbw] + [e['x'] for e in b2 if e['side'] == 'right'])
            if not b2 or mw <= rb - lb + EPS:
                bad.append(('rule8-float-could-be-higher', f['id'], (y, y2, (lb, rb, mw))))
                break
    # lines, formatting-context roots and tables never overlap a float's margin box; clear moves below
    for r in recs:
        if r['kind'] in ('line', 'bfc', 'table'):
            rx, ry, rw, rh = (r['cx'], r['y'], r['cw'], r['mh']) if r['kind'] == 'line' else (r['bx'], r['by'], r['bw'], r['bh'])
            for f in floats:
                if f['bh'] < EPS:
                    continue
                if r['parent'] == f['idx']:
                    continue
                if rect_overlap(rx, ry, rw, rh, f['x'], f['y'], f['mw'], f['mh']):
                    bad.append(('%s-overlaps-float' % r['kind'], r['id'], (f['id'], (rx, ry, rw, rh), (f['x'], f['y'], f['mw'], f['mh']))))
        if r['kind'] in ('block', 'bfc', 'table') and r['clear'] != 'none' and not r['anon']:
            for f in floats:
                if f['idx'] < r['idx'] and r['clear'] in (f['side'], 'both') and f['bh'] >= EPS and f['mh'] > EPS:
                    if r['by'] < f['y'] + f['mh'] - EPS:
                        bad.append(('clear-block-below', r['id'], (f['id'], r['by'], f['y'] + f['mh'])))
    return bad


def run_monitor(run, name, fn, docs, judge, rule, sig_prefix, **info):
    outs = common.run_impl('impl_c11', fn, docs, limit=60)
    njudged = 0
    clauses = set()
    for d, (st, o) in zip(docs, outs):
        if st == 'timeout':
            run.fail('%s: render timeout' % name, {'stream': name, 'doc': d}, signature='timeout')
            continue
        if st == 'exc':
            run.fail('%s: render raised %s at %s' % (name, o['type'], o['site']), {'stream': name, 'doc': d, 'exc': o},
                     signature='crash:%s' % (o['site'],))
            continue
        bad, n = judge(d, o)
        njudged += n
        seen = set()
        for clause, eid, detail in bad:
            if clause in seen:
                continue
            seen.add(clause)
            run.fail('%s: %s fails for #%s: %s' % (name, clause, eid, detail),
                     {'stream': name, 'doc': d, 'clause': clause, 'element': eid, 'detail': detail},
                     signature='%s:%s' % (sig_prefix, clause))
    run.count(name, len(docs), [(name, i) for i in range(len(docs))], samples=[str(docs[0])[:700]])
    run.stream_info(name, rule=rule, judged_boxes=njudged, judge='Python (floats compared with tolerance 1e-4)', **info)


def check_float_monitor(run, rng, thorough):
    docs = [{'html': gen_float_doc(rng, inline_floats=False)} for _ in range(3000 if thorough else 600)]
    run_monitor(run, 'render-floats', 'render_floats', docs,
                lambda d, o: (judge_floats(o), sum(1 for r in o['recs'] if r['kind'] == 'float')),
                '1..12 left/right floats (fixed size or shrink-to-fit text, margins, padding, borders, clear) as blocks '
                'and inside paragraphs, with paragraphs, overflow:hidden roots, tables, one nested narrower block; '
                'containers 150/200/320px; every float judged by the nine rules of 9.5.1 against all earlier floats and '
                'lines, every line/root/table against every float', 'floats')


def check(run):
    rng = random.Random(run.seed * 7919 + 11)
    thorough = run.tier == 'thorough'
    common.prove(run, 'C11', ['model/C11Abs.vo'])
    run.trusted += ['Coq 8.16.1 kernel (coqc); vm_compute for the cases.v evaluation',
                    'hand-written Gallina models (model/C11Abs.v, model/C11Float.v): tied to /repo by exact-rational '
                    'direct-call correspondence on every run',
                    'harness stubs (SimpleNamespace/Fraction, shrink_to_fit oracle) and render monitors (Python)']
    S = Streams()
    check_abs_direct(run, rng, thorough, S)
    check_float_direct(run, rng, thorough, S)
    S.run(run)
    check_float_monitor(run, rng, thorough)


def replay(data):
    d = data.get('data', {})
    print('nothing to replay for', d.get('stream'))
    return 0
