"""C11 - floats and positioned boxes obey the CSS 2.1 placement rules."""
import random, itertools, math, json, os
from fractions import Fraction
import common
from common import qlit

PRE_ABS = ('From Coq Require Import QArith List Bool.\nRequire Import WV.model.C11Abs.\n'
           'Import ListNotations.\nOpen Scope Q_scope.\n')


def oqlit(x):
    return 'None' if x == 'auto' else '(Some %s)' % qlit(Fraction(x))


def blit(b):
    return 'true' if b else 'false'


# ----------------------------------------------------------------------------- stream 1: absolute.py direct

def gen_axis_cases(rng, n, with_minmax=True, directions=(True, False, 'root')):
    """One axis of an absolutely positioned box: every auto pattern of (start, end, size, margin-start, margin-end)
    x small value sets (fits / does not fit / negative margins) exhaustively, then random rationals."""
    cases = []
    base = dict(pl=1, pr=2, bl=3, br=4, px=13, cbx=50, cbw=200, mn=20, mx=90, minw=0, maxw='inf')
    seen = set()
    for pat in itertools.product([False, True], repeat=5):
        for vals in itertools.product([0, 30], [0, 45], [60, 250], [-7, 20], [0, 11]):
            for ltr in directions:
                c = dict(base, ltr=ltr)
                for k, auto, v in zip(('l', 'r', 'w', 'ml', 'mr'), pat, vals):
                    c[k] = 'auto' if auto else v
                sig = tuple(sorted(c.items(), key=str))
                if sig not in seen:          # the value of an auto field does not exist: 3^5 = 243 per direction
                    seen.add(sig)
                    cases.append(c)
    if with_minmax:
        for c in list(cases):
            if rng.random() < 0.35:
                c2 = dict(c)
                c2['minw'], c2['maxw'] = rng.choice([(0, 50), (0, 70), (80, 'inf'), (300, 'inf'), (90, 40), (60, 60), (10, 400)])
                cases.append(c2)

    def val(neg=False, small=False):
        d = rng.choice([1, 1, 1, 2, 3, 7])
        hi = 60 if small else 400
        return str(Fraction(rng.randint(-hi if neg else 0, hi), d))
    while len(cases) < n:
        c = dict(ltr=rng.choice(directions))
        for k in ('l', 'r', 'ml', 'mr'):
            c[k] = 'auto' if rng.random() < 0.4 else val(neg=True, small=k in ('ml', 'mr'))
        c['w'] = 'auto' if rng.random() < 0.4 else val()
        for k in ('pl', 'pr', 'bl', 'br'):
            c[k] = val(small=True) if rng.random() < 0.6 else '0'
        c['px'] = val(neg=True)
        c['cbx'] = val(neg=True)
        c['cbw'] = val()
        a, b = sorted([Fraction(val()), Fraction(val())])
        c['mn'], c['mx'] = str(a), str(b)
        if with_minmax and rng.random() < 0.5:
            c['minw'] = val(small=rng.random() < 0.5)
            c['maxw'] = rng.choice(['inf', val(), val(small=True)])
        else:
            c['minw'], c['maxw'] = '0', 'inf'
        cases.append(c)
    return cases


def pad_of(c):
    return Fraction(c['pl']) + Fraction(c['pr']) + Fraction(c['bl']) + Fraction(c['br'])


def axis_lit(c):
    return '(%s, %s, %s, %s, %s), (%s, %s), (%s, %s)' % (
        oqlit(c['l']), oqlit(c['r']), oqlit(c['w']), oqlit(c['ml']), oqlit(c['mr']),
        qlit(pad_of(c)), qlit(c['px']), qlit(c['cbx']), qlit(c['cbw']))


def coq_absw_case(c, o):
    return '(%s, %s, (%s, %s), (%s, %s), (%s, %s, %s, %s, %s))' % (
        blit(c['ltr'] in (True, 'root')), axis_lit(c), qlit(c['mn']), qlit(c['mx']),
        qlit(c['minw']), ('None' if c['maxw'] == 'inf' else '(Some %s)' % qlit(c['maxw'])),
        oqlit(o[0]), oqlit(o[1]), oqlit(o[2]), blit(o[3]), qlit(o[4]))


def coq_absh_case(c, o, content):
    return '(%s, %s, (%s, %s), (%s, %s, %s, %s, %s))' % (
        axis_lit(c), qlit(content), qlit(c['minw']), ('None' if c['maxw'] == 'inf' else '(Some %s)' % qlit(c['maxw'])),
        oqlit(o[0]), oqlit(o[1]), oqlit(o[2]), blit(o[3]), qlit(o[4]))


def coq_absr_case(c, o):
    def out(x):
        return '(%s, %s, %s, %s, %s)' % (oqlit(x[0]), oqlit(x[1]), oqlit(x[2]), oqlit(x[3]), qlit(x[4]))
    return '(%s, %s, %s, %s, %s)' % (blit(c['ltr'] in (True, 'root')), axis_lit(c['h']), axis_lit(c['v']),
                                     out(o[0]), out(o[1]))


ABS_TYPES = {'absw': 'absw_case', 'absh': 'absh_case', 'absr': 'absr_case'}


def pattern_key(c):
    return tuple(c[k] == 'auto' for k in ('l', 'r', 'w', 'ml', 'mr'))


def fits_key(c):
    tot = sum(Fraction(c[k]) for k in ('l', 'r', 'w') if c[k] != 'auto') + pad_of(c)
    return tot <= Fraction(c['cbw'])


class _NoRun:
    def stream_info(self, *a, **k):
        pass


class Streams:
    """Direct-call streams are collected first, then run together: one worker pool for all implementation calls,
    the Coq evaluations of the different streams side by side."""
    def __init__(self):
        self.items = []
        self.monitors = []

    def add_monitor(self, name, fn, docs, judge, rule, sig_prefix, resign=None, **info):
        self.monitors.append(dict(name=name, fn=fn, docs=docs, judge=judge, rule=rule, sig_prefix=sig_prefix,
                                  resign=resign, info=info))

    def add(self, name, fn, cases, to_coq, judge, ctype, key, per_file=300, post=None):
        self.items.append(dict(name=name, fn=fn, cases=cases, to_coq=to_coq, judge=judge, ctype=ctype, key=key,
                               per_file=per_file, post=post))

    def run(self, run):
        from multiprocessing.pool import ThreadPool
        flat_cases = [dict(fn=it['fn'], case=c) for it in self.items for c in it['cases']]
        flat_cases += [dict(fn=m['fn'], case=d) for m in self.monitors for d in m['docs']]
        outs = common.run_impl('impl_c11', 'dispatch', flat_cases, limit=60, chunksize=16)
        pos = 0
        for it in self.items:
            it['outs'] = outs[pos:pos + len(it['cases'])]
            pos += len(it['cases'])
        for m in self.monitors:
            m['outs'] = outs[pos:pos + len(m['docs'])]
            pos += len(m['docs'])

        def evaluate(it):
            name, fn = it['name'], it['fn']
            coq_cases, kept, fails = [], [], []
            for c, (st, o) in zip(it['cases'], it['outs']):
                if st != 'ok':
                    fails.append((c, o))
                    continue
                coq_cases.append(it['to_coq'](c, o)); kept.append((c, o))
            try:
                masks = common.eval_cases('c11' + fn, PRE_ABS if fn.startswith('abs') else PRE_FLOAT, it['ctype'],
                                          coq_cases, it['judge'], per_file=it['per_file'])
                return kept, fails, masks, None
            except RuntimeError as exc:
                return kept, fails, None, str(exc)
        with ThreadPool(max(1, len(self.items))) as tp:
            async_results = tp.map_async(evaluate, self.items)
            for m in self.monitors:          # judged in Python while Coq evaluates the direct streams
                judge_monitor(run, m)
            results = async_results.get()
        for it, (kept, fails, masks, err) in zip(self.items, results):
            name, fn = it['name'], it['fn']
            for c, o in fails[:2]:
                run.fail('%s raised %s' % (fn, o), {'stream': name, 'fn': fn, 'case': c, 'outcome': o}, signature='%s-raise' % fn)
            if err is not None:
                run.oblige('corr:%s' % name, False, err)
                continue
            mism = [(c, o) for (c, o), m in zip(kept, masks) if m & 1]
            run.oblige('corr:%s(model vs CPython, exact rationals)' % name, not mism, 'first disagreements: %s' % mism[:3])
            for (c, o), m in zip(kept, masks):
                if m & 2:
                    run.fail('%s: implementation output violates the placement spec' % name,
                             {'stream': name, 'fn': fn, 'case': c, 'impl_output': o}, signature='%s-spec' % fn)
                    break
            if it['post']:
                it['post'](run, kept)
            if kept:
                run.count(name, len(kept), [it['key'](c) for c, _ in kept],
                          samples=[{'case': kept[0][0], 'impl': kept[0][1]}, {'case': kept[-1][0], 'impl': kept[-1][1]}])


def gen_absr(rng, n):
    hs = gen_axis_cases(rng, n, with_minmax=False, directions=(True,))
    vs = gen_axis_cases(rng, n, with_minmax=False, directions=(True,))
    rng.shuffle(vs)
    cases = []
    for i, (h, v) in enumerate(zip(hs, vs)):
        h, v = dict(h), dict(v)
        for a in (h, v):
            if a['w'] == 'auto':
                a['w'] = rng.choice([60, 250, '77/3'])
        cases.append(dict(ltr=[True, False, 'root'][i % 3], h=h, v=v))
    return cases


def check_abs_direct(run, rng, thorough, S):
    n = 12000 if thorough else 1600
    cases = gen_axis_cases(rng, n)
    S.add('absolute_width-direct', 'absw', cases, coq_absw_case, 'absw_judge', 'absw_case',
                  lambda c: (pattern_key(c), c['ltr'], fits_key(c), c['minw'] != '0' and c['minw'] != 0, c['maxw'] != 'inf'))
    run = run or _NoRun()
    run.stream_info('absolute_width-direct',
                    rule='32 auto patterns of (left,right,width,margin-left,margin-right) x 2 values per specified term '
                         '(243 per direction) x {ltr,rtl,root} exhaustively, 35% repeated with min/max-width, + random rationals; decorated function '
                         '(handle_min_max_width re-entry); distinct = (pattern, direction, fits?, min?, max?)')
    cases = gen_axis_cases(rng, n // 2, with_minmax=True, directions=(True,))
    for c in cases:
        c['content'] = str(Fraction(rng.randint(0, 300), rng.choice([1, 2, 3])))
    S.add('absolute_height-direct', 'absh', cases, lambda c, o: coq_absh_case(c, o, c['content']),
                  'absh_judge', 'absh_case', lambda c: (pattern_key(c), fits_key(c), str(c['minw']) != '0', c['maxw'] != 'inf'))
    run.stream_info('absolute_height-direct', rule='32 auto patterns x 2 values per specified term (243) exhaustively, 35% repeated with min/max-height, '
                    '+ random rationals; decorated function (handle_min_max_height); content height (used when the '
                    'height stays auto) random')
    cases = gen_absr(rng, n // 2)
    S.add('absolute_replaced-direct', 'absr', cases, coq_absr_case, 'absr_judge', 'absr_case',
                  lambda c: (pattern_key(c['h']), pattern_key(c['v']), c['ltr'], fits_key(c['h'])))
    run.stream_info('absolute_replaced-direct', rule='horizontal x vertical auto patterns (width/height given), ltr/rtl/root')


PRE_FLOAT = ('From Coq Require Import QArith List Bool.\nRequire Import WV.model.C11Float.\n'
             'Import ListNotations.\nOpen Scope Q_scope.\n')
KINDS = {'left': 'FloatLeft', 'right': 'FloatRight', 'line': 'LineBox', 'table': 'TableWrapper',
         'bfc': 'OtherBFC', 'replaced': 'OtherBFC'}
CLEARS = {'none': 'ClearNone', 'left': 'ClearLeft', 'right': 'ClearRight', 'both': 'ClearBoth'}


# ------------------------------------------------------------------------------ stream 2: float.py direct

def shape_lit(s):
    return '(mk_shape %s %s %s %s %s)' % (blit(s[0] == 'left'), qlit(s[1]), qlit(s[2]), qlit(s[3]), qlit(s[4]))


def fbox_lit(b):
    return '(mk_fbox %s %s %s %s %s %s %s %s)' % (KINDS[b['kind']], qlit(b['py']), qlit(b['ml']), qlit(b['mr']),
                                                 qlit(b['mt']), qlit(b['mb']), qlit(b['bw']), qlit(b['bh']))


def rq(rng, lo, hi, dens=(1, 1, 1, 2, 3)):
    return str(Fraction(rng.randint(lo, hi), rng.choice(dens)))


def gen_shapes(rng, cbx, cbw, nmax=8):
    """already placed floats: stacked against the sides of the containing block (or of a wider ancestor), tops
    non-decreasing, mostly positive sizes; a few degenerate ones (zero / negative height)."""
    cbx, cbw = Fraction(cbx), Fraction(cbw)
    shapes, y = [], Fraction(rng.choice([0, 0, 10, 35]))
    for _ in range(rng.choice([0, 1, 1, 2, 3, 4, 6, nmax])):
        side = rng.choice(['left', 'right'])
        w = Fraction(rng.choice([10, 20, 30, 50, 80, 120])) + (Fraction(rq(rng, 0, 9)) if rng.random() < 0.3 else 0)
        h = Fraction(rng.choice([5, 10, 10, 20, 40])) + (Fraction(rq(rng, 0, 9)) if rng.random() < 0.3 else 0)
        if rng.random() < 0.04:
            h = Fraction(rng.choice([0, -5]))
        off = Fraction(rng.choice([0, 0, 0, 10, 20, 60, -15]))
        x = cbx + off if side == 'left' else cbx + cbw - w - off
        shapes.append((side, str(x), str(y), str(w), str(h)))
        y += Fraction(rng.choice([0, 0, 5, 10, 10, 20, 25]))
    return shapes


def gen_fbox(rng, kinds, shapes, cbw):
    ys = [Fraction(s[2]) for s in shapes] + [Fraction(s[2]) + Fraction(s[4]) for s in shapes] + [Fraction(0)]
    py = rng.choice(ys) + Fraction(rng.choice([0, 0, 0, -3, 4, 12, -20]))

    def m(p=0.25):
        return rq(rng, -6, 15) if rng.random() < p else '0'
    bw = rng.choice([10, 20, 40, 50, 70, 100, 150, str(Fraction(cbw)), rq(rng, 1, 200)])
    bh = rng.choice([0, 10, 10, 10, 20, 30, 60, rq(rng, 1, 50)]) if rng.random() < 0.97 else 0
    return dict(kind=rng.choice(kinds), py=str(py), ml=m(), mr=m(), mt=m(), mb=m(), bw=str(bw), bh=str(bh))


def regular_key(shapes, b):
    return (all(Fraction(s[4]) > 0 for s in shapes), Fraction(b['bh']) != 0,
            Fraction(b['bh']) + Fraction(b['mt']) + Fraction(b['mb']) > 0)


def check_float_direct(run, rng, thorough, S):
    n = 4000 if thorough else 700
    # find_float_position on a given list of shapes
    cases = []
    for _ in range(n):
        cbx, cbw = rng.choice([(0, 200), (30, 150), (0, 300), ('7/2', '401/3')])
        shapes = gen_shapes(rng, cbx, cbw)
        cases.append(dict(shapes=shapes, cbx=cbx, cbw=cbw, rtl=rng.random() < 0.2,
                          box=gen_fbox(rng, ['left', 'right'], shapes, cbw)))
    S.add('find_float_position-direct', 'ffp', cases,
                  lambda c, o: '([%s], (%s, %s), %s, %s, (%s, %s))' % (
                      '; '.join(shape_lit(s) for s in c['shapes']), qlit(c['cbx']), qlit(c['cbw']), blit(c['rtl']),
                      fbox_lit(c['box']), qlit(o[0]), qlit(o[1])),
                  'ffp_judge', 'ffp_case',
                  lambda c: (len(c['shapes']), c['box']['kind'], regular_key(c['shapes'], c['box']), c['box']['bw']))
    run = run or _NoRun()
    run.stream_info('find_float_position-direct', rule='0..8 stacked shapes (4% degenerate heights) x left/right float '
                    'with random margins/size (3% zero height), py at a shape edge +- offset; stub context, real Box methods')
    # sequences
    cases = []
    for _ in range(n // 2):
        reqs, py = [], Fraction(0)
        cbs = rng.choice([[(0, 200)], [(0, 300), (20, 200)], [(10, 120), (10, 120), (0, 400)]])
        for _ in range(rng.randint(1, 12)):
            cbx, cbw = rng.choice(cbs)
            py += Fraction(rng.choice([0, 0, 0, 5, 10, 30]))
            b = gen_fbox(rng, ['left', 'right'], [], cbw)
            b['py'] = str(py)
            if rng.random() < 0.9:
                b['bh'] = str(max(Fraction(b['bh']), 5))
                b['mt'] = str(abs(Fraction(b['mt']))); b['mb'] = str(abs(Fraction(b['mb'])))
            reqs.append(dict(cbx=cbx, cbw=cbw, box=b))
        cases.append(dict(reqs=reqs))
    S.add('float-sequence-direct', 'fseq', cases,
                  lambda c, o: '([%s], [%s])' % (
                      '; '.join('(%s, %s, %s)' % (qlit(r['cbx']), qlit(r['cbw']), fbox_lit(r['box'])) for r in c['reqs']),
                      '; '.join('(%s, %s)' % (qlit(x), qlit(y)) for x, y in o)),
                  'fseq_judge', 'fseq_case', per_file=40, key=lambda c: (len(c['reqs']), tuple(r['box']['kind'] for r in c['reqs'])))
    run.stream_info('float-sequence-direct', rule='1..12 left/right floats placed one after the other '
                    '(find_float_position + excluded_shapes.append) in 1..3 containing blocks; every float judged by '
                    'the nine rules against all earlier ones')
    # avoid_collisions(outer=False)
    cases = []
    for _ in range(n):
        cbx, cbw = rng.choice([(0, 200), (30, 150), (0, 300)])
        shapes = gen_shapes(rng, cbx, cbw)
        b = gen_fbox(rng, ['line', 'table', 'bfc', 'replaced'], shapes, cbw)
        if b['kind'] == 'line':
            b['ml'] = b['mr'] = b['mt'] = b['mb'] = '0'
        cases.append(dict(shapes=shapes, cbx=cbx, cbw=cbw, rtl=rng.random() < 0.3, box=b))
    S.add('avoid_collisions-direct', 'avc', cases,
                  lambda c, o: '([%s], (%s, %s), %s, %s, (%s, %s, %s))' % (
                      '; '.join(shape_lit(s) for s in c['shapes']), qlit(c['cbx']), qlit(c['cbw']), blit(c['rtl']),
                      fbox_lit(c['box']), qlit(o[0]), qlit(o[1]), qlit(o[2])),
                  'avc_judge', 'avc_case',
                  lambda c: (len(c['shapes']), c['box']['kind'], c['rtl'], c['box']['bw']))
    run.stream_info('avoid_collisions-direct', rule='outer=False callers: line box / table wrapper / replaced block / '
                    'formatting-context root, ltr and rtl, among 0..8 shapes')
    # get_clearance
    cases = []
    for _ in range(n):
        shapes = gen_shapes(rng, 0, 200)
        ys = [Fraction(s[2]) + Fraction(s[4]) for s in shapes] + [Fraction(0)]
        cases.append(dict(shapes=shapes, clear=rng.choice(['none', 'left', 'right', 'both', 'both']),
                          py=str(rng.choice(ys) + rng.choice([0, 0, -5, 5, -30])),
                          cm=rng.choice([None, None, '0', '7', '-4', '5/2'])))
    S.add('get_clearance-direct', 'clr', cases,
                  lambda c, o: '([%s], %s, %s, %s)' % (
                      '; '.join(shape_lit(s) for s in c['shapes']), CLEARS[c['clear']],
                      qlit(Fraction(c['py']) + Fraction(c['cm'] or 0)), oqlit('auto' if o is None else o)),
                  'clr_judge', 'clr_case',
                  lambda c: (len(c['shapes']), c['clear'], c['py'], c['cm']))
    run.stream_info('get_clearance-direct', rule='0..8 shapes x clear none/left/right/both, hypothetical position at a '
                    'bottom edge +- offset, with and without collapsed margin')
    # relative_positioning
    def tree(depth):
        def off():
            return 'auto' if rng.random() < 0.5 else rq(rng, -20, 30)
        inline = depth > 0 and rng.random() < 0.6
        kids = [tree(depth + 1) for _ in range(rng.choice([0, 0, 1, 2, 3]))] if depth < 3 else []
        return dict(rel=rng.random() < 0.6, inline=inline, ltr=rng.random() < 0.6, offs=[off(), off(), off(), off()],
                    x=rq(rng, 0, 200), y=rq(rng, 0, 200), kids=kids)
    cases = []
    for i in range(n // 2):
        t = tree(0)
        if i % 3 == 0:
            t['inline'] = True
        cases.append(dict(tree=t, cbw=100, cbh=100))

    def tree_lit(t):
        return '(RBox %s %s %s (%s, %s, %s, %s) %s %s [%s])' % (
            blit(t['rel']), blit(t['inline']), blit(t['ltr']), oqlit(t['offs'][0]), oqlit(t['offs'][1]),
            oqlit(t['offs'][2]), oqlit(t['offs'][3]), qlit(t['x']), qlit(t['y']), '; '.join(tree_lit(k) for k in t['kids']))
    def rel_post(run, kept):
        for c, o in kept:
            if not o['ret'] or o['sibling'] != [[str(Fraction(x)), str(Fraction(y))] for x, y in flat(c['tree'])]:
                run.fail('relative_positioning returned a value or touched another tree',
                         {'stream': 'relative_positioning-direct', 'fn': 'rel', 'case': c, 'impl_output': o})
                break
    S.add('relative_positioning-direct', 'rel', cases,
                  lambda c, o: '(%s, [%s])' % (tree_lit(c['tree']), '; '.join('(%s, %s)' % (qlit(x), qlit(y)) for x, y in o['pos'])),
                  'rel_judge', 'rel_case',
                  lambda c: (c['tree']['rel'], c['tree']['inline'], c['tree']['ltr'], tuple(x == 'auto' for x in c['tree']['offs'])),
                  post=rel_post)
    run.stream_info('relative_positioning-direct', rule='random trees (depth<=4) of block / inline boxes, each relative or '
                    'static with left/right/top/bottom auto or a length, ltr/rtl; real Box.translate')


def flat(t):
    out = [(t['x'], t['y'])]
    for k in t['kids']:
        out += flat(k)
    return out




# ---------------------------------------------------------------------------------- monitors: full renders
EPS = 1e-4
WORDS = ['a', 'ab', 'abc', 'abcd', 'abcde', 'abcdef', 'abcdefg', 'abcdefgh', 'hg', 'fed', 'cab']


def gen_float_doc(rng, inline_floats=True):
    """1..12 left/right floats of random size/margin/clear mixed with paragraphs (some floats inside the text),
    formatting-context roots, tables and a nested narrower block, in a container of random width."""
    W = rng.choice([150, 200, 200, 320])
    n_floats = [0]
    ids = [0]

    def nid(prefix):
        ids[0] += 1
        return '%s%d' % (prefix, ids[0])

    def fl(inline=False, maxw=None):
        n_floats[0] += 1
        maxw = maxw or W
        side = rng.choice(['left', 'right'])
        st = ['float:%s' % side]
        if rng.random() < 0.75:
            st.append('width:%dpx' % rng.choice([20, 30, 50, 60, 80, 100, maxw // 2, maxw - 10, maxw, maxw + 20]))
            st.append('height:%dpx' % rng.choice([5, 10, 15, 20, 30, 60]))
            txt = ''
        else:
            txt = ' '.join(rng.choice(WORDS) for _ in range(rng.randint(1, 4)))
            if rng.random() < 0.4:
                st.append('width:%dpx' % rng.choice([40, 80]))
        # floats met inside a line get no margin/padding/border: the fit test there uses the content width only
        # (reported deviation); block-level floats get them
        r = rng.random()
        if inline:
            pass
        elif r < 0.25:
            st.append('margin:%dpx' % rng.choice([1, 3, 5]))
        elif r < 0.4:
            st.append('margin:%dpx %dpx %dpx %dpx' % tuple(rng.choice([0, 2, 5, 10]) for _ in range(4)))
        if not inline and rng.random() < 0.15:
            st.append('padding:%dpx' % rng.choice([1, 4]))
        if not inline and rng.random() < 0.15:
            st.append('border:%dpx solid' % rng.choice([1, 2]))
        if rng.random() < 0.25:
            st.append('clear:%s' % rng.choice(['left', 'right', 'both']))
        return '<%s id="%s" style="%s">%s</%s>' % ('span' if inline else 'div', nid('f'), ';'.join(st), txt,
                                                  'span' if inline else 'div')

    def para():
        words = [rng.choice(WORDS) for _ in range(rng.randint(1, 25))]
        k = 0
        while inline_floats and n_floats[0] < 12 and rng.random() < 0.3 and k < 3:
            words.insert(rng.randint(0, len(words)), fl(inline=True))
            k += 1
        st = []
        if rng.random() < 0.15:
            st.append('clear:%s' % rng.choice(['left', 'right', 'both']))
        return '<p id="%s" style="margin:0;%s">%s</p>' % (nid('p'), ';'.join(st), ' '.join(words))

    def bfc():
        st = ['overflow:hidden', 'height:%dpx' % rng.choice([10, 20, 30])]
        if rng.random() < 0.85:
            st.append('width:%dpx' % rng.choice([40, 60, 100, W - 20, W]))
        if rng.random() < 0.2:
            st.append('margin-left:%dpx' % rng.choice([5, 20]))
        if rng.random() < 0.15:
            st.append('clear:%s' % rng.choice(['left', 'right', 'both']))
        return '<div id="%s" style="%s"></div>' % (nid('b'), ';'.join(st))

    def table():
        return ('<table id="%s" style="border-spacing:0"><tr><td style="width:%dpx;height:%dpx;padding:0"></td></tr></table>'
                % (nid('t'), rng.choice([40, 100, W - 30]), rng.choice([10, 20])))

    def items(n, depth):
        out = []
        for _ in range(n):
            r = rng.random()
            if r < 0.42 and n_floats[0] < 12:
                out.append(fl())
            elif r < 0.72:
                out.append(para())
            elif r < 0.84:
                out.append(bfc())
            elif r < 0.9:
                out.append(table())
            elif depth == 0:
                out.append('<div id="%s" style="margin-left:%dpx;margin-right:%dpx">%s</div>' % (
                    nid('n'), rng.choice([0, 10, 30]), rng.choice([0, 10, 40]), ''.join(items(rng.randint(1, 4), 1))))
            else:
                out.append(para())
        return out
    body = ''.join(items(rng.randint(2, 14), 0))
    if n_floats[0] == 0:
        body = fl() + body
    cst = ['width:%dpx' % W]
    if rng.random() < 0.3:
        cst.append('padding-left:%dpx' % rng.choice([5, 15]))
    if rng.random() < 0.3:
        cst.append('margin-left:%dpx' % rng.choice([10, 25]))
    return ('<style>@page{size:420px 20000px;margin:%dpx}body{margin:0;font-family:weasyprint;font-size:10px;'
            'line-height:10px}</style><div id="c" style="%s">%s</div>' % (rng.choice([0, 10]), ';'.join(cst), body))


def v_overlap(a_y, a_h, b_y, b_h):
    return a_y < b_y + b_h - EPS and b_y < a_y + a_h - EPS


def rect_overlap(ax, ay, aw, ah, bx, by, bw, bh):
    return (ax < bx + bw - EPS and bx < ax + aw - EPS and ay < by + bh - EPS and by < ay + ah - EPS
            and aw > EPS and ah > EPS and bw > EPS and bh > EPS)




def judge_floats_raw(res):
    """The nine rules of CSS 2.1 9.5.1 and the no-overlap / clear clauses on one rendered document.
    Floats are taken in SOURCE order (a float deferred to the end of its line is a later child of the line box than
    the floats met after it).
    Returns [(clause, id, detail, key)], key = hashable identity of the alarm."""
    bad = []
    if res['npages'] != 1:
        return [('single-page', None, res['npages'], ('single-page',))]
    recs = res['recs']
    floats = sorted((r for r in recs if r['kind'] == 'float'),
                    key=lambda r: (r['src'] if r.get('src') is not None else 10 ** 9, r['idx']))
    byidx = {r['idx']: r for r in recs}

    def add(clause, eid, detail, *key):
        bad.append((clause, eid, detail, (clause,) + key))
    for f in floats:
        if f['bh'] < EPS and (f['x'] < f['cbx'] - EPS or f['y'] < f['cby'] - EPS):
            # zero-height floats are sent to the page origin (open finding F39); not generated, one corpus case
            add('zero-height-float', f['id'], (f['x'], f['y']), f['idx'])
    for i, f in enumerate(floats):
        earlier = floats[:i]
        x, y, mw, mh = f['x'], f['y'], f['mw'], f['mh']
        cbx, cbw, cby = f['cbx'], f['cbw'], f['cby']
        if f['bh'] < EPS:
            continue
        # rule 1
        if f['side'] == 'left' and x < cbx - EPS:
            add('rule1-left-edge-inside-cb', f['id'], (x, cbx), f['idx'])
        if f['side'] == 'right' and x + mw > cbx + cbw + EPS:
            add('rule1-right-edge-inside-cb', f['id'], (x + mw, cbx + cbw), f['idx'])
        # rules 2, 3: no overlap with any earlier float
        for e in earlier:
            if rect_overlap(x, y, mw, mh, e['x'], e['y'], e['mw'], e['mh']):
                add('rule2-3-floats-overlap', f['id'], (e['id'], (x, y, mw, mh), (e['x'], e['y'], e['mw'], e['mh'])),
                    f['idx'], e['idx'])
        # rule 4
        if y < cby - EPS:
            add('rule4-above-containing-block', f['id'], (y, cby), f['idx'])
        # rule 5: not above a float generated by an earlier element
        for e in earlier:
            if y < e['y'] - EPS:
                add('rule5-above-earlier-float', f['id'], (e['id'], y, e['y']), f['idx'], e['idx'])
        # rule 6: not above an earlier line box (nor the one it occurs in)
        for r in recs:
            if r['kind'] == 'line' and r['idx'] < f['idx'] and y < r['y'] - EPS:
                add('rule6-above-earlier-line', f['id'], (r['id'], y, r['y']), f['idx'], r['idx'])
        # rule 7: sticks out only when nothing is to its side
        band = [e for e in earlier if v_overlap(y, mh, e['y'], e['mh']) and e['mh'] > EPS]
        if f['side'] == 'left' and x + mw > cbx + cbw + EPS and any(e['side'] == 'left' and e['x'] + e['mw'] <= x + EPS and e['mw'] > EPS for e in band) and mh > EPS:
            add('rule7-left-float-sticks-out-next-to-another', f['id'], (x + mw, cbx + cbw), f['idx'])
        if f['side'] == 'right' and x < cbx - EPS and any(e['side'] == 'right' and e['x'] >= x + mw - EPS and e['mw'] > EPS for e in band) and mh > EPS:
            add('rule7-right-float-sticks-out-next-to-another', f['id'], (x, cbx), f['idx'])
        if mh <= EPS or f['bh'] < EPS:
            continue
        # clear
        for e in earlier:
            if f['clear'] in (e['side'], 'both') and y < e['y'] + e['mh'] - EPS:
                add('clear-float-below', f['id'], (e['id'], y, e['y'] + e['mh']), f['idx'], e['idx'])
        # rule 9: as far to its side as possible
        if f['side'] == 'left':
            if not (abs(x - cbx) < EPS or any(e['side'] == 'left' and abs(e['x'] + e['mw'] - x) < EPS for e in band)):
                add('rule9-left-float-not-far-left', f['id'], (x, cbx), f['idx'])
        else:
            if not (abs(x + mw - cbx - cbw) < EPS or any(e['side'] == 'right' and abs(e['x'] - x - mw) < EPS for e in band)):
                add('rule9-right-float-not-far-right', f['id'], (x + mw, cbx + cbw), f['idx'])
        # rule 8: as high as possible.  A safe (high) lower bound of where the float may start:
        low = cby
        for e in earlier:
            low = max(low, e['y'])
            if f['clear'] in (e['side'], 'both'):
                low = max(low, e['y'] + e['mh'])
        par = byidx.get(f['parent'])
        if par is not None and par['kind'] == 'line':
            low = max(low, par['y'] if y < par['y'] + par['mh'] - EPS else par['y'] + par['mh'])
        for r in recs:                     # everything in flow that precedes it: it starts below
            if r['idx'] < f['idx'] and r['kind'] in ('line', 'bfc', 'table') and r['idx'] != f['parent']:
                low = max(low, r['by'] + r['bh'] if r['kind'] != 'line' else r['y'] + r['mh'])
        for y2 in sorted(set([low] + [e['y'] + e['mh'] for e in earlier])):
            if y2 < low - EPS or y2 >= y - EPS:
                continue
            b2 = [e for e in earlier if v_overlap(y2, mh, e['y'], e['mh']) and e['mh'] > EPS]
            lb = max([cbx] + [e['x'] + e['mw'] for e in b2 if e['side'] == 'left'])
            rb = min([cbx + cbw] + [e['x'] for e in b2 if e['side'] == 'right'])
            if not b2 or mw <= rb - lb + EPS:
                add('rule8-float-could-be-higher', f['id'], (y, y2, (lb, rb, mw)), f['idx'])
                break
    # lines, formatting-context roots and tables never overlap a float's margin box; clear moves below
    for r in recs:
        if r['kind'] in ('line', 'bfc', 'table'):
            rx, ry, rw, rh = (r['cx'], r['y'], r['cw'], r['mh']) if r['kind'] == 'line' else (r['bx'], r['by'], r['bw'], r['bh'])
            for f in floats:
                if f['bh'] < EPS:
                    continue
                if r['parent'] == f['idx']:
                    continue
                if rect_overlap(rx, ry, rw, rh, f['x'], f['y'], f['mw'], f['mh']):
                    add('%s-overlaps-float' % r['kind'], r['id'], (f['id'], (rx, ry, rw, rh), (f['x'], f['y'], f['mw'], f['mh'])),
                        r['idx'], f['idx'])
        if r['kind'] in ('block', 'bfc', 'table') and r['clear'] != 'none' and not r['anon']:
            for f in floats:
                if f['idx'] < r['idx'] and r['clear'] in (f['side'], 'both') and f['bh'] >= EPS and f['mh'] > EPS:
                    if r['by'] < f['y'] + f['mh'] - EPS:
                        add('clear-block-below', r['id'], (f['id'], r['by'], f['y'] + f['mh']), r['idx'], f['idx'])
    return bad


def judge_floats(res):
    """judge_floats_raw; the only open finding left in this area is F39 (zero-height floats sent to the page origin),
    attributed by its own clause; every other alarm keeps the plain clause signature (the attributions of F210 - text
    of an rtl line laid over a right float met in that line - and F211 - boxes of an rtl line displaced by the width of
    the stripped trailing space - were removed when those findings were repaired in /repo).  A float whose final
    position differs from the one float.py decided (re-aligned or moved with the text of its line after its placement:
    the repaired findings F51, F186, F189) is an alarm of its own.
    Returns [(clause, id, detail, signature or None)]."""
    raw = judge_floats_raw(res)
    if raw and raw[0][0] == 'single-page':
        return [(c, e, d, None) for c, e, d, _ in raw]
    byidx = {r['idx']: r for r in res['recs']}
    out = []
    for c, e, d, key in raw:
        sig = None
        if c == 'zero-height-float':
            sig = 'zero-height-float-placed-at-page-origin'                      # F39
        out.append((c, e, d, sig))
    for r in res['recs']:
        if r['kind'] == 'float' and r.get('placed') and byidx.get(r['parent'], {}).get('kind') == 'line' and r['bh'] >= EPS:
            if abs(r['x'] - r['placed'][0]) > EPS or abs(r['y'] - r['placed'][1]) > EPS:
                out.append(('float-moved-after-placement', r['id'], ((r['x'], r['y']), tuple(r['placed'])), None))
    return out


def judge_monitor(run, m):
    name, fn, docs, judge, resign, sig_prefix = m['name'], m['fn'], m['docs'], m['judge'], m['resign'], m['sig_prefix']
    njudged = 0
    for d, (st, o) in zip(docs, m['outs']):
        if st == 'timeout':
            run.fail('%s: render timeout' % name, {'stream': name, 'fn': fn, 'doc': d}, signature='timeout')
            continue
        if st == 'exc':
            run.fail('%s: render raised %s at %s' % (name, o['type'], o['site']), {'stream': name, 'fn': fn, 'doc': d, 'exc': o},
                     signature='crash:%s' % (o['site'],))
            continue
        bad, n = judge(d, o)
        njudged += n
        seen = set()
        for entry in bad:
            clause, eid, detail = entry[:3]
            sig = entry[3] if len(entry) > 3 else None
            if sig is None and resign:
                sig = resign(clause, o, d, eid)
            sig = sig or '%s:%s' % (sig_prefix, clause)
            if (clause, sig) in seen:          # one report per clause and attribution and document
                continue
            seen.add((clause, sig))
            run.fail('%s: %s fails for #%s: %s' % (name, clause, eid, detail),
                     {'stream': name, 'fn': fn, 'doc': d, 'clause': clause, 'element': eid, 'detail': detail},
                     signature=sig)
    run.count(name, len(docs), [(name, i) for i in range(len(docs))], samples=[str(docs[0])[:700]] if docs else [])
    run.stream_info(name, rule=m['rule'], judged_boxes=njudged, judge='Python (floats compared with a stated tolerance)', **m['info'])


def gen_midline_doc(rng):
    """paragraphs with 2..4 floats met in the MIDDLE of the text of one line: after some words, widths around the room
    left on the line (fits / just fits / just does not fit / wider than the block), left and right mixed, ltr and rtl,
    spans and divs, sometimes a block-level float before the paragraph."""
    W = rng.choice([100, 150, 200])
    direction = rng.choice(['ltr', 'ltr', 'rtl'])
    ids = [0]

    def nid(p):
        ids[0] += 1
        return '%s%d' % (p, ids[0])
    paras = []
    for _ in range(rng.choice([1, 1, 2, 3])):
        lead = ''
        avail = W
        if rng.random() < 0.3:
            w0 = rng.choice([20, 40, W // 2])
            lead = '<div id="%s" style="float:%s;width:%dpx;height:%dpx"></div>' % (
                nid('f'), rng.choice(['left', 'right']), w0, rng.choice([10, 25, 40]))
            avail = W - w0
        words = [rng.choice(WORDS[:6]) for _ in range(rng.randint(1, 3))]
        used = sum(len(w) for w in words) * 10 + (len(words) - 1) * 10      # without the trailing space
        parts = [' '.join(words) + ' ']
        room = avail - used
        for k in range(rng.randint(2, 4)):
            width = rng.choice([room - 10, room, room + 10, room - 30, W, W + 20, 10, 20, 30])
            width = max(5, width)
            st = ['float:%s' % rng.choice(['left', 'right']), 'width:%dpx' % width,
                  'height:%dpx' % rng.choice([10, 10, 15, 20, 30])]
            # no margins/paddings: the fit test of a float met in a line ignores them (reported deviation)
            if rng.random() < 0.05:
                st.append('clear:%s' % rng.choice(['left', 'right', 'both']))
            tag = rng.choice(['span', 'span', 'div'])
            parts.append('<%s id="%s" style="%s"></%s>' % (tag, nid('f'), ';'.join(st), tag))
            if width <= room and rng.random() < 0.7:
                room -= width
            if rng.random() < 0.35:
                w = rng.choice(WORDS[:4])
                parts.append(w + ' ')
                room -= (len(w) + 1) * 10
        parts.append(' '.join(rng.choice(WORDS) for _ in range(rng.randint(0, 8))))
        paras.append('%s<div id="%s" class="p">%s</div>' % (lead, nid('p'), ''.join(parts)))
    cst = ['width:%dpx' % W, 'direction:%s' % direction]
    if rng.random() < 0.3:
        cst.append('margin-left:%dpx' % rng.choice([10, 25]))
    return ('<style>@page{size:420px 20000px;margin:%dpx}body{margin:0;font-family:weasyprint;font-size:10px;'
            'line-height:10px}</style><div id="c" style="%s">%s</div>' % (rng.choice([0, 10]), ';'.join(cst), ''.join(paras)))


# ------------------------------------------------------- tie of the waiting-float queue model (model/C11Queue.v)
PRE_QUEUE = ('From Coq Require Import QArith List Bool.\nRequire Import WV.model.C11Queue.\n'
             'Import ListNotations.\nOpen Scope Q_scope.\n')


def queue_sim(room, items):
    """Python mirror of C11Queue.run_line, used only to keep the generated text on the first line"""
    pos, maxx, trail, now, wait, k = 0, room, None, [], [], 0
    for it in items:
        if it[0] == 'T':
            pos += it[1]; trail = it[2]
        else:
            if it[2] - (trail or 0) > maxx - pos or wait:
                wait.append(k)
            else:
                now.append(k)
                if it[1] and max(it[3], 0) != 0:
                    pos += max(it[3], 0)
                else:
                    maxx -= it[3]
            k += 1
    return pos, maxx, trail, now, wait


def gen_queue_doc(rng):
    """one paragraph whose FIRST line holds some words and 2..4 floats met after them (single words between), alone in
    its block: the room on the line is the block width and every width is known (test font: 10px per character)"""
    while True:
        W = rng.choice([100, 150, 200])
        direction = rng.choice(['ltr', 'ltr', 'rtl'])
        words = [rng.choice(WORDS[:5]) for _ in range(rng.randint(1, 2))]
        seg = ' '.join(words) + ' '
        items = [('T', 10 * len(seg), 10)]
        html = [seg]
        room = W - 10 * len(seg) + 10
        for k in range(rng.randint(2, 4)):
            width = max(5, rng.choice([room - 10, room, room + 10, room - 30, W, W + 20, 10, 20, 30]))
            tag = rng.choice(['span', 'span', 'div'])
            side = rng.choice(['left', 'right'])
            html.append('<%s id="f%d" style="float:%s;width:%dpx;height:%dpx"></%s>' % (
                tag, k, side, width, rng.choice([10, 15, 20, 30]), tag))
            items.append(('F', side == 'left', width, width))
            if width <= room and rng.random() < 0.7:
                room -= width
            if rng.random() < 0.35:
                w = rng.choice(WORDS[:3]) + ' '
                html.append(w)
                items.append(('T', 10 * len(w), 10))
                room -= 10 * len(w)
        pos, maxx, trail, now, wait = queue_sim(W, items)
        if pos - (trail or 0) <= maxx:            # all the text stays on the first line
            break
    tail = ' '.join(rng.choice(WORDS) for _ in range(rng.randint(0, 6)))
    doc = ('<style>@page{size:420px 20000px;margin:0}body{margin:0;font-family:weasyprint;font-size:10px;'
           'line-height:10px}</style><div id="c" style="width:%dpx;direction:%s"><div id="p">%s%s</div></div>'
           % (W, direction, ''.join(html), (' ' + tail) if False else ''))
    return dict(html=doc, room=W, items=items, direction=direction)


def queue_observed(doc, res):
    """(rank in source order, laid out at once by _out_of_flow_layout?) for every float, in the order of the
    float_layout calls (both logged by the wrapper of find_float_position in impl_c11.render_floats)"""
    floats = [r for r in res['recs'] if r['kind'] == 'float']
    lines = [r for r in res['recs'] if r['kind'] == 'line']
    if not lines or any(f.get('seq') is None or f.get('placed') is None for f in floats):
        return None
    ranks = {f['idx']: k for k, f in enumerate(sorted(floats, key=lambda f: f['src']))}
    return [(ranks[f['idx']], f.get('via') == 'at-once') for f in sorted(floats, key=lambda f: f['seq'])]


def coq_queue_case(doc, obs):
    its = '; '.join(('Txt %s %s' % (qlit(i[1]), qlit(i[2]))) if i[0] == 'T' else ('Flt %s %s %s' % (blit(i[1]), qlit(i[2]), qlit(i[3])))
                    for i in doc['items'])
    return '(%s, [%s], [%s])' % (qlit(doc['room']), its, '; '.join('(%d%%nat, %s)' % (k, blit(b)) for k, b in obs))


def check_queue_tie(run, S, rng, thorough):
    docs = [gen_queue_doc(rng) for _ in range(2000 if thorough else 400)]
    holder = {}

    def judge(d, o):
        holder.setdefault('pairs', []).append((d, o))
        return [], sum(1 for r in o['recs'] if r['kind'] == 'float')
    S.add_monitor('inline-float-queue', 'render_floats', docs, judge,
                  'one paragraph alone in its block, first line = 1..2 words then 2..4 floats (span/div, left/right, widths '
                  'around the room left: room-30, room-10, room, room+10, block width, wider, small) with single words '
                  'between, ltr/rtl; the order of the float_layout calls and which floats are laid out at the top of the '
                  'line are read from the render and compared INSIDE Coq with model/C11Queue.v (bit 0) and with the '
                  'source-order / sticky-queue spec (bit 1)', 'queue')

    def finish():
        kept, cases = [], []
        for d, o in holder.get('pairs', []):
            obs = queue_observed(d, o)
            if obs is None or len(obs) != sum(1 for i in d['items'] if i[0] == 'F'):
                run.fail('inline-float-queue: floats of the line not found in the render', {'stream': 'inline-float-queue',
                         'fn': 'render_floats', 'doc': d}, signature='queue:floats-missing')
                continue
            kept.append((d, obs)); cases.append(coq_queue_case(d, obs))
        try:
            masks = common.eval_cases('c11queue', PRE_QUEUE, 'queue_case', cases, 'queue_judge')
        except RuntimeError as exc:
            run.oblige('corr:inline-float-queue', False, str(exc))
            return
        mism = [(d['html'], obs) for (d, obs), m in zip(kept, masks) if m & 1]
        run.oblige('corr:inline-float-queue(model C11Queue vs render, call order and at-once/waiting)', not mism,
                   'first disagreements: %s' % mism[:2])
        for (d, obs), m in zip(kept, masks):
            if m & 2:
                run.fail('inline-float-queue: the floats of one line are not laid out in source order (observed calls '
                         '(rank, at the line top?): %s): a later float can end above an earlier one (rule 5)' % (obs,),
                         {'stream': 'inline-float-queue', 'fn': 'render_floats', 'doc': d, 'observed': obs},
                         signature='queue:call-order')
                break
        run.count('inline-float-queue:coq', len(kept), [(tuple(map(tuple, d['items'])), d['direction']) for d, _ in kept])
    return finish


def check_float_monitor(S, rng, thorough):
    docs = [{'html': gen_float_doc(rng, inline_floats=False)} for _ in range(3000 if thorough else 600)]
    S.add_monitor('render-floats', 'render_floats', docs,
                lambda d, o: (judge_floats(o), sum(1 for r in o['recs'] if r['kind'] == 'float')),
                '1..12 left/right floats (fixed size or shrink-to-fit text, margins, padding, borders, clear) as blocks '
                'and inside paragraphs, with paragraphs, overflow:hidden roots, tables, one nested narrower block; '
                'containers 150/200/320px; every float judged by the nine rules of 9.5.1 against all earlier floats and '
                'lines, every line/root/table against every float', 'floats')
    docs = [{'html': gen_float_doc(rng, inline_floats=True)} for _ in range(600 if thorough else 120)]
    S.add_monitor('render-floats-inline', 'render_floats', docs,
                lambda d, o: (judge_floats(o), sum(1 for r in o['recs'] if r['kind'] == 'float')),
                'same grammar with up to 3 floats inside the text of each paragraph', 'floats')
    docs = [{'html': gen_midline_doc(rng)} for _ in range(2000 if thorough else 400)]
    S.add_monitor('render-floats-midline', 'render_floats', docs,
                lambda d, o: (judge_floats(o), sum(1 for r in o['recs'] if r['kind'] == 'float')),
                '1..3 paragraphs, each with 2..4 floated spans/divs met in the middle of the text of a line (after 1..3 '
                'words, single words between them), widths around the room left on the line (room-30, room-10, room, '
                'room+10, block width, wider than the block, small), left/right mixed, ltr/rtl, margins, sometimes a '
                'block-level float before the paragraph; floats judged in SOURCE order by the nine rules (rule 5 over the '
                'floats of one line, inside the containing block, no overlap), and each float must stay where float.py '
                'placed it', 'floats')


# ------------------------------------------------------------------------- monitor: absolutely positioned

def gen_len(rng, p_auto=0.4, pct=True, neg=False, choices=(0, 5, 10, 20, 30, 60, 100)):
    r = rng.random()
    if r < p_auto:
        return 'auto'
    v = rng.choice(choices)
    if neg and rng.random() < 0.2:
        v = -v
    if pct and rng.random() < 0.25:
        return '%d%%' % rng.choice([0, 10, 25, 50])
    return '%dpx' % v


def gen_abs_doc(rng):
    """absolutely positioned boxes (block or replaced) with each of left/right/width/top/bottom/height/margins
    auto, px or %, nested in static / relative / absolute ancestors, ltr and rtl."""
    ids = [0]
    specs, cbmap = {}, {}

    def nid(p):
        ids[0] += 1
        return '%s%d' % (p, ids[0])

    def absbox(cb, parent_dir):
        eid = nid('a')
        replaced = rng.random() < 0.25
        sp = dict(replaced=replaced, ltr=(parent_dir == 'ltr'))
        st = ['position:absolute']
        for prop, key in (('left', 'l'), ('right', 'r'), ('top', 't'), ('bottom', 'b')):
            # against the page area nothing may hang below the page bottom (a box cut by the page bottom loses its
            # remaining fragment: known, not re-reported)
            sp[key] = 'auto' if (cb is None and key == 'b') else gen_len(rng, neg=True)
            st.append('%s:%s' % (prop, sp[key]))
        sp['w'] = gen_len(rng, p_auto=0.45, choices=(10, 40, 80, 150, 400))
        sp['h'] = gen_len(rng, p_auto=0.45, choices=(10, 30, 70, 300))
        for prop, key in (('margin-left', 'ml'), ('margin-right', 'mr'), ('margin-top', 'mt'), ('margin-bottom', 'mb')):
            sp[key] = gen_len(rng, p_auto=0.35, pct=False, neg=not (cb is None and key == 'mb'), choices=(0, 3, 8, 20))
            st.append('%s:%s' % (prop, sp[key]))
        st.append('width:%s' % sp['w']); st.append('height:%s' % sp['h'])
        sp['minw'], sp['maxw'] = 0, None
        if not replaced and rng.random() < 0.2:
            sp['maxw'] = rng.choice([30, 60, 120]); st.append('max-width:%dpx' % sp['maxw'])
        if not replaced and rng.random() < 0.15:
            sp['minw'] = rng.choice([50, 100, 200]); st.append('min-width:%dpx' % sp['minw'])
        sp['minh'], sp['maxh'] = 0, None
        if not replaced and rng.random() < 0.2:
            sp['maxh'] = rng.choice([20, 50, 120]); st.append('max-height:%dpx' % sp['maxh'])
        if not replaced and rng.random() < 0.15:
            sp['minh'] = rng.choice([40, 90, 200]); st.append('min-height:%dpx' % sp['minh'])
        if rng.random() < 0.3:
            st.append('padding:%dpx %dpx' % (rng.choice([0, 2, 5]), rng.choice([1, 4])))
        if rng.random() < 0.3:
            st.append('border:%dpx solid' % rng.choice([1, 3]))
        specs[eid] = sp
        cbmap[eid] = cb
        if replaced:
            return '<img id="%s" src="pattern.png" style="%s">' % (eid, ';'.join(st))
        return '<div id="%s" style="%s">%s</div>' % (eid, ';'.join(st), rng.choice(['', 'abc', 'abcd ef abc', 'abcdefgh abcdefgh abc']))

    def group(depth, cb, parent_dir):
        eid = nid('g')
        pos = rng.choice(['static', 'static', 'relative', 'relative', 'absolute'])
        st = ['position:%s' % pos]
        if pos == 'relative' and rng.random() < 0.5:
            st.append('left:%dpx;top:%dpx' % (rng.choice([0, 7, -4]), rng.choice([0, 5])))
        if pos == 'absolute':
            st.append('left:%dpx;top:%dpx;width:%dpx' % (rng.choice([0, 30]), rng.choice([0, 200]), rng.choice([150, 250])))
        elif rng.random() < 0.6:
            st.append('width:%dpx' % rng.choice([120, 200, 300]))
        if rng.random() < 0.5:
            st.append('height:%dpx' % rng.choice([50, 120, 200]))
        # containing blocks whose used height is not their content height: min-height above / max-height below the
        # content (or the fixed height), floats that a formatting-context root grows to contain
        if rng.random() < 0.3:
            st.append('min-height:%dpx' % rng.choice([60, 150, 250]))
        if rng.random() < 0.15:
            st.append('max-height:%dpx' % rng.choice([15, 40]))
        tall_float = ''
        if rng.random() < 0.2:
            tall_float = '<div style="float:%s;width:20px;height:%dpx"></div>' % (
                rng.choice(['left', 'right']), rng.choice([40, 120]))
            if rng.random() < 0.6:
                st.append('overflow:hidden')
        if rng.random() < 0.4:
            st.append('padding:%dpx %dpx %dpx %dpx' % tuple(rng.choice([0, 3, 10]) for _ in range(4)))
        if rng.random() < 0.4:
            st.append('border:%dpx solid' % rng.choice([1, 2, 6]))
        if rng.random() < 0.3:
            st.append('margin:%dpx' % rng.choice([5, 15]))
        d = parent_dir
        if rng.random() < 0.25:
            d = rng.choice(['ltr', 'rtl']); st.append('direction:%s' % d)
        mycb = eid if pos != 'static' else cb
        # always some in-flow content first: an empty positioned block with vertical margins gets a negative
        # height while its absolute children are laid out (reported deviation, not generated)
        kids = ['<p style="margin:0">ab</p>' + tall_float]
        for _ in range(rng.choice([1, 1, 2, 3])):
            r = rng.random()
            if r < 0.5:
                kids.append(absbox(mycb, d))
            elif r < 0.75 and depth < 3:
                kids.append(group(depth + 1, mycb, d))
            else:
                kids.append('<p style="margin:0">abc abcd</p>')
        return '<div id="%s" style="%s">%s</div>' % (eid, ';'.join(st), ''.join(kids))
    body = ''.join(group(0, None, 'ltr') for _ in range(rng.choice([1, 2])))
    if not specs:
        body += absbox(None, 'ltr')
    html = ('<style>@page{size:500px 3000px;margin:%dpx}body{margin:0;font-family:weasyprint;font-size:10px;'
            'line-height:10px}</style>%s' % (rng.choice([0, 20]), body))
    return dict(html=html, cb=cbmap, specs=specs)


def resolve(v, ref):
    if v == 'auto':
        return None
    if v.endswith('%'):
        return ref * float(v[:-1]) / 100
    return float(v[:-2])


def axis_spec_py(check_neg, ltr, cb0, cbs, b, p, tol):
    """Python port of model/C11Abs.v axis_spec_b (minus the static-position clause), with a tolerance.
    b: dict(s, e, z, ms, me: None or number, pad) ; p: dict(x, ms, me, size)."""
    bad = []

    def eq(a, c):
        return abs(a - c) <= tol
    start_used = p['x'] - cb0
    end_used = cb0 + cbs - (p['x'] + p['ms'] + b['pad'] + p['size'] + p['me'])
    all3 = b['s'] is not None and b['e'] is not None and b['z'] is not None
    over = all3 and b['ms'] is not None and b['me'] is not None
    if over:
        if not eq(p['size'], b['z']):
            bad.append('over-constrained:size')
        if ltr:
            if not eq(start_used, b['s']):
                bad.append('over-constrained:start-offset')
            if not eq(p['ms'], b['ms']):
                bad.append('over-constrained:start-margin')
        else:
            if not eq(end_used, b['e']):
                bad.append('over-constrained:end-offset')
            if not eq(p['me'], b['me']):
                bad.append('over-constrained:end-margin')
    else:
        if b['s'] is not None and not eq(start_used, b['s']):
            bad.append('constraint:start-offset')
        if b['e'] is not None and not eq(end_used, b['e']):
            bad.append('constraint:end-offset')
        if b['z'] is not None and not eq(p['size'], b['z']):
            bad.append('constraint:size')
        if b['ms'] is not None and not eq(p['ms'], b['ms']):
            bad.append('constraint:start-margin')
        if b['me'] is not None and not eq(p['me'], b['me']):
            bad.append('constraint:end-margin')
        if not all3:
            if b['ms'] is None and not eq(p['ms'], 0):
                bad.append('auto-margin-zero:start')
            if b['me'] is None and not eq(p['me'], 0):
                bad.append('auto-margin-zero:end')
    if all3 and b['ms'] is None and b['me'] is None:
        fits = b['s'] + b['pad'] + b['z'] + b['e'] <= cbs + tol
        if not check_neg or fits:
            if not eq(p['ms'], p['me']):
                bad.append('auto-margins-equal')
        elif ltr and not eq(p['ms'], 0):
            bad.append('auto-margins-negative:start-zero')
        elif not ltr and not eq(p['me'], 0):
            bad.append('auto-margins-negative:end-zero')
    return bad


def judge_abs(doc, res):
    bad, n = [], 0
    if res['npages'] != 1:
        return [('single-page', None, res['npages'])], 0
    for r in res['boxes']:
        sp = doc['specs'][r['id']]
        cbx, cby, cbw, cbh = r['cb']
        n += 1
        tol = 1e-6 * max(1.0, abs(cbw), abs(cbh), abs(r['x']), abs(r['y']))
        W = r['w']
        z = resolve(sp['w'], cbw)
        if sp['replaced']:
            z = W                      # the used size of a replaced box is decided by replaced.py (C05/C13)
        elif z is not None:
            if sp['maxw'] is not None and z > sp['maxw']:
                z = float(sp['maxw'])
            if z < sp['minw']:
                z = float(sp['minw'])
        bh = dict(s=resolve(sp['l'], cbw), e=resolve(sp['r'], cbw), z=z, ms=resolve(sp['ml'], cbw),
                  me=resolve(sp['mr'], cbw), pad=r['padh'])
        ph = dict(x=r['x'], ms=r['ml'], me=r['mr'], size=W)
        fails = axis_spec_py(True, sp['ltr'], cbx, cbw, bh, ph, tol)
        if fails and z is None and not sp['replaced']:
            # auto width clamped by min/max-width: the rules are applied with the used width as specified (10.4)
            clamped = (sp['maxw'] is not None and abs(W - sp['maxw']) <= tol) or abs(W - sp['minw']) <= tol
            if clamped and not axis_spec_py(True, sp['ltr'], cbx, cbw, dict(bh, z=W), ph, tol):
                fails = []
        for f in fails[:1]:
            bad.append(('abs-horizontal:' + f, r['id'], dict(spec=sp, box=r)))
        H = r['h']
        zv = resolve(sp['h'], cbh)
        if sp['replaced']:
            zv = H
        elif zv is not None:             # CSS 2.1 10.7: the rules are applied again with the clamped height
            if sp.get('maxh') is not None and zv > sp['maxh']:
                zv = float(sp['maxh'])
            if zv < sp.get('minh', 0):
                zv = float(sp['minh'])
        bv = dict(s=resolve(sp['t'], cbh), e=resolve(sp['b'], cbh), z=zv, ms=resolve(sp['mt'], cbw),
                  me=resolve(sp['mb'], cbw), pad=r['padv'])
        pv = dict(x=r['y'], ms=r['mt'], me=r['mb'], size=H)
        if zv is None and bv['s'] is not None and bv['e'] is not None:
            # height auto with top and bottom specified: the height that fills the rest, then min/max-height (a
            # negative one is clamped by min-height: 0); when clamped, CSS 2.1 10.7 applies the rules again with the
            # clamp value as the specified height
            tentative = cbh - bv['s'] - bv['e'] - bv['pad'] - (bv['ms'] or 0) - (bv['me'] or 0)
            clamped = tentative
            if sp.get('maxh') is not None and clamped > sp['maxh']:
                clamped = float(sp['maxh'])
            if clamped < sp.get('minh', 0):
                clamped = float(sp.get('minh', 0))
            if abs(clamped - tentative) > tol:
                bv = dict(bv, z=clamped)
        vfails = axis_spec_py(False, True, cby, cbh, bv, pv, tol)
        for f in vfails[:1]:
            bad.append(('abs-vertical:' + f, r['id'], dict(spec=sp, box=r)))
    return bad, n


def check_abs_monitor(S, rng, thorough):
    docs = [gen_abs_doc(rng) for _ in range(2500 if thorough else 500)]
    S.add_monitor('render-absolute', 'render_abs', docs, judge_abs,
                'absolutely positioned blocks and images, left/right/width/top/bottom/height auto|px|%, margins auto|px '
                '(negative too), min/max-width, min/max-height, padding/border, in static/relative/absolute ancestors (depth<=4) with '
                'padding/border/offsets, ltr/rtl parents, whose used height differs from their content height (fixed '
                'height, min-height above / max-height below the content, a float that a formatting-context root grows '
                'to contain); judged against the padding box of the USED size of the nearest positioned ancestor (else '
                'the page area) by the Python port of axis_spec_b', 'abs')


# ------------------------------------------------------------------------------------- monitor: fixed boxes

def gen_fixed_doc(rng):
    n = rng.choice([1, 2])
    fixed, nested = [], {}
    where = rng.choice(['first', 'middle', 'nested', 'later'])
    for i in range(n):
        st = ['position:fixed']
        for prop in ('left', 'right', 'top', 'bottom'):
            # nothing hangs below the page bottom (a box cut there is treated as fragmented: known, not re-reported)
            v = gen_len(rng, neg=prop != 'bottom')
            if where == 'later' and prop == 'top' and v == 'auto':
                v = '%dpx' % rng.choice([0, 20, 100])     # met on the last page: no static vertical position to compare
            st.append('%s:%s' % (prop, v))
        st.append('width:%s' % gen_len(rng, p_auto=0.5, choices=(10, 40, 80)))
        height = gen_len(rng, p_auto=0.5, choices=(10, 30))
        st.append('height:%s' % height)
        for prop in ('margin-left', 'margin-top', 'margin-right', 'margin-bottom'):
            st.append('%s:%s' % (prop, gen_len(rng, p_auto=0.5, pct=False, choices=(0, 3, 8))))
        content = rng.choice(['', 'abc', 'ab cd']) if height == 'auto' else ''
        if height == 'auto' and rng.random() < 0.35:
            # a grandchild with a top margin that collapses through the child: the same on every page (3+ pages)
            m = rng.choice([4, 7, 12])
            nested['x%d' % i] = m
            content = '<div id="x%dn"><div id="x%dm" style="margin-top:%dpx">f</div></div>' % (i, i, m)
        fixed.append('<div id="x%d" style="%s">%s</div>' % (i, ';'.join(st), content))
    blocks = []
    for k in range(rng.randint(2, 7)):
        blocks.append('<div id="k%d" style="height:%dpx%s">abc</div>' % (
            k, rng.choice([40, 90, 150, 260]), ';break-before:page' if rng.random() < 0.2 else ''))
    if nested and rng.random() < 0.7:
        # at least three more pages that start after an UNFORCED break (after a forced break no margin is truncated)
        for k in range(3):
            blocks.append('<div id="kn%d" style="height:260px">abc</div>' % k)
    else:
        blocks.append('<div id="klast" style="height:40px;break-before:page">abc</div>')     # always at least two pages
    if where == 'first':
        body = ''.join(fixed) + ''.join(blocks)
    elif where == 'later':
        body = ''.join(blocks) + ''.join(fixed)        # met on the last page, must be repeated on the earlier ones
    elif where == 'middle':
        # after one short block: the static position stays clear of the page bottom
        blocks[0] = '<div id="k0" style="height:%dpx">abc</div>' % rng.choice([40, 90])
        body = blocks[0] + ''.join(fixed) + ''.join(blocks[1:])
    else:
        body = '<div id="rel" style="position:relative;left:13px;padding:7px">%s</div>%s' % (''.join(fixed), ''.join(blocks))
    html = ('<style>@page{size:300px 300px;margin:%dpx}body{margin:0;font-family:weasyprint;font-size:10px;'
            'line-height:10px}</style>%s' % (rng.choice([0, 15]), body))
    return dict(html=html, nfixed=n, nested=nested)


F213 = 'abs-layout-page-is-empty-truncates-nested-margins-after-page-1'


def judge_fixed(doc, pages):
    """every fixed box is present with the same rectangle on every page.  Attribution of the open finding F213 (by
    mechanism): the box holds a grandchild with a top margin (doc['nested']), on one of the two pages compared the
    used margin-top of that grandchild is 0 instead of the specified value (truncated as if it adjoined a page break:
    block_level_layout `context.current_page > 1 and page_is_empty`, page_is_empty being forced by absolute_block and
    current_page being stale in layout_fixed_boxes), and the two rectangles differ by exactly that margin in height
    (same x and width; same top, bottom or centre)."""
    bad = []
    first = {}
    if len(pages) < 2:
        bad.append(('several-pages', None, len(pages), None))
    for pi, seen in enumerate(pages):
        for i in range(doc['nfixed']):
            eid = 'x%d' % i
            if eid not in seen:
                bad.append(('fixed-box-on-every-page', eid, ('missing on page', pi), None))
                continue
            if eid not in first:
                first[eid] = (pi, seen[eid], seen.get(eid + 'm'))
            elif any(abs(a - b) > 1e-6 for a, b in zip(first[eid][1][:4], seen[eid][:4])):
                sig = None
                m = (doc.get('nested') or {}).get(eid)
                r0, r1 = first[eid][1], seen[eid]
                g0, g1 = first[eid][2], seen.get(eid + 'm')
                if m and g0 is not None and g1 is not None and len(g0) > 5 and g0[5] is not None and g1[5] is not None:
                    used = sorted([g0[5], g1[5]])
                    dh = r1[3] - r0[3] if g1[5] > g0[5] else r0[3] - r1[3]      # untruncated minus truncated
                    same_edge = (abs(r0[1] - r1[1]) < 1e-6 or abs(r0[1] + r0[3] - r1[1] - r1[3]) < 1e-6 or
                                 abs(2 * r0[1] + r0[3] - 2 * r1[1] - r1[3]) < 1e-6)
                    if abs(used[0]) < 1e-6 and abs(used[1] - m) < 1e-6 and abs(dh - m) < 1e-6 and same_edge and \
                            abs(r0[0] - r1[0]) < 1e-6 and abs(r0[2] - r1[2]) < 1e-6:
                        sig = F213
                bad.append(('fixed-identical-on-every-page', eid, (first[eid][1][:4], pi, seen[eid][:4]), sig))
    return bad, len(pages) * doc['nfixed']


def check_fixed_monitor(S, rng, thorough):
    docs = [gen_fixed_doc(rng) for _ in range(600 if thorough else 150)]
    S.add_monitor('render-fixed', 'render_fixed', docs, judge_fixed,
                  '1..2 position:fixed boxes (offsets/size/margins auto|px|%) met first, after a first block, inside a '
                  'relative box or on the last page, 2..10 pages, 35% of the auto-height ones holding a grandchild with '
                  'a top margin (70% of these documents end with three pages begun by unforced breaks); present with the same '
                  'rectangle on every page', 'fixed')


# ------------------------------------------------------------------------- monitor: relative (metamorphic)

def gen_rel_doc(rng):
    import re
    ids = [0]
    vectors = {}      # id -> ({prop: (value, unit)}, direction)
    parents = {}

    def nid():
        ids[0] += 1
        return 'e%d' % ids[0]

    def offsets(eid, direction, inline):
        v = {}
        for prop in ('left', 'right', 'top', 'bottom'):
            if rng.random() < 0.5:
                unit = rng.choice(['px', 'px', 'em'] + (['%'] if prop in ('left', 'right') and not inline else []))
                val = rng.choice([-20, -5, 3, 10, 25]) if unit != '%' else rng.choice([10, 25, -50])
                if unit == 'em':
                    val = rng.choice([-1, 1, 2])
                v[prop] = (val, unit)
        vectors[eid] = (v, direction)

    def node(depth, parent, direction, force_inline=False):
        eid = nid()
        parents[eid] = parent
        inline = force_inline or (depth > 0 and rng.random() < 0.35)
        st_plain = []
        d = direction
        if rng.random() < 0.15:
            d = rng.choice(['ltr', 'rtl'])
            st_plain.append('direction:%s' % d)
        if not inline:
            if rng.random() < 0.4:
                st_plain.append('width:%dpx' % rng.choice([100, 160, 240]))
            if rng.random() < 0.3:
                st_plain.append('padding:%dpx' % rng.choice([2, 6]))
            if rng.random() < 0.3:
                st_plain.append('margin:%dpx %dpx' % (rng.choice([0, 4]), rng.choice([0, 10])))
        if rng.random() < 0.45:
            offsets(eid, d, inline)
        kids = []
        if inline:
            kids.append(rng.choice(['abc', 'ab cd', 'abcdefgh']))
            if depth < 3 and rng.random() < 0.3:
                kids.append(node(depth + 1, eid, d, force_inline=True))   # no block inside an inline box
        else:
            for _ in range(rng.choice([0, 1, 2, 3]) if depth < 3 else 0):
                kids.append(node(depth + 1, eid, d))
            if not kids or rng.random() < 0.3:
                kids.append('abc abcd')
            if rng.random() < 0.1:
                aid = nid()
                parents[aid] = eid
                kids.append('<div id="%s" style="position:absolute;left:5px;top:3px;width:20px;height:8px"></div>' % aid)
        tag = 'span' if inline else 'div'
        return '<%s id="%s" style="%s{REL:%s}">%s</%s>' % (tag, eid, ';'.join(st_plain + ['']), eid, ''.join(kids), tag)
    body = ''.join(node(0, None, 'ltr') for _ in range(rng.choice([1, 2, 3])))
    head = ('<style>@page{size:400px 5000px;margin:10px}body{margin:0;font-family:weasyprint;font-size:10px;'
            'line-height:10px}</style>')

    def fill(with_offsets):
        def sub(m):
            eid = m.group(1)
            if eid not in vectors:
                return ''
            v, _ = vectors[eid]
            st = ['position:relative']
            if with_offsets:
                st += ['%s:%d%s' % (k, a, u) for k, (a, u) in v.items()]
            return ';'.join(st)
        return head + re.sub(r'\{REL:(e\d+)\}', sub, body)
    return dict(html=fill(True), html_plain=fill(False), vectors=vectors, parents=parents)


def judge_rel(doc, both):
    """metamorphic: the same document without the offsets; every element moves by the sum of the vectors of its
    relatively positioned ancestors-or-self, nothing else changes."""
    bad = []
    moved, plain = both['with'], both['without']
    if len(moved) != 1 or len(plain) != 1:
        return [('single-page', None, (len(moved), len(plain)))], 0
    moved, plain = moved[0], plain[0]
    n = 0
    for eid, (x0, y0, w0, h0, typ) in plain.items():
        if eid not in moved:
            bad.append(('relative-same-boxes', eid, 'missing'))
            continue
        x1, y1, w1, h1, _ = moved[eid]
        dx = dy = 0.0
        a = eid
        while a is not None:
            if a in doc['vectors']:
                v, direction = doc['vectors'][a]
                par = doc['parents'].get(a)
                ref = plain[par][2] if par in plain else 380.0

                def px(t):
                    val, unit = t
                    return val * 10.0 if unit == 'em' else ref * val / 100.0 if unit == '%' else float(val)
                if 'left' in v and ('right' not in v or direction == 'ltr'):
                    dx += px(v['left'])
                elif 'right' in v:
                    dx -= px(v['right'])
                if 'top' in v:
                    dy += px(v['top'])
                elif 'bottom' in v:
                    dy -= px(v['bottom'])
            a = doc['parents'].get(a)
        n += 1
        if abs(x1 - x0 - dx) > 1e-6 or abs(y1 - y0 - dy) > 1e-6:
            bad.append(('relative-moves-by-its-vector-only', eid, ((x0, y0), (x1, y1), (dx, dy))))
        if abs(w1 - w0) > 1e-6 or abs(h1 - h0) > 1e-6:
            bad.append(('relative-keeps-sizes', eid, ((w0, h0), (w1, h1))))
    return bad, n


def check_rel_monitor(S, rng, thorough):
    docs = [gen_rel_doc(rng) for _ in range(1500 if thorough else 300)]
    S.add_monitor('render-relative', 'render_relative_pair', docs, judge_rel,
                  'random trees (depth<=4) of blocks and inline spans, 45% relatively positioned with left/right/top/bottom '
                  'in px/em/% (both of a pair too, ltr/rtl), an absolutely positioned child sometimes; metamorphic: same '
                  'document without the offsets, every element must move by the sum of the vectors of its relative '
                  'ancestors-or-self and keep its size', 'relative')


def judge_queue_replay(d, o):
    obs = queue_observed(d, o)
    m = common.eval_cases('c11queuereplay', PRE_QUEUE, 'queue_case', [coq_queue_case(d, obs)], 'queue_judge')[0]
    return [('queue-judge-mask-%d' % m, None, obs, None)] if m else []


MONITORS = {
    'render-floats': ('render_floats', lambda d, o: (judge_floats(o), 0), 'floats', None),
    'render-floats-inline': ('render_floats', lambda d, o: (judge_floats(o), 0), 'floats', None),
    'render-floats-midline': ('render_floats', lambda d, o: (judge_floats(o), 0), 'floats', None),
    'inline-float-queue': ('render_floats', lambda d, o: (judge_queue_replay(d, o), 0), 'queue', None),
    'render-absolute': ('render_abs', lambda d, o: judge_abs(d, o), 'abs', None),
    'render-fixed': ('render_fixed', lambda d, o: judge_fixed(d, o), 'fixed', None),
    'render-relative': ('render_relative_pair', lambda d, o: judge_rel(d, o), 'relative', None),
}


def check_corpus(S):
    """minimised cases replayed first: the witness of the open finding F39 (its alarm carries the finding's
    signature) and the witnesses of the repaired findings F50, F51, F52, F210, F211, F212 as regression cases (no attribution) and the witness of the open finding F213."""
    d = os.path.join(common.VERIF, 'corpus', 'C11')
    files = sorted(f for f in os.listdir(d) if f.endswith('.json')) if os.path.isdir(d) else []
    for f in files:
        case = json.load(open(os.path.join(d, f)))
        fn, judge, prefix, resign = MONITORS[case['stream']]
        S.add_monitor('corpus:' + f, fn, [case['doc']], judge, 'corpus/C11/%s: witness of finding %s, judged by the '
                      'monitor of stream %s' % (f, case.get('finding'), case['stream']), prefix, resign=resign)


def check(run):
    rng = random.Random(run.seed * 7919 + 11)
    thorough = run.tier == 'thorough'
    common.prove(run, 'C11', ['model/C11Abs.vo', 'model/C11Float.vo', 'model/C11Queue.vo'])
    run.trusted += ['Coq 8.16.1 kernel (coqc); vm_compute for the cases.v evaluation',
                    'hand-written Gallina models (model/C11Abs.v, model/C11Float.v): tied to /repo by exact-rational '
                    'direct-call correspondence on every run',
                    'harness stubs (SimpleNamespace/Fraction boxes, shrink_to_fit oracle, stub LayoutContext with '
                    'excluded_shapes) and the render monitors (Python judges)']
    run.assumptions += ['shrink_to_fit / preferred widths are an oracle of the absolute_width model (any function Q -> Q)',
                        'the glue absolute_block / absolute_box_layout / float_layout (percent resolution, translate, '
                        'block_container_layout of the content) is monitored by full renders, not proved',
                        'line shortening next to floats goes through Pango widths: monitored on rendered text boxes',
                        'floats met inside a line box (inline.py): the waiting queue is modelled (C11Queue) and tied by renders, the rest is monitored',
                        'fixed boxes identical on every page and relative positioning moving nothing else: monitored '
                        '(metamorphic renders); the proved statements are about the pure models']
    S = Streams()
    check_corpus(S)
    check_abs_direct(run, rng, thorough, S)
    check_float_direct(run, rng, thorough, S)
    check_float_monitor(S, rng, thorough)
    check_abs_monitor(S, rng, thorough)
    check_fixed_monitor(S, rng, thorough)
    check_rel_monitor(S, rng, thorough)
    finish_queue = check_queue_tie(run, S, rng, thorough)
    S.run(run)
    finish_queue()


DIRECT = {}


def replay(data):
    """Re-run the one case of a violation file: 1 when it still fails."""
    d = data.get('data', {})
    stream = d.get('stream')
    if stream in MONITORS and 'doc' in d:
        fn, judge, prefix, resign = MONITORS[stream]
        (st, o), = common.run_impl('impl_c11', fn, [d['doc']], limit=60)
        if st != 'ok':
            print('replay: %s %s' % (st, o))
            return 1
        bad, _ = judge(d['doc'], o)
        print('replay:', [(b[0], b[1], (b[3] if len(b) > 3 and b[3] else 'UNATTRIBUTED')) for b in bad][:8])
        return 1 if any(len(b) < 4 or b[3] is None for b in bad) else 0
    if d.get('fn') and 'case' in d:
        import random
        S = Streams()
        rng = random.Random(0)
        check_abs_direct(None, rng, False, S)
        check_float_direct(None, rng, False, S)
        for it in S.items:
            if it['fn'] == d['fn']:
                (st, o), = common.run_impl('impl_c11', d['fn'], [d['case']])
                print('replay: implementation output', st, o)
                if st != 'ok':
                    return 1
                m = common.eval_cases('c11replay', PRE_ABS if d['fn'].startswith('abs') else PRE_FLOAT, it['ctype'],
                                      [it['to_coq'](d['case'], o)], it['judge'])
                print('replay: judge mask (1 = model differs, 2 = spec violated):', m)
                return 1 if m[0] else 0
    print('nothing to replay for', stream)
    return 0
