"""C11 - floats and positioned boxes obey the CSS 2.1 placement rules."""
import random, itertools, math, json, os
from fractions import Fraction
import common
from common import qlit

PRE_ABS = ('From Coq Require Import QArith List Bool.\nRequire Import WV.model.C11Abs.\n'
           'Import ListNotations.\nOpen Scope Q_scope.\n')


def oqlit(x):
    return 'None' if x == 'auto' else '(Some %s)' % qlit(Fraction(x))


def blit(b):
    return 'true' if b else 'false'


# ----------------------------------------------------------------------------- stream 1: absolute.py direct

def gen_axis_cases(rng, n, with_minmax=True, directions=(True, False, 'root')):
    """One axis of an absolutely positioned box: every auto pattern of (start, end, size, margin-start, margin-end)
    x small value sets (fits / does not fit / negative margins) exhaustively, then random rationals."""
    cases = []
    base = dict(pl=1, pr=2, bl=3, br=4, px=13, cbx=50, cbw=200, mn=20, mx=90, minw=0, maxw='inf')
    for pat in itertools.product([False, True], repeat=5):
        for vals in itertools.product([0, 30], [0, 45], [60, 250], [-7, 20], [0, 11]):
            for ltr in directions:
                c = dict(base, ltr=ltr)
                for k, auto, v in zip(('l', 'r', 'w', 'ml', 'mr'), pat, vals):
                    c[k] = 'auto' if auto else v
                cases.append(c)
    if with_minmax:
        for c in list(cases):
            if rng.random() < 0.35:
                c2 = dict(c)
                c2['minw'], c2['maxw'] = rng.choice([(0, 50), (0, 70), (80, 'inf'), (300, 'inf'), (90, 40), (60, 60), (10, 400)])
                cases.append(c2)

    def val(neg=False, small=False):
        d = rng.choice([1, 1, 1, 2, 3, 7])
        hi = 60 if small else 400
        return str(Fraction(rng.randint(-hi if neg else 0, hi), d))
    while len(cases) < n:
        c = dict(ltr=rng.choice(directions))
        for k in ('l', 'r', 'ml', 'mr'):
            c[k] = 'auto' if rng.random() < 0.4 else val(neg=True, small=k in ('ml', 'mr'))
        c['w'] = 'auto' if rng.random() < 0.4 else val()
        for k in ('pl', 'pr', 'bl', 'br'):
            c[k] = val(small=True) if rng.random() < 0.6 else '0'
        c['px'] = val(neg=True)
        c['cbx'] = val(neg=True)
        c['cbw'] = val()
        a, b = sorted([Fraction(val()), Fraction(val())])
        c['mn'], c['mx'] = str(a), str(b)
        if with_minmax and rng.random() < 0.5:
            c['minw'] = val(small=rng.random() < 0.5)
            c['maxw'] = rng.choice(['inf', val(), val(small=True)])
        else:
            c['minw'], c['maxw'] = '0', 'inf'
        cases.append(c)
    return cases


def pad_of(c):
    return Fraction(c['pl']) + Fraction(c['pr']) + Fraction(c['bl']) + Fraction(c['br'])


def axis_lit(c):
    return '(%s, %s, %s, %s, %s), (%s, %s), (%s, %s)' % (
        oqlit(c['l']), oqlit(c['r']), oqlit(c['w']), oqlit(c['ml']), oqlit(c['mr']),
        qlit(pad_of(c)), qlit(c['px']), qlit(c['cbx']), qlit(c['cbw']))


def coq_absw_case(c, o):
    return '(%s, %s, (%s, %s), (%s, %s), (%s, %s, %s, %s, %s))' % (
        blit(c['ltr'] in (True, 'root')), axis_lit(c), qlit(c['mn']), qlit(c['mx']),
        qlit(c['minw']), ('None' if c['maxw'] == 'inf' else '(Some %s)' % qlit(c['maxw'])),
        oqlit(o[0]), oqlit(o[1]), oqlit(o[2]), blit(o[3]), qlit(o[4]))


def coq_absh_case(c, o, content):
    return '(%s, %s, (%s, %s, %s, %s, %s))' % (
        axis_lit(c), qlit(content), oqlit(o[0]), oqlit(o[1]), oqlit(o[2]), blit(o[3]), qlit(o[4]))


def coq_absr_case(c, o):
    def out(x):
        return '(%s, %s, %s, %s, %s)' % (oqlit(x[0]), oqlit(x[1]), oqlit(x[2]), oqlit(x[3]), qlit(x[4]))
    return '(%s, %s, %s, %s, %s)' % (blit(c['ltr'] in (True, 'root')), axis_lit(c['h']), axis_lit(c['v']),
                                     out(o[0]), out(o[1]))


ABS_TYPES = {'absw': 'absw_case', 'absh': 'absh_case', 'absr': 'absr_case'}


def pattern_key(c):
    return tuple(c[k] == 'auto' for k in ('l', 'r', 'w', 'ml', 'mr'))


def fits_key(c):
    tot = sum(Fraction(c[k]) for k in ('l', 'r', 'w') if c[k] != 'auto') + pad_of(c)
    return tot <= Fraction(c['cbw'])


def direct_stream(run, name, fn, cases, to_coq, judge, ctype, key):
    outs = common.run_impl('impl_c11', fn, cases)
    coq_cases, kept = [], []
    for c, (st, o) in zip(cases, outs):
        if st != 'ok':
            run.fail('%s raised %s' % (fn, o), {'stream': name, 'case': c, 'outcome': o}, signature='%s-raise' % fn)
            continue
        coq_cases.append(to_coq(c, o)); kept.append((c, o))
    try:
        masks = common.eval_cases('c11' + fn, PRE_ABS if fn.startswith('abs') else PRE_FLOAT, ctype, coq_cases, judge)
    except RuntimeError as exc:
        run.oblige('corr:%s' % name, False, str(exc))
        return
    mism = [(c, o) for (c, o), m in zip(kept, masks) if m & 1]
    run.oblige('corr:%s(model vs CPython, exact rationals)' % name, not mism, 'first disagreements: %s' % mism[:3])
    for (c, o), m in zip(kept, masks):
        if m & 2:
            run.fail('%s: implementation output violates the placement spec' % name,
                     {'stream': name, 'case': c, 'impl_output': o}, signature='%s-spec' % fn)
            break
    run.count(name, len(kept), [key(c) for c, _ in kept], samples=[{'case': kept[0][0], 'impl': kept[0][1]},
                                                                 {'case': kept[-1][0], 'impl': kept[-1][1]}])


def gen_absr(rng, n):
    hs = gen_axis_cases(rng, n, with_minmax=False, directions=(True,))
    vs = gen_axis_cases(rng, n, with_minmax=False, directions=(True,))
    rng.shuffle(vs)
    cases = []
    for i, (h, v) in enumerate(zip(hs, vs)):
        h, v = dict(h), dict(v)
        for a in (h, v):
            if a['w'] == 'auto':
                a['w'] = rng.choice([60, 250, '77/3'])
        cases.append(dict(ltr=[True, False, 'root'][i % 3], h=h, v=v))
    return cases


def check_abs_direct(run, rng, thorough):
    n = 12000 if thorough else 4500
    cases = gen_axis_cases(rng, n)
    direct_stream(run, 'absolute_width-direct', 'absw', cases, coq_absw_case, 'absw_judge', 'absw_case',
                  lambda c: (pattern_key(c), c['ltr'], fits_key(c), c['minw'] != '0' and c['minw'] != 0, c['maxw'] != 'inf'))
    run.stream_info('absolute_width-direct',
                    rule='32 auto patterns of (left,right,width,margin-left,margin-right) x 32 value tuples x {ltr,rtl,root} '
                         'exhaustively, 35% repeated with min/max-width, + random rationals; decorated function '
                         '(handle_min_max_width re-entry); distinct = (pattern, direction, fits?, min?, max?)')
    cases = gen_axis_cases(rng, n // 2, with_minmax=False, directions=(True,))
    contents = [Fraction(rng.randint(0, 300), rng.choice([1, 2, 3])) for _ in cases]
    it = iter(contents)
    direct_stream(run, 'absolute_height-direct', 'absh', cases, lambda c, o: coq_absh_case(c, o, next(it)),
                  'absh_judge', 'absh_case', lambda c: (pattern_key(c), fits_key(c)))
    run.stream_info('absolute_height-direct', rule='32 auto patterns x 32 value tuples exhaustively + random rationals; '
                    'content height (used when height stays auto) random')
    cases = gen_absr(rng, n // 2)
    direct_stream(run, 'absolute_replaced-direct', 'absr', cases, coq_absr_case, 'absr_judge', 'absr_case',
                  lambda c: (pattern_key(c['h']), pattern_key(c['v']), c['ltr'], fits_key(c['h'])))
    run.stream_info('absolute_replaced-direct', rule='horizontal x vertical auto patterns (width/height given), ltr/rtl/root')


PRE_FLOAT = ''


def check(run):
    rng = random.Random(run.seed * 7919 + 11)
    thorough = run.tier == 'thorough'
    common.prove(run, 'C11', ['model/C11Abs.vo'])
    run.trusted += ['Coq 8.16.1 kernel (coqc); vm_compute for the cases.v evaluation',
                    'hand-written Gallina models (model/C11Abs.v, model/C11Float.v): tied to /repo by exact-rational '
                    'direct-call correspondence on every run',
                    'harness stubs (SimpleNamespace/Fraction, shrink_to_fit oracle) and render monitors (Python)']
    check_abs_direct(run, rng, thorough)


def replay(data):
    d = data.get('data', {})
    print('nothing to replay for', d.get('stream'))
    return 0
