"""Implementation side of C02: render + write a PDF under a watchdog (run in worker processes)."""

REPEAT_LIMIT = 150      # the same resume point returned by more than this many pages: pagination makes no progress


class NoProgress(Exception):
    pass


def _watch_progress():
    """Wrap layout.page.remake_page: when one resume point keeps coming back, stop the render and say where the
    pagination is stuck (the box types along the resume path, innermost last)."""
    import weasyprint.layout.page as page
    if getattr(page.remake_page, '_verif_wrapped', False):
        page.remake_page._seen.clear()
        return
    original = page.remake_page
    seen = {}

    def remake_page(index, page_groups, context, root_box, html):
        result = original(index, page_groups, context, root_box, html)
        resume_at = result[1]
        if resume_at is not None:
            key = repr(resume_at)
            seen[key] = seen.get(key, 0) + 1
            if seen[key] > REPEAT_LIMIT:
                chain, box, skip = [], root_box, resume_at
                while isinstance(skip, dict) and skip and box is not None:
                    name = type(box).__name__
                    if name in ('FlexBox', 'InlineFlexBox') and box.style['flex_wrap'] == 'wrap-reverse':
                        # the lines of this container are laid out in reverse order (F241)
                        name += '[wrap-reverse]'
                    chain.append(name)
                    (i, skip), = list(skip.items())[:1]
                    children = getattr(box, 'children', ())
                    box = children[i] if isinstance(i, int) and i < len(children) else None
                if box is not None:
                    chain.append(type(box).__name__)
                # the innermost box that is not a plain block, and what follows it
                last = max([i for i, n in enumerate(chain) if n != 'BlockBox'] or [0])
                raise NoProgress('>'.join(chain[last:][:4]))
        return result
    remake_page._verif_wrapped = True
    remake_page._seen = seen
    page.remake_page = remake_page


def render(case):
    from tests.testing_utils import FakeHTML
    html, options = case['html'], dict(case.get('options') or {})
    _watch_progress()
    try:
        doc = FakeHTML(string=html).render()
    except NoProgress as exc:
        return {'pages': -1, 'no_progress': str(exc), 'pdf_len': 0, 'starts': ''}
    npages = len(doc.pages)
    pdf = doc.write_pdf(**options)
    return {'pages': npages, 'pdf_len': len(pdf), 'starts': pdf[:5].decode('latin1')}
