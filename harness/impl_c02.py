"""Implementation side of C02: render + write a PDF under a watchdog (run in worker processes)."""


def render(case):
    from weasyprint import HTML
    from tests.testing_utils import TEST_UA_STYLESHEET, TEST_UA_FONT_CONFIG  # noqa
    html, options = case['html'], dict(case.get('options') or {})
    from tests.testing_utils import FakeHTML
    doc = FakeHTML(string=html).render(**{k: v for k, v in options.items() if k in ('pdf_forms', 'pdf_variant')} if False else {})
    npages = len(doc.pages)
    pdf = doc.write_pdf(**options)
    return {'pages': npages, 'pdf_len': len(pdf), 'starts': pdf[:5].decode('latin1')}
