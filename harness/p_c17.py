"""C17 - what is painted is what was laid out, in CSS paint order."""
import random, json, os, sys
import common

PRE = ('From Coq Require Import ZArith List Bool.\n'
       'Require Import WV.model.C17Stacking WV.model.C17Spec WV.model.C17Judge.\n'
       'Import ListNotations.\nOpen Scope Z_scope.\n')

POS = {'static': 'PStatic', 'relative': 'PRelative', 'absolute': 'PAbsolute', 'fixed': 'PFixed',
       'sticky': 'PSticky'}
FLAGS = ['flt', 'opa', 'trf', 'ovf', 'clp', 'git', 'col', 'hid', 'rcl', 'fit']


# ------------------------------------------------------------------------------------------- Coq printers

def info_term(i, bid):
    flags = sum(1 << n for n, k in enumerate(FLAGS) if i.get(k))
    z = 'None' if i.get('z') is None else '(Some (%d))' % i['z']
    return '(I %d %s %s %s %s %d)' % (bid, i['kind'], POS.get(i['pos'], 'PStatic'), z, i.get('tm', 'TNone'), flags)


def box_term(nodes, n=0):
    """nodes: list of [info, [kid ids]] indexed by id -> Coq `box` term."""
    info, kids = nodes[n]
    return '(Box %s [%s])' % (info_term(info, n), '; '.join(box_term(nodes, k) for k in kids))


def pnode_term(nodes, o):
    def lst(l):
        return '[%s]' % '; '.join(pnode_term(nodes, x) for x in l)
    if o[0] == 'B':
        return '(PB %s %s)' % (info_term(nodes[o[1]][0], o[1]), lst(o[2]))
    _, bid, kids, neg, zero, pos, blocks, floats, bcs, z = o
    return '(PC %s %s %s %s %s %s %s %s (%d))' % (
        info_term(nodes[bid][0], bid), lst(kids), lst(neg), lst(zero), lst(pos), lst(blocks), lst(floats),
        lst(bcs), z)


def bits_term(pairs):
    return '[%s]' % '; '.join('(%s, %d)' % (k, b) for k, b in sorted(set(pairs)))


# ------------------------------------------------------------------------------- stream 1: synthetic trees

SYNTH_CLASSES = [
    ('BlockBox', 'KBlock', 10), ('InlineBox', 'KInline', 5), ('LineBox', 'KLine', 4), ('TextBox', 'KText', 4),
    ('InlineBlockBox', 'KInlineBlock', 4), ('TableBox', 'KTable', 2), ('TableRowGroupBox', 'KRowGroup', 2),
    ('TableRowBox', 'KRow', 2), ('TableCellBox', 'KCell', 3), ('FlexBox', 'KFlex', 1), ('GridBox', 'KGrid', 1),
    ('InlineFlexBox', 'KInlineFlex', 1), ('InlineGridBox', 'KInlineGrid', 1),
    ('BlockReplacedBox', 'KBlockReplaced', 1), ('InlineReplacedBox', 'KInlineReplaced', 1),
    ('InlineTableBox', 'KTable', 1), ('TableCaptionBox', 'KBlock', 1), ('MarginBox', 'KMargin', 1),
    ('TableColumnGroupBox', 'KOther', 1)]
NONPARENT = {'TextBox', 'BlockReplacedBox', 'InlineReplacedBox'}


def gen_synth(rng, max_nodes):
    """A random tree of real box classes with random stacking-relevant style; ids in preorder."""
    classes = [c for c, _, w in SYNTH_CLASSES for _ in range(w)]
    kinds = {c: k for c, k, _ in SYNTH_CLASSES}
    count = [0]
    plain = rng.random() < 0.15            # mostly in-flow trees now and then

    def node(depth):
        cls = rng.choice(classes) if depth else rng.choice(['BlockBox', 'BlockBox', 'InlineBlockBox', 'TableCellBox'])
        bid = count[0]
        count[0] += 1
        r = rng.random()
        pos = 'static'
        if not plain and r < 0.35:
            pos = rng.choice(['relative', 'absolute', 'fixed', 'sticky', 'relative', 'absolute'])
        z = None
        if not plain and rng.random() < 0.45:
            z = rng.choice([-2, -1, -1, 0, 0, 1, 1, 2, 7])
        t = dict(id=bid, cls=cls, kind=kinds[cls], pos=pos, z=z,
                 opa=(not plain and rng.random() < 0.1), trf=(not plain and rng.random() < 0.08),
                 ovf=(not plain and rng.random() < 0.1), flt=(not plain and rng.random() < 0.15),
                 git=(not plain and rng.random() < 0.06), fit=(not plain and rng.random() < 0.06),
                 col=(cls in ('TableBox', 'InlineTableBox', 'TableCellBox') and rng.random() < 0.4), ph=(pos in ('absolute', 'fixed') and rng.random() < 0.8),
                 kids=[])
        if cls not in NONPARENT and depth < 6:
            nk = rng.choice([0, 1, 1, 2, 2, 3, 4]) if depth < 3 else rng.choice([0, 0, 1, 2])
            for _ in range(nk):
                if count[0] >= max_nodes:
                    break
                t['kids'].append(node(depth + 1))
        return t
    return node(0)


def synth_nodes(tree):
    nodes = {}
    def walk(t):
        nodes[t['id']] = [dict(kind=t['kind'], pos=t['pos'], z=t['z'], opa=t['opa'], trf=t['trf'], ovf=t['ovf'],
                               flt=t['flt'], git=t['git'], fit=t['fit'], col=t['col'], tm='TNone'), [k['id'] for k in t['kids']]]
        for k in t['kids']:
            walk(k)
    walk(tree)
    return [nodes[i] for i in range(len(nodes))]


# ------------------------------------------------------------------------- documents (streams 2, 3 and 4)

def colour(m):
    """Unique colour number m -> '#rgb' with 4-bit channels (never black or white)."""
    m = m + 1                      # skip #000
    if m >= 0xfff:
        raise ValueError('too many colours')
    return '#%x%x%x' % (m % 16, (m // 16) % 16, (m // 256) % 16)


def colour_rgb(m):
    m = m + 1
    return (17 * (m % 16), 17 * ((m // 16) % 16), 17 * ((m // 256) % 16))


WORDS = ['ab', 'cd', 'abc', 'a', 'efg', 'hgf', 'ba', 'dc']
ZS = ['auto', 'auto', '-2', '-1', '-1', '0', '0', '1', '1', '2', '3']
TRANSFORMS = ['translate(3px,2px)', 'translate(-4px,5px)', 'rotate(90deg)', 'scale(2)', 'scale(0.5,1)',
              'rotate(180deg) translate(2px,0)', 'scale(0)', 'translate(10%,20%)']


class DocGen:
    """Random document of blocks, inlines, inline-blocks, floats, tables and positioned boxes.  Element number n
    has background colour 3n, text colour 3n+1 and border colour 3n+2 (all distinct in the document)."""

    def __init__(self, rng, profile='full'):
        self.rng, self.n, self.profile = rng, 0, profile
        self.features = set()
        self.hstack = []

    def style(self, kind, depth, ctxdepth):
        rng = self.rng
        n = self.n
        self.n += 1
        st = ['background:%s' % colour(3 * n), 'color:%s' % colour(3 * n + 1)]
        full = self.profile == 'full'
        ctx = False
        if kind in ('div', 'ib', 'span', 'td', 'table', 'tr'):
            r = rng.random()
            allow_ctx = ctxdepth < 4
            if kind in ('div', 'ib', 'span', 'table') and r < 0.30 and allow_ctx:
                p = rng.choice(['relative', 'relative', 'absolute', 'absolute', 'fixed'] if kind != 'span'
                               else ['relative'])
                st.append('position:%s' % p)
                if p == 'relative':
                    st.append('%s:%dpx' % (rng.choice(['left', 'top']), rng.choice([-6, -3, 2, 5, 12])))
                else:
                    st.append('left:%dpx;top:%dpx' % (rng.choice([0, 5, 20, 60, 100]), rng.choice([0, 5, 15, 40, 90])))
                    if rng.random() < 0.7:
                        st.append('width:%dpx' % rng.choice([20, 30, 50]))
                self.features.add('pos:' + p)
                ctx = True
            if rng.random() < (0.35 if ctx else (0.06 if self.profile != 'strict' else 0)):
                z = rng.choice(ZS)
                st.append('z-index:%s' % z)
                self.features.add('z:' + ('static' if not ctx else 'pos') + ('neg' if z.startswith('-') else z))
            if kind in ('div', 'ib', 'table', 'td') and rng.random() < 0.08 and allow_ctx:
                st.append('opacity:%s' % rng.choice(['0.5', '0.25', '0.75']))
                self.features.add('opacity'); ctx = True
            if kind in ('div', 'ib', 'table') and rng.random() < 0.07 and allow_ctx:
                t = rng.choice(TRANSFORMS)
                st.append('transform:%s' % t)
                if rng.random() < 0.5:
                    st.append('transform-origin:%s' % rng.choice(['0 0', '50% 50%', '10px 5px', '100% 0']))
                self.features.add('transform:' + t.split('(')[0]); ctx = True
            if kind in ('div', 'ib', 'td') and rng.random() < 0.08 and allow_ctx:
                st.append('overflow:hidden')
                if rng.random() < 0.6:
                    st.append('height:%dpx' % rng.choice([5, 12, 20]))
                self.features.add('overflow'); ctx = True
            if full and kind in ('tr',) and rng.random() < 0.06:
                st.append(rng.choice(['opacity:0.5', 'position:relative', 'transform:translate(1px,1px)']))
                self.features.add('tr-context'); ctx = True
        if kind in ('div', 'ib', 'table') and rng.random() < 0.18 and 'position:absolute' not in ';'.join(st) \
                and 'position:fixed' not in ';'.join(st):
            st.append('float:%s;width:%dpx' % (rng.choice(['left', 'right']), rng.choice([15, 25, 40])))
            self.features.add('float')
        # visibility is inherited, not a subtree switch: descendants of a hidden element are made visible again
        # often (hstack: depths of the open hidden ancestors; generation is depth first and descendants are deeper)
        while self.hstack and self.hstack[-1] >= depth:
            self.hstack.pop()
        if rng.random() < 0.07:
            st.append('visibility:hidden')
            self.features.add('hidden')
            self.hstack.append(depth)
        elif rng.random() < (0.35 if self.hstack else 0.02):
            st.append('visibility:visible')
            if self.hstack:
                self.features.add('revisible:' + kind)      # (approximate: a later, deeper sibling counts too)
        if kind in ('div', 'ib', 'td', 'span', 'table'):
            if rng.random() < 0.35:
                w = rng.choice([1, 2, 3])
                if rng.random() < 0.6:
                    st.append('border:%dpx solid %s' % (w, colour(3 * n + 2)))
                else:
                    side = rng.choice(['top', 'left', 'bottom', 'right'])
                    st.append('border-%s:%dpx solid %s' % (side, w, colour(3 * n + 2)))
                self.features.add('border')
            if rng.random() < 0.3:
                st.append('padding:%dpx %dpx' % (rng.choice([0, 1, 2, 4]), rng.choice([0, 1, 3])))
            if rng.random() < 0.15 and kind != 'span':
                st.append('background-clip:%s' % rng.choice(['padding-box', 'content-box', 'border-box']))
                self.features.add('bgclip')
        if kind == 'div':
            if rng.random() < 0.3:
                st.append('margin:%dpx %dpx' % (rng.choice([-8, -4, 0, 2, 5]), rng.choice([0, 0, 3, -3])))
            if rng.random() < 0.25:
                st.append('width:%dpx' % rng.choice([30, 60, 90]))
            if rng.random() < 0.15:
                st.append('height:%dpx' % rng.choice([4, 10, 25]))
        return n, ';'.join(st), ctx

    def text(self):
        return ' '.join(self.rng.choice(WORDS) for _ in range(self.rng.choice([1, 1, 2, 3])))

    def inline_content(self, depth, ctxdepth):
        rng = self.rng
        out = []
        for _ in range(rng.choice([1, 2, 2, 3])):
            r = rng.random()
            if r < 0.45 or depth >= 5:
                out.append(self.text())
            elif r < 0.70:
                n, st, ctx = self.style('span', depth, ctxdepth)
                out.append('<span id="e%d" style="%s">%s</span>' % (n, st, self.inline_content(depth + 1, ctxdepth + ctx)))
            elif r < 0.85:
                n, st, ctx = self.style('ib', depth, ctxdepth)
                st += ';display:inline-block'
                self.features.add('inline-block')
                out.append('<span id="e%d" style="%s">%s</span>' % (n, st, self.flow(depth + 1, ctxdepth + ctx)))
            else:
                out.append(self.block(depth + 1, ctxdepth))      # float / abspos / block-in-inline
        return ' '.join(out)

    def table(self, depth, ctxdepth):
        rng = self.rng
        n, st, ctx = self.style('table', depth, ctxdepth)
        if rng.random() < 0.3:
            st += ';border-collapse:collapse'
            self.features.add('collapse')
        else:
            st += ';border-spacing:%dpx' % rng.choice([0, 1, 2])
        rows = []
        for _ in range(rng.choice([1, 2, 2])):
            rn, rst, rctx = self.style('tr', depth + 1, ctxdepth + ctx)
            cells = []
            for _ in range(rng.choice([1, 2, 3])):
                cn, cst, cctx = self.style('td', depth + 2, ctxdepth + ctx + rctx)
                inner = '' if rng.random() < 0.1 else (
                    self.inline_content(depth + 3, ctxdepth + ctx + rctx + cctx) if rng.random() < 0.8
                    else self.flow(depth + 3, ctxdepth + ctx + rctx + cctx))
                cells.append('<td id="e%d" style="%s">%s</td>' % (cn, cst, inner))
            rows.append('<tr id="e%d" style="%s">%s</tr>' % (rn, rst, ''.join(cells)))
        self.features.add('table')
        return '<table id="e%d" style="%s">%s</table>' % (n, st, ''.join(rows))

    def block(self, depth, ctxdepth):
        rng = self.rng
        if rng.random() < 0.12 and depth < 4:
            return self.table(depth, ctxdepth)
        n, st, ctx = self.style('div', depth, ctxdepth)
        if depth >= 5 or rng.random() < 0.45:
            inner = self.inline_content(depth + 1, ctxdepth + ctx) if rng.random() < 0.9 else ''
        else:
            inner = self.flow(depth + 1, ctxdepth + ctx)
        return '<div id="e%d" style="%s">%s</div>' % (n, st, inner)

    def flow(self, depth, ctxdepth):
        rng = self.rng
        if depth >= 5:
            return self.inline_content(depth, ctxdepth)
        return ''.join(self.block(depth, ctxdepth) for _ in range(rng.choice([1, 1, 2, 2, 3])))

    def document(self):
        rng = self.rng
        n_html, n_body = self.n, self.n + 1
        self.n += 2
        body = self.flow(0, 0)
        html_bg = rng.random() < 0.5
        css = ('@page{size:%dpx %dpx;margin:%dpx}'
               'html{%s;color:%s}body{margin:%dpx;background:%s;color:%s;'
               'font-family:weasyprint;font-size:10px;line-height:10px}table{border-spacing:0}td{padding:0}'
               % (rng.choice([160, 200, 300]), 4000, rng.choice([0, 0, 8]),
                  ('background:%s' % colour(3 * n_html)) if html_bg else 'background:none', colour(3 * n_html + 1),
                  rng.choice([0, 4]), colour(3 * n_body) if rng.random() < 0.7 else 'none', colour(3 * n_body + 1)))
        return '<html id="e%d"><style>%s</style><body id="e%d">%s</body></html>' % (n_html, css, n_body, body)


def gen_doc(rng, profile='full'):
    while True:
        g = DocGen(rng, profile)
        try:
            html = g.document()
        except ValueError:
            continue
        if g.n <= 120:
            return html, sorted(g.features), g.n


# =====================================================================================================
#  Display list: an interpreter of the page content streams (pdfread tokenizer), independent of WeasyPrint
# =====================================================================================================

def m_mul(a, b):
    """PDF matrices as (a, b, c, d, e, f); row-vector convention: p' = p x M; returns a x b (a applied first)."""
    return (a[0] * b[0] + a[1] * b[2], a[0] * b[1] + a[1] * b[3],
            a[2] * b[0] + a[3] * b[2], a[2] * b[1] + a[3] * b[3],
            a[4] * b[0] + a[5] * b[2] + b[4], a[4] * b[1] + a[5] * b[3] + b[5])


def m_apply(m, x, y):
    return (m[0] * x + m[2] * y + m[4], m[1] * x + m[3] * y + m[5])


def m_inv(m):
    det = m[0] * m[3] - m[1] * m[2]
    a, b, c, d = m[3] / det, -m[1] / det, -m[2] / det, m[0] / det
    return (a, b, c, d, -(m[4] * a + m[5] * c), -(m[4] * b + m[5] * d))


IDENT = (1.0, 0.0, 0.0, 1.0, 0.0, 0.0)


def _bezier(p0, p1, p2, p3, n=8):
    pts = []
    for k in range(1, n + 1):
        t = k / n
        u = 1 - t
        pts.append((u * u * u * p0[0] + 3 * u * u * t * p1[0] + 3 * u * t * t * p2[0] + t * t * t * p3[0],
                    u * u * u * p0[1] + 3 * u * u * t * p1[1] + 3 * u * t * t * p2[1] + t * t * t * p3[1]))
    return pts


class _GS(object):
    __slots__ = ('ctm', 'fill', 'stroke', 'ca', 'CA', 'clips', 'lw', 'font', 'fsize', 'rise', 'dash')

    def copy(self):
        g = _GS()
        for k in self.__slots__:
            setattr(g, k, getattr(self, k))
        return g


def _glyphs_of(s):
    b = bytes(s)
    return [int.from_bytes(b[i:i + 2], 'big') for i in range(0, len(b) - 1, 2)]


def interpret(doc, data, resources, gs, out, problems, depth=0):
    """Append display items to `out`.  Items are dicts: kind in fill|stroke|text|image|group; device coordinates."""
    import pdfread
    try:
        ops = pdfread.tokenize_content(data)
    except pdfread.PDFError as exc:
        problems.append('tokenize: %s' % exc)
        return
    stack = []
    path, cur, start = [], None, None      # path: list of subpaths (lists of device points, closed flag)
    pending_clip = None
    tm = tlm = IDENT
    in_text = False
    fresh_tm = False

    def res(cat, name):
        d = doc.resolve(resources.get(cat)) if resources else None
        return doc.resolve(d.get(str(name))) if isinstance(d, dict) else None

    def pt(x, y):
        return m_apply(gs.ctm, x, y)

    def finish(paint):
        nonlocal path, cur, start, pending_clip
        subpaths = [sp for sp in path if len(sp[0]) >= 1]
        if paint in ('fill', 'both'):
            out.append(dict(kind='fill', rgb=gs.fill, alpha=gs.ca, path=[list(sp[0]) for sp in subpaths],
                            segs=[list(sp[2]) for sp in subpaths], evenodd=paint_eo[0], clips=gs.clips, ctm=gs.ctm))
        if paint in ('stroke', 'both'):
            out.append(dict(kind='stroke', rgb=gs.stroke, alpha=gs.CA, path=[list(sp[0]) for sp in subpaths],
                            closed=[sp[1] for sp in subpaths], lw=gs.lw, clips=gs.clips, ctm=gs.ctm, dash=gs.dash))
        if pending_clip is not None:
            gs.clips = gs.clips + ((tuple(tuple(sp[0]) for sp in subpaths), pending_clip == 'eo',
                                    tuple(tuple(sp[2]) for sp in subpaths)),)
            pending_clip = None
        path, cur, start = [], None, None
    paint_eo = [False]

    for op, a in ops:
        try:
            if op == 'q':
                stack.append(gs.copy())
            elif op == 'Q':
                if stack:
                    g = stack.pop()
                    for k in _GS.__slots__:
                        setattr(gs, k, getattr(g, k))
                else:
                    problems.append('Q without q')
            elif op == 'cm':
                gs.ctm = m_mul(tuple(float(x) for x in a), gs.ctm)
            elif op == 'gs':
                d = res('ExtGState', a[0])
                if isinstance(d, dict):
                    if 'ca' in d:
                        gs.ca = float(d['ca'])
                    if 'CA' in d:
                        gs.CA = float(d['CA'])
                    if 'SMask' in d and str(d['SMask']) != 'None':
                        problems.append('SMask in ExtGState')
                else:
                    problems.append('unknown ExtGState %s' % a[0])
            elif op == 'rg':
                gs.fill = tuple(float(x) for x in a)
            elif op == 'RG':
                gs.stroke = tuple(float(x) for x in a)
            elif op == 'g':
                gs.fill = (float(a[0]),) * 3
            elif op == 'G':
                gs.stroke = (float(a[0]),) * 3
            elif op in ('k', 'K', 'cs', 'CS', 'sc', 'scn', 'SC', 'SCN'):
                if op in ('k', 'sc', 'scn', 'cs'):
                    gs.fill = ('special', op)
                else:
                    gs.stroke = ('special', op)
            elif op == 'w':
                gs.lw = float(a[0])
            elif op == 'd':
                gs.dash = (tuple(float(x) for x in a[0]), float(a[1]))
            elif op == 'm':
                cur = start = pt(float(a[0]), float(a[1]))
                path.append([[cur], False, [('m', cur)]])
            elif op == 'l':
                cur = pt(float(a[0]), float(a[1]))
                path[-1][0].append(cur)
                path[-1][2].append(('l', cur))
            elif op == 'c':
                p1, p2, p3 = pt(float(a[0]), float(a[1])), pt(float(a[2]), float(a[3])), pt(float(a[4]), float(a[5]))
                path[-1][0].extend(_bezier(cur, p1, p2, p3))
                path[-1][2].append(('c', p3, p1, p2))
                cur = p3
            elif op == 'v':
                p2, p3 = pt(float(a[0]), float(a[1])), pt(float(a[2]), float(a[3]))
                path[-1][0].extend(_bezier(cur, cur, p2, p3))
                path[-1][2].append(('c', p3, cur, p2))
                cur = p3
            elif op == 'y':
                p1, p3 = pt(float(a[0]), float(a[1])), pt(float(a[2]), float(a[3]))
                path[-1][0].extend(_bezier(cur, p1, p3, p3))
                path[-1][2].append(('c', p3, p1, p3))
                cur = p3
            elif op == 'h':
                if path:
                    path[-1][1] = True
                    cur = start
            elif op == 're':
                x, y, w, h = (float(v) for v in a)
                path.append([[pt(x, y), pt(x + w, y), pt(x + w, y + h), pt(x, y + h)], True,
                             [('re', pt(x, y), pt(x + w, y + h))]])
                cur = start = pt(x, y)
            elif op in ('W', 'W*'):
                pending_clip = 'eo' if op == 'W*' else 'nz'
            elif op == 'n':
                finish(None)
            elif op in ('f', 'F', 'f*'):
                paint_eo[0] = op == 'f*'
                finish('fill')
            elif op in ('S', 's'):
                if op == 's' and path:
                    path[-1][1] = True
                finish('stroke')
            elif op in ('B', 'B*', 'b', 'b*'):
                paint_eo[0] = op.endswith('*')
                finish('both')
            elif op == 'BT':
                tm = tlm = IDENT
                in_text = True
                fresh_tm = False
            elif op == 'ET':
                in_text = False
            elif op == 'Tf':
                gs.font, gs.fsize = str(a[0]), float(a[1])
            elif op == 'Tm':
                tm = tlm = tuple(float(x) for x in a)
                fresh_tm = True
            elif op in ('Td', 'TD'):
                tlm = m_mul((1, 0, 0, 1, float(a[0]), float(a[1])), tlm)
                tm = tlm
                fresh_tm = True
            elif op == 'Ts':
                gs.rise = float(a[0])
            elif op in ('Tj', 'TJ', "'", '"'):
                glyphs, adjust = [], []
                seq = a[0] if op == 'TJ' else [a[-1]]
                for el in seq:
                    if isinstance(el, (int, float)):
                        adjust.append((len(glyphs), float(el)))
                    else:
                        glyphs.extend(_glyphs_of(el))
                fobj = doc.resolve(resources.get('Font')) if resources else None
                fref = fobj.get(gs.font) if isinstance(fobj, dict) else None
                out.append(dict(kind='text', rgb=gs.fill, alpha=gs.ca, font=gs.font,
                                fontref=(fref.num if hasattr(fref, 'num') else None), size=gs.fsize,
                                tm=m_mul(tm, gs.ctm), glyphs=glyphs, adjust=adjust, rise=gs.rise, clips=gs.clips,
                                origin_known=fresh_tm, ctm=gs.ctm))
                fresh_tm = False
            elif op == 'Do':
                xo = res('XObject', a[0])
                if xo is None or not hasattr(xo, 'dict'):
                    problems.append('unknown XObject %s' % a[0])
                    continue
                sub = str(xo.dict.get('Subtype'))
                if sub == 'Form':
                    if depth > 12:
                        problems.append('form nesting too deep')
                        continue
                    g2 = gs.copy()
                    mat = doc.resolve(xo.dict.get('Matrix'))
                    if mat:
                        g2.ctm = m_mul(tuple(float(x) for x in mat), g2.ctm)
                    fres = doc.resolve(xo.dict.get('Resources')) or resources
                    items = []
                    is_group = xo.dict.get('Group') is not None
                    if is_group:
                        g2.ca = g2.CA = 1.0       # group contents start with their own alpha state
                    interpret(doc, doc.stream_data(xo) or b'', fres, g2, items, problems, depth + 1)
                    if is_group:
                        out.append(dict(kind='group', alpha=gs.ca, items=items, clips=gs.clips, name=str(a[0])))
                    else:
                        out.extend(items)
                elif sub == 'Image':
                    out.append(dict(kind='image', alpha=gs.ca, clips=gs.clips, ctm=gs.ctm, name=str(a[0])))
        except (IndexError, TypeError, ValueError) as exc:
            problems.append('operator %s %r: %s' % (op, a, exc))


def new_gs():
    g = _GS()
    g.ctm, g.fill, g.stroke, g.ca, g.CA, g.clips, g.lw = IDENT, (0.0, 0.0, 0.0), (0.0, 0.0, 0.0), 1.0, 1.0, (), 1.0
    g.font, g.fsize, g.rise, g.dash = None, 0.0, 0.0, None
    return g


def parse_tounicode(doc, fontref_num):
    """gid -> str from the font's ToUnicode CMap (bfchar and bfrange sections)."""
    import re
    f = doc.objects.get(fontref_num)
    if not isinstance(f, dict):
        return None
    tu = doc.resolve(f.get('ToUnicode'))
    if tu is None or not hasattr(tu, 'dict'):
        return None
    data = (doc.stream_data(tu) or b'').decode('latin-1')
    table = {}
    def u16(h):
        b = bytes.fromhex(h)
        return b.decode('utf-16-be', 'replace')
    for sect in re.findall(r'beginbfchar(.*?)endbfchar', data, re.S):
        for g, u in re.findall(r'<([0-9A-Fa-f]+)>\s*<([0-9A-Fa-f]*)>', sect):
            table[int(g, 16)] = u16(u)
    for sect in re.findall(r'beginbfrange(.*?)endbfrange', data, re.S):
        for lo, hi, u in re.findall(r'<([0-9A-Fa-f]+)>\s*<([0-9A-Fa-f]+)>\s*<([0-9A-Fa-f]*)>', sect):
            lo, hi = int(lo, 16), int(hi, 16)
            base = u16(u)
            for k in range(lo, hi + 1):
                table[k] = base[:-1] + chr(ord(base[-1]) + k - lo) if base else ''
        for lo, hi, arr in re.findall(r'<([0-9A-Fa-f]+)>\s*<([0-9A-Fa-f]+)>\s*\[(.*?)\]', sect, re.S):
            lo = int(lo, 16)
            for k, u in enumerate(re.findall(r'<([0-9A-Fa-f]*)>', arr)):
                table[lo + k] = u16(u)
    return table


def display_lists(pdf_bytes):
    """-> (list per page of dict(items, height, width, problems), doc)"""
    import pdfread
    doc = pdfread.parse(pdf_bytes)
    pages = []
    for page in doc.pages():
        items, problems = [], []
        mb = [float(x) for x in doc.resolve(page.get('MediaBox'))]
        interpret(doc, doc.page_content(page) or b'', doc.resolve(page.get('Resources')) or {}, new_gs(), items, problems)
        pages.append(dict(items=items, mediabox=mb, problems=problems + list(doc.problems)))
    return pages, doc


def flatten_items(items, group_alpha=1.0, groups=()):
    """Depth-first list of leaf items; each gets 'galpha' (product of the enclosing groups' alphas) and
    'groups' (their names)."""
    out = []
    for it in items:
        if it['kind'] == 'group':
            out.extend(flatten_items(it['items'], group_alpha * it['alpha'], groups + (it['name'],)))
        else:
            it = dict(it)
            it['galpha'] = group_alpha
            it['groups'] = groups
            out.append(it)
    return out


# =====================================================================================================
#  Reference: CSS 2.1 Appendix E over the layout records (independent of weasyprint/stacking.py)
# =====================================================================================================

BLOCK_LEVEL = {'BlockBox', 'TableCaptionBox', 'FootnoteAreaBox', 'FlexBox', 'GridBox', 'TableBox', 'InlineTableBox',
               'BlockReplacedBox'}
ATOMIC_INLINE = {'InlineBlockBox', 'InlineFlexBox', 'InlineGridBox'}


class Ref(object):
    """Paint order of one page.  boxes: records in preorder (impl_c17.render_display).
    overflow_ctx: WeasyPrint lets overflow != visible form a stacking context (kept, reported as a deviation)."""

    def __init__(self, boxes, overflow_ctx=True, quirks=()):
        self.b = boxes
        self.overflow_ctx = overflow_ctx
        self.quirks = set(quirks)       # known deviations of WeasyPrint, switched on only to classify a mismatch
        self.out = []

    # -- classification (CSS 2.1 9.9.1, css-color-3 opacity, css-transforms-1)
    def positioned(self, n):
        return self.b[n]['position'] != 'static'

    def z(self, n):
        r = self.b[n]
        if r['z'] is None:
            return 0
        if not (self.positioned(n) or r['git'] or r.get('fit')):
            return 0                  # z-index applies to positioned boxes (and grid / flex items) only
        return r['z']

    def creates(self, n):
        r = self.b[n]
        return ((self.positioned(n) or r['git']) and r['z'] is not None) or r['opacity'] < 1 or \
            bool(r['transform']) or (self.overflow_ctx and r['overflow'] != 'visible')

    def floated(self, n):
        return self.b[n]['floated'] and not self.positioned(n) and not self.creates(n)

    def atomic(self, n):
        return self.b[n]['cls'] in ATOMIC_INLINE and not (self.creates(n) or self.positioned(n) or self.b[n]['floated'])

    def inflow(self, n):
        return not (self.creates(n) or self.positioned(n) or self.b[n]['floated'] or self.b[n]['cls'] in ATOMIC_INLINE)

    def kids(self, n):
        return self.b[n]['kids']

    # -- collections
    def child_contexts(self, n):
        res = []
        def walk(k):
            if self.creates(k):
                res.append(k)
                return
            if self.positioned(k):
                res.append(k)
            for c in self.kids(k):
                walk(c)
        for c in self.kids(n):
            walk(c)
        return res

    def flow_walk(self, n):
        """in-flow descendants in tree order, plus the floats met at the boundary: yields (kind, box)."""
        for c in self.kids(n):
            if self.inflow(c):
                yield ('flow', c)
                for x in self.flow_walk(c):
                    yield x
            elif self.floated(c):
                yield ('float', c)

    # -- emission
    def emit(self, n, layer):
        self.out.append((n, layer))

    def table(self, t):
        self.emit(t, 'bg')
        groups = [g for g in self.kids(t) if self.inflow(g)]
        for g in groups:
            self.emit(g, 'bg')
            for r in [r for r in self.kids(g) if self.inflow(r)]:
                self.emit(r, 'bg')
                for c in [c for c in self.kids(r) if self.inflow(c)]:
                    if self.b[t].get('collapse') or not self.b[c]['hid']:
                        self.emit(c, 'bg')
        if self.b[t].get('collapse'):
            self.emit(t, 'collapsed')
            return
        self.emit(t, 'border')
        for g in groups:
            for r in [r for r in self.kids(g) if self.inflow(r)]:
                for c in [c for c in self.kids(r) if self.inflow(c)]:
                    if not self.b[c]['hid']:
                        self.emit(c, 'border')

    def inline(self, n):
        """an inline-level box (or line box) painted in place"""
        if self.atomic(n):
            self.context(n, False)
            return
        if not self.inflow(n):
            return
        self.emit(n, 'bg')
        self.emit(n, 'border')
        cls = self.b[n]['cls']
        if cls in ('InlineBox', 'LineBox'):
            for c in self.kids(n):
                self.inline(c)
        else:
            self.emit(n, 'content')

    def lines(self, n):
        ks = [c for c in self.kids(n) if self.inflow(c) or self.atomic(c)]
        if self.b[n]['cls'] in ('BlockReplacedBox', 'InlineReplacedBox'):
            self.emit(n, 'content')
        elif ks and all(self.b[c]['cls'] == 'LineBox' for c in ks):
            for c in ks:
                self.inline(c)

    def context(self, n, root):
        r = self.b[n]
        self.out.append((n, 'open'))
        if r['tm'] == 'TSingular':
            self.out.append((n, 'close'))
            return
        cls = r['cls']
        lost = 'table-part-context-background-lost' in self.quirks and cls in ('TableRowBox', 'TableRowGroupBox')
        if cls not in ('InlineBox', 'PageBox') and not lost:
            self.emit(n, 'bg')
            self.emit(n, 'border' if cls != 'TableCellBox' else 'cell-border')
        if lost:
            pass
        elif cls == 'TableRowBox':
            cells = [c for c in self.kids(n) if self.inflow(c)]
            for c in cells:
                self.emit(c, 'bg')
            for c in cells:
                self.emit(c, 'border')
        elif cls == 'TableRowGroupBox':
            rows = [x for x in self.kids(n) if self.inflow(x)]
            for x in rows:
                self.emit(x, 'bg')
                for c in [c for c in self.kids(x) if self.inflow(c)]:
                    self.emit(c, 'bg')
            for x in rows:
                for c in [c for c in self.kids(x) if self.inflow(c)]:
                    self.emit(c, 'border')
        cs = self.child_contexts(n) if (root or self.creates(n)) else []
        for c in sorted([c for c in cs if self.z(c) < 0], key=self.z):
            self.context(c, False)
        flow = list(self.flow_walk(n))
        for kind, c in flow:
            if kind == 'flow' and self.b[c]['cls'] in BLOCK_LEVEL:
                if self.b[c]['cls'] in ('TableBox', 'InlineTableBox'):
                    self.table(c)
                else:
                    self.emit(c, 'bg')
                    self.emit(c, 'border')
        for kind, c in flow:
            if kind == 'float':
                self.context(c, False)
        if cls == 'InlineBox':
            self.emit(n, 'bg')
            self.emit(n, 'border')
            for c in self.kids(n):
                self.inline(c)
        self.lines(n)
        for kind, c in flow:
            if kind == 'flow' and (self.b[c]['cls'] in BLOCK_LEVEL or self.b[c]['cls'] == 'TableCellBox'):
                self.lines(c)
        for c in [c for c in cs if self.z(c) == 0]:
            self.context(c, False)
        for c in sorted([c for c in cs if self.z(c) > 0], key=self.z):
            self.context(c, False)
        self.out.append((n, 'close'))

    def page(self):
        """page box (record 0): its children are contexts, sorted by z-index like child contexts"""
        kids = self.kids(0)
        self.out.append((0, 'open'))
        for c in sorted([c for c in kids if self.z(c) < 0], key=self.z):
            self.context(c, True)
        for c in [c for c in kids if self.z(c) == 0]:
            self.context(c, True)
        for c in sorted([c for c in kids if self.z(c) > 0], key=self.z):
            self.context(c, True)
        self.out.append((0, 'close'))
        return self.out


# ------------------------------------------------------------------- expected visible paints of a page

def colour_index(rgb):
    """(r, g, b) floats -> unique colour number m of the generator, or None when it is not one of them."""
    try:
        v = [round(x * 15) for x in rgb[:3]]
    except TypeError:
        return None
    if any(abs(x * 15 - r) > 0.02 for x, r in zip(rgb[:3], v)):
        return None
    return v[0] + 16 * v[1] + 256 * v[2] - 1


def in_collapsed_table(boxes, n):
    p = boxes[n]['parent']
    while p is not None:
        if boxes[p]['cls'] in ('TableBox', 'InlineTableBox'):
            return bool(boxes[p].get('collapse'))
        p = boxes[p]['parent']
    return False


def visible_tokens(boxes, order, canvas, quirks=()):
    """order: [(box, layer)] from a painter -> [(box, role, colour index)] of the paints that put ink in the
    display list: backgrounds with a colour, borders with a visible side, non-blank text."""
    toks = []
    singular = set()
    for n, layer in order:
        r = boxes[n]
        if layer in ('open', 'close'):
            continue
        if layer == 'collapsed':
            # collapsed borders come from the table, its row groups, rows and cells: ink only if one is visible
            parts = [n]
            for g in r['kids']:
                parts.append(g)
                for row in boxes[g]['kids']:
                    parts.append(row)
                    parts.extend(boxes[row]['kids'])
            if any(boxes[x]['visible'] for x in parts):
                toks.append((n, 'collapsed', None))
            continue
        if not r['visible']:
            continue
        if layer == 'bg':
            if r['bgcolor'] and r['bgcolor'][3] > 0 and not r.get('bg_to_canvas'):
                toks.append((n, 'bg', colour_index(r['bgcolor'])))
        elif layer == 'cell-border' and in_collapsed_table(boxes, n):
            # a cell painted as a context: in the collapsing model its borders belong to the table's border phase
            pass
        elif layer in ('border', 'cell-border'):
            sides = [s for s in 'trbl' if (r['b' + s] or 0) > 0 and r['bs' + s] not in ('none', 'hidden')
                     and r['bc' + s] and r['bc' + s][3] > 0]
            if sides:
                cols = sorted(set(colour_index(r['bc' + s]) for s in sides), key=lambda v: (v is None, v))
                toks.append((n, 'border', cols[0] if len(cols) == 1 else tuple(cols)))
        elif layer == 'content':
            if r['cls'] == 'TextBox' and r.get('text', '').strip():
                toks.append((n, 'text', colour_index(r['color'])))
    return toks


# =====================================================================================================
#  Judging one rendered document: order (monitor A) and geometry (monitor B)
# =====================================================================================================

import math

TOL = 2e-3        # CSS px; pydyf prints 6 significant decimals


def transform_of(r):
    """CSS transform of a box record as a function on points (css px), or None.  transform-origin is relative to
    the border box; 'transform: f1 f2' applies f2 first (css-transforms-1 section 3)."""
    if not r['transform'] or r['cls'] == 'InlineBox':
        return None
    bx, by = r['x'] + r['ml'], r['y'] + r['mt']
    bw = r['bl'] + r['pl'] + r['w'] + r['pr'] + r['br']
    bh = r['bt'] + r['pt'] + r['h'] + r['pb'] + r['bb']
    def length(v, ref):
        if isinstance(v, list):
            return v[0] * ref / 100 if v[1] == '%' else v[0]
        return v
    ox = bx + length(r['torigin'][0], bw)
    oy = by + length(r['torigin'][1], bh)
    fns = []
    for name, args in r['transform']:
        if name == 'translate':
            tx, ty = length(args[0], bw), length(args[1], bh)
            fns.append((1, 0, 0, 1, tx, ty))
        elif name == 'rotate':
            c, s = math.cos(args), math.sin(args)
            fns.append((c, s, -s, c, 0, 0))
        elif name == 'scale':
            fns.append((args[0], 0, 0, args[1], 0, 0))
        elif name == 'skew':
            fns.append((1, math.tan(args[1]), math.tan(args[0]), 1, 0, 0))
        elif name == 'matrix':
            fns.append(tuple(args))
        else:
            return 'unsupported'
    def f(p):
        x, y = p[0] - ox, p[1] - oy
        for a, b, c, d, e, g in reversed(fns):
            x, y = a * x + c * y + e, b * x + d * y + g
        return (x + ox, y + oy)
    return f


class PageGeometry(object):
    def __init__(self, boxes, mediabox, scale=0.75):
        self.b = boxes
        self.H = mediabox[3]
        self.scale = scale
        self._chain = {}

    def to_css(self, p):
        return (p[0] / self.scale, (self.H - p[1]) / self.scale)

    def ancestors(self, n):
        """proper ancestors, nearest first"""
        res = []
        p = self.b[n]['parent']
        while p is not None:
            res.append(p)
            p = self.b[p]['parent']
        return res

    def map_point(self, n, p):
        """a point of box n's layout coordinates -> page css px after the transforms of n and its ancestors"""
        for a in [n] + self.ancestors(n):
            f = transform_of(self.b[a])
            if f == 'unsupported':
                return None
            if f is not None:
                p = f(p)
        return p

    def rect_poly(self, n, rect, via=None):
        x, y, w, h = rect
        pts = [(x, y), (x + w, y), (x + w, y + h), (x, y + h)]
        return [self.map_point(via if via is not None else n, p) for p in pts]

    def opacity(self, n):
        o = 1.0
        for a in [n] + self.ancestors(n):
            o *= self.b[a]['opacity']
        return o

    def box_rect(self, n, which):
        r = self.b[n]
        bx, by = r['x'] + r['ml'], r['y'] + r['mt']
        bw = r['bl'] + r['pl'] + r['w'] + r['pr'] + r['br']
        bh = r['bt'] + r['pt'] + r['h'] + r['pb'] + r['bb']
        if which == 'border-box':
            return (bx, by, bw, bh)
        if which == 'padding-box':
            return (bx + r['bl'], by + r['bt'], bw - r['bl'] - r['br'], bh - r['bt'] - r['bb'])
        return (bx + r['bl'] + r['pl'], by + r['bt'] + r['pt'], r['w'], r['h'])


def same_poly(p, q, tol=TOL):
    """same point set (any starting corner / direction); degenerate duplicates allowed"""
    if p is None or q is None or len(p) != len(q):
        return False
    sp = sorted((round(x / tol / 4), round(y / tol / 4)) for x, y in p)
    sq = sorted((round(x / tol / 4), round(y / tol / 4)) for x, y in q)
    if sp == sq:
        return True
    return all(min(abs(a[0] - b[0]) + abs(a[1] - b[1]) for b in q) < 4 * tol for a in p) and \
        all(min(abs(a[0] - b[0]) + abs(a[1] - b[1]) for b in p) < 4 * tol for a in q)


def point_in_poly(pt, polys, evenodd):
    """winding / even-odd test against a list of closed polygons"""
    x, y = pt
    wn = 0
    crossings = 0
    for poly in polys:
        n = len(poly)
        for i in range(n):
            x1, y1 = poly[i]
            x2, y2 = poly[(i + 1) % n]
            if (y1 <= y) != (y2 <= y):
                t = (y - y1) / (y2 - y1)
                xi = x1 + t * (x2 - x1)
                if xi > x:
                    crossings += 1
                    wn += 1 if y2 > y1 else -1
    return (crossings % 2 == 1) if evenodd else (wn != 0)


def shape_of(segs, geo):
    """A subpath written by rounded_box (m l c l c l c l c) or a rectangle (re), axis aligned in css px ->
    (x, y, w, h, [tlx, tly, trx, try, brx, bry, blx, bly]) or None."""
    segs = list(segs)
    if len(segs) == 1 and segs[0][0] == 're':
        (x1, y1), (x2, y2) = geo.to_css(segs[0][1]), geo.to_css(segs[0][2])
        return (min(x1, x2), min(y1, y2), abs(x2 - x1), abs(y2 - y1), [0.0] * 8)
    if [s_[0] for s_ in segs] != ['m', 'l', 'c', 'l', 'c', 'l', 'c', 'l', 'c']:
        return None
    P = [geo.to_css(s_[1]) for s_ in segs]
    m, l1, c1, l2, c2, l3, c3, l4, c4 = P
    x, y = c3[0], m[1]
    xr, yb = c1[0], c2[1]
    flat = [abs(l1[1] - y), abs(l2[0] - xr), abs(l3[1] - yb), abs(l4[0] - x), abs(c4[0] - m[0]), abs(c4[1] - m[1])]
    if max(flat) > 4 * TOL:
        return None
    return (x, y, xr - x, yb - y,
            [m[0] - x, l4[1] - y, xr - l1[0], c1[1] - y, xr - c2[0], yb - l2[1], l3[0] - x, yb - c3[1]])


def same_rect(shape, rect, tol=4 * TOL):
    return shape is not None and all(abs(a - b) <= tol for a, b in zip(shape[:4], rect))


def has_radii(r):
    return any(v for v in r.get('oradii', []))


def radius_case(r, which, shape, geo_rect):
    """one render case for the Coq radius judge: border box size, outer radii, inset widths of `which`, observed
    rounded box relative to the border box"""
    bt, br, bb, bl = r['bt'], r['br'], r['bb'], r['bl']
    if which == 'padding-box':
        ins = (bt, br, bb, bl)
    elif which == 'content-box':
        ins = (bt + r['pt'], br + r['pr'], bb + r['pb'], bl + r['pl'])
    else:
        ins = (0.0, 0.0, 0.0, 0.0)
    bx, by, bw, bh = geo_rect
    return dict(W=bw, H=bh, R=r['oradii'], ins=list(ins), which=which,
                obs=[shape[0] - bx, shape[1] - by, shape[2], shape[3]] + list(shape[4]))


def match_tokens(tokens, leaves):
    """Walk the display list along the expected tokens.  Returns (pairs, error): pairs = [(token, [items])]."""
    i = 0
    pairs = []
    for tok in tokens:
        n, role, col = tok
        if role == 'collapsed':
            j = i
            while j < len(leaves) and leaves[j]['kind'] == 'stroke':
                j += 1
            pairs.append((tok, leaves[i:j]))
            i = j
            continue
        if i >= len(leaves):
            return pairs, ('missing', tok, None, i)
        it = leaves[i]
        want_kind = 'text' if role == 'text' else 'fill'
        idx = colour_index(it['rgb']) if isinstance(it.get('rgb'), tuple) and len(it['rgb']) == 3 else None
        cols = col if isinstance(col, tuple) else (col,)
        if it['kind'] != want_kind or idx not in cols:
            return pairs, ('unexpected', tok, (it['kind'], idx), i)
        j = i + 1
        if role == 'border':
            while j < len(leaves) and leaves[j]['kind'] == 'fill' and colour_index(leaves[j]['rgb']) in cols:
                j += 1
        pairs.append((tok, leaves[i:j]))
        i = j
    if i < len(leaves):
        it = leaves[i]
        idx = colour_index(it['rgb']) if isinstance(it.get('rgb'), tuple) and len(it['rgb']) == 3 else None
        return pairs, ('extra', None, (it['kind'], idx), i)
    return pairs, None


def css_containing_chain_has(boxes, n, a):
    """Is box a on the containing-block chain of n (CSS 2.1 10.1)?  a is a tree ancestor of n."""
    cur = n
    while cur is not None and cur != a:
        pos = boxes[cur]['position']
        p = boxes[cur]['parent']
        if pos == 'fixed':
            return False                       # containing block: the page area
        if pos == 'absolute':
            # nearest positioned ancestor; if it is above a (or absent), a is skipped
            q = p
            while q is not None and boxes[q]['position'] == 'static' and not boxes[q]['transform']:
                if q == a:
                    # a itself is not positioned: the chain jumps over it unless a is the box found
                    pass
                q = boxes[q]['parent']
            # q is the containing block's box (or None = initial containing block)
            if q is None:
                return False
            # is q at or below a?
            t = q
            below = False
            while t is not None:
                if t == a:
                    below = True
                    break
                t = boxes[t]['parent']
            if not below:
                return False
            cur = q
            continue
        cur = p
    return cur == a


def judge_geometry(boxes, pairs, geo, doc, fonts_cache, rcases=None):
    """Monitor B on the matched (token, items) pairs.  Returns [(clause, box, detail)].  rcases collects the rounded
    shapes read from the stream (box, which, observed) for the Coq radius judge."""
    bad = []
    if rcases is None:
        rcases = []
    seen_r = set()
    def skey(shape):
        return tuple(round(v, 4) for v in shape[:4]) + tuple(round(v, 4) for v in shape[4])
    def note(n, which, shape):
        key = (n, which, skey(shape))
        if key not in seen_r:
            seen_r.add(key)
            rcases.append(dict(radius_case(boxes[n], which, shape, geo.box_rect(n, 'border-box')), box=n))
    def note_any(n, which, shapes):
        """The clause is existential: ONE clip of the item is the rounded `which` of box n.  Other clips on the same
        rectangle belong to other boxes (the item's own painting area, an ancestor or descendant whose box coincides):
        all candidates go to the Coq judge (field alts), the case holds when one of them does."""
        uniq = []
        for sh in shapes:
            if skey(sh) not in [skey(u) for u in uniq]:
                uniq.append(sh)
        if len(uniq) == 1:
            return note(n, which, uniq[0])
        key = (n, which, tuple(sorted(skey(u) for u in uniq)))
        if key not in seen_r:
            seen_r.add(key)
            rect = geo.box_rect(n, 'border-box')
            rc = dict(radius_case(boxes[n], which, uniq[0], rect), box=n)
            rc['alts'] = [radius_case(boxes[n], which, u, rect)['obs'] for u in uniq[1:]]
            rcases.append(rc)
    for (n, role, col), items in pairs:
        r = boxes[n]
        if role == 'collapsed' or not items:
            continue
        if geo.map_point(n, (0, 0)) is None:
            continue
        # opacity of the whole subtree
        want_alpha = geo.opacity(n)
        for it in items:
            got = it['alpha'] * it['galpha']
            if abs(got - want_alpha) > 1e-4:
                bad.append(('opacity', n, 'effective alpha %.4f, product of opacities %.4f' % (got, want_alpha)))
                break
        # overflow clips of ancestors
        for a in geo.ancestors(n):
            ra = boxes[a]
            if ra['overflow'] == 'visible' or ra['cls'] == 'PageBox':
                continue
            want = geo.rect_poly(a, geo.box_rect(a, 'padding-box'))
            if any(v is None for v in want):
                continue
            if has_radii(ra):
                # rounded clip: identify it by its rectangle, hand the corner extents to the radius judge
                rect = geo.box_rect(a, 'padding-box')
                has = True
                for it in items:
                    found = [sh for sh in (shape_of(cl[2][0], geo) for cl in it['clips'] if len(cl[2]) == 1)
                             if same_rect(sh, rect)]
                    if not found:
                        has = False
                    else:
                        note_any(a, 'padding-box', found)
            else:
                has = all(any(len(cl[0]) == 1 and same_poly([geo.to_css(p) for p in cl[0][0]], want) for cl in it['clips'])
                          for it in items)
            on_chain = css_containing_chain_has(boxes, n, a)
            if on_chain and not has:
                bad.append(('overflow-clip-missing', n, 'ancestor %d clips its contents, no such clip on the item' % a))
            if not on_chain and has:
                bad.append(('overflow-clips-escaping-abspos', n,
                            'ancestor %d is not on the containing block chain but its clip is applied' % a))
        if role == 'bg':
            it = items[0]
            if r['cls'] in ('TableRowBox', 'TableRowGroupBox', 'PageBox') or r.get('is_canvas'):
                continue
            which = r['bgclip'][-1] if r['bgclip'] else 'border-box'
            want = geo.rect_poly(n, geo.box_rect(n, which))
            got = [[geo.to_css(p) for p in sp] for sp in it['path']]
            if len(got) != 1 or not same_poly(got[0], want):
                bad.append(('background-rect', n, 'fill %s, %s prescribes %s' % (
                    [[(round(x, 3), round(y, 3)) for x, y in sp] for sp in got][:2], which,
                    [(round(x, 3), round(y, 3)) for x, y in want])))
            if not has_radii(r):
                # zero radii: the clip of the painting box is the same rectangle
                if not any(len(cl[0]) == 1 and same_poly([geo.to_css(p) for p in cl[0][0]], want) for cl in it['clips']):
                    bad.append(('background-clip-box', n, 'no clip equal to the %s' % which))
            else:
                found = [sh for sh in (shape_of(cl[2][0], geo) for cl in it['clips'] if len(cl[2]) == 1)
                         if same_rect(sh, geo.box_rect(n, which))]
                if not found:
                    bad.append(('background-clip-box', n, 'no rounded clip on the %s' % which))
                if found:
                    note_any(n, which, found)
        elif role == 'border':
            outer = geo.rect_poly(n, geo.box_rect(n, 'border-box'))
            inner = geo.rect_poly(n, geo.box_rect(n, 'padding-box'))
            sides = [s for s in 'trbl' if (r['b' + s] or 0) > 0 and r['bs' + s] not in ('none', 'hidden')
                     and r['bc' + s] and r['bc' + s][3] > 0]
            uniform = all((r['b' + s] or 0) > 0 for s in 'trbl') and len(sides) == 4
            want_items = 1 if uniform else len(sides)
            if len(items) != want_items:
                bad.append(('border-fills', n, '%d fills for sides %s' % (len(items), ''.join(sides))))
            for it in items:
                if has_radii(r):
                    shapes = [shape_of(sg, geo) for sg in it['segs']]
                    rin, rout = geo.box_rect(n, 'padding-box'), geo.box_rect(n, 'border-box')
                    if not (len(shapes) == 2 and it['evenodd'] and same_rect(shapes[0], rin) and same_rect(shapes[1], rout)):
                        bad.append(('border-area', n, 'fill is not rounded border box minus rounded padding box: %s' % (shapes,)))
                        break
                    note(n, 'padding-box', shapes[0])
                    note(n, 'border-box', shapes[1])
                    continue
                got = [[geo.to_css(p) for p in sp] for sp in it['path']]
                if not (len(got) == 2 and it['evenodd'] and
                        ((same_poly(got[0], inner) and same_poly(got[1], outer)) or
                         (same_poly(got[1], inner) and same_poly(got[0], outer)))):
                    bad.append(('border-area', n, 'fill is not border box minus padding box: %s' % (
                        [[(round(x, 3), round(y, 3)) for x, y in sp] for sp in got][:3],)))
                    break
            bx, by, bw, bh = geo.box_rect(n, 'border-box')
            if not uniform and len(items) == len(sides) and bw > 4 * TOL and bh > 4 * TOL:
                # one fill per side, each clipped to its side: the middle of the side's strip is inside the
                # innermost clip, the middle of the opposite strip is not
                # a point of each side's strip close to the outer edge (inside the mitred trapezoid whatever the
                # neighbouring widths are)
                mid = {'t': (bx + bw / 2, by + r['bt'] / 4), 'b': (bx + bw / 2, by + bh - r['bb'] / 4),
                       'l': (bx + r['bl'] / 4, by + bh / 2), 'r': (bx + bw - r['br'] / 4, by + bh / 2)}
                opp = {'t': 'b', 'b': 't', 'l': 'r', 'r': 'l'}
                order = [s for s in 'blrt' if s in sides]       # draw_border paints bottom, left, right, top
                for s, it in zip(order, items):
                    if not it['clips']:
                        bad.append(('border-side-clip', n, 'side %s has no clip' % s))
                        continue
                    polys, eo = it['clips'][-1][:2]
                    polys = [[geo.to_css(p) for p in sp] for sp in polys]
                    pm = geo.map_point(n, mid[s])
                    po = geo.map_point(n, (mid[opp[s]][0], mid[opp[s]][1]))
                    inside = point_in_poly(pm, polys, eo)
                    far_w = (r['b' + opp[s]] or 0) > 0
                    if not inside or (far_w and point_in_poly(po, polys, eo)):
                        bad.append(('border-side-clip', n, 'side %s clip %s' % (s, 'misses its strip' if not inside
                                                                                else 'covers the opposite strip')))
        elif role == 'text':
            it = items[0]
            tmc = it['tm']
            o = geo.to_css((tmc[4], tmc[5]))
            want = geo.map_point(n, (r['x'], r['y'] + r['baseline']))
            if not it['origin_known']:
                bad.append(('text-origin', n, 'text shown without its own text matrix'))
            elif abs(o[0] - want[0]) > TOL or abs(o[1] - want[1]) > TOL:
                bad.append(('text-origin', n, 'shown at (%.3f, %.3f), baseline origin (%.3f, %.3f)' % (o + want)))
            # unit vectors of text space
            ux = geo.to_css((tmc[0] + tmc[4], tmc[1] + tmc[5]))
            uy = geo.to_css((tmc[2] + tmc[4], tmc[3] + tmc[5]))
            wx = geo.map_point(n, (r['x'] + 1, r['y'] + r['baseline']))
            wy = geo.map_point(n, (r['x'], r['y'] + r['baseline'] - 1))      # text space y points up
            if max(abs(ux[0] - wx[0]), abs(ux[1] - wx[1]), abs(uy[0] - wy[0]), abs(uy[1] - wy[1])) > TOL:
                bad.append(('text-matrix', n, 'unit vectors (%s, %s), expected (%s, %s)' % (ux, uy, wx, wy)))
            if abs(it['size'] - r['font_size']) > 1e-6:
                bad.append(('font-size', n, 'Tf %s, computed %s' % (it['size'], r['font_size'])))
            if it['fontref'] not in fonts_cache:
                fonts_cache[it['fontref']] = parse_tounicode(doc, it['fontref']) if it['fontref'] is not None else None
            table = fonts_cache[it['fontref']]
            if table is None:
                bad.append(('tounicode', n, 'font %s has no ToUnicode CMap' % it['font']))
            else:
                s = ''.join(table.get(g, '�') for g in it['glyphs'])
                if s.rstrip(' ') != r['text'].rstrip(' '):
                    bad.append(('glyphs-to-text', n, 'glyphs map to %r, text is %r' % (s, r['text'])))
    return bad


def prepare_tokens(page_rec, order, quirks=()):
    """canvas/page background first (draw_page), then the tokens of the order"""
    boxes = page_rec['boxes']
    # background propagation (CSS 2.1 14.2): root element, else its body child
    root = boxes[0]['kids'][0] if boxes[0]['kids'] else None
    canvas = None
    for r in boxes:
        r.pop('bg_to_canvas', None)
    if root is not None:
        cand = root
        if boxes[root]['tag'] == 'html' and not (boxes[root]['bgcolor'] and boxes[root]['bgcolor'][3] > 0 and
                                                  boxes[root]['visible']):
            for k in boxes[root]['kids']:
                if boxes[k]['tag'] == 'body':
                    cand = k
                    break
        rc = boxes[cand]
        if rc['bgcolor'] and rc['bgcolor'][3] > 0 and rc['visible']:
            canvas = cand
            rc['bg_to_canvas'] = True
    toks = []
    pg = boxes[0]
    if pg['bgcolor'] and pg['bgcolor'][3] > 0:
        toks.append((0, 'bg', colour_index(pg['bgcolor'])))
    if canvas is not None:
        boxes[canvas]['is_canvas'] = True
        toks.append((canvas, 'bg', colour_index(boxes[canvas]['bgcolor'])))
    toks_rest = visible_tokens(boxes, order, canvas, quirks)
    return toks, toks_rest, canvas


QUIRKS = ('table-part-context-background-lost',)


def ink_rows(boxes):
    """per box [background, border as draw_border paints it, text, border as CSS prescribes] colour numbers (-1: no
    ink) - the tables of the Coq display judge"""
    rows = []
    for n, r in enumerate(boxes):
        vis = r['visible']
        bg = colour_index(r['bgcolor']) if (vis and r['bgcolor'] and r['bgcolor'][3] > 0 and not r.get('bg_to_canvas')
                                            and r['cls'] != 'PageBox') else None
        tx = colour_index(r['color']) if (vis and r['cls'] == 'TextBox' and r.get('text', '').strip()) else None
        drawn = [s_ for s_ in 'trbl' if (r['b' + s_] or 0) > 0 and r['bc' + s_] and r['bc' + s_][3] > 0]
        styled = [s_ for s_ in drawn if r['bs' + s_] not in ('none', 'hidden')]
        collapsed_table = r['cls'] in ('TableBox', 'InlineTableBox') and r.get('collapse')
        cell_in_collapsed = r['cls'] == 'TableCellBox' and in_collapsed_table(boxes, n)
        uniform = len(drawn) == 4 and all(r['bs' + s_] == r['bst'] for s_ in 'trbl') and r['bst'] in ('solid', 'double') \
            and len(set(tuple(r['bc' + s_]) for s_ in 'trbl')) == 1
        def seq(sides):
            if not vis or collapsed_table or not sides:
                return []
            if uniform:
                return [colour_index(r['bct'])]
            return [colour_index(r['bc' + s_]) for s_ in 'blrt' if s_ in sides]      # draw_border: bottom left right top
        bm = [] if cell_in_collapsed else seq(drawn)
        bs = [] if cell_in_collapsed else seq(styled)
        rows.append([-1 if bg is None else bg, [(-7 if v is None else v) for v in bm], -1 if tx is None else tx,
                     [(-7 if v is None else v) for v in bs]])
    return rows


def describe(boxes, n):
    r = boxes[n]
    return '%s#%s(box %d)' % (r['cls'], r.get('eid'), n)


def judge_doc(case):
    """Runs in a worker: render (impl_c17.render_display), decode the PDF, judge order and geometry.
    Returns dict(pages=[dict(bad=[(clause, box, detail)], tokens, items, ...)], problems=[...])."""
    import impl_c17
    r = impl_c17.render_display(case)
    dls, doc = display_lists(r['pdf'].encode('latin-1'))
    res = dict(pages=[], problems=[])
    if len(dls) != len(r['pages']):
        res['problems'].append('page count: %d in the PDF, %d laid out' % (len(dls), len(r['pages'])))
        return res
    fonts_cache = {}
    for pg, dl in zip(r['pages'], dls):
        boxes = pg['boxes']
        bad = []
        for p in dl['problems']:
            bad.append(('pdf-structure', 0, p))
        order = Ref(boxes).page()
        head, rest, canvas = prepare_tokens(pg, order)
        tokens = head + rest
        leaves = flatten_items(dl['items'])
        pairs, err = match_tokens(tokens, leaves)
        if err:
            kind, tok, got, at = err
            ctx_toks = [(describe(boxes, t[0]), t[1]) for t, _ in pairs[-3:]]
            detail = '%s at item %d: expected %s, display list has %s; after %s' % (
                kind, at, (describe(boxes, tok[0]), tok[1], tok[2]) if tok else None, got, ctx_toks)
            # classification: which known deviations of WeasyPrint, switched on in the reference, explain it?
            explained = None
            import itertools
            for k in range(1, len(QUIRKS) + 1):
                for qs in itertools.combinations(QUIRKS, k):
                    o2 = Ref(boxes, quirks=qs).page()
                    h2, r2, _ = prepare_tokens(pg, o2, qs)
                    p2, e2 = match_tokens(h2 + r2, leaves)
                    if e2 is None:
                        explained = qs
                        pairs = p2            # geometry is judged on the explained matching
                        break
                if explained:
                    break
            bad.append(('paint-order' if not explained else 'paint-order:' + '+'.join(explained),
                        tok[0] if tok else 0, detail))
        geo = PageGeometry(boxes, dl['mediabox'])
        rcases = []
        bad.extend(judge_geometry(boxes, pairs, geo, doc, fonts_cache, rcases))
        observed = []
        for it in leaves:
            idx = colour_index(it['rgb']) if isinstance(it.get('rgb'), tuple) and len(it['rgb']) == 3 else None
            observed.append([it['kind'], idx])
        res['pages'].append(dict(
            bad=[(c, n, d, describe(boxes, n)) for c, n, d in bad], ntokens=len(tokens), nitems=len(leaves),
            nodes=[[{k: b[k] for k in ('kind', 'pos', 'flt', 'z', 'opa', 'trf', 'tm', 'ovf', 'clp', 'git', 'col', 'fit',
                                       'hid', 'rcl', 'bits', 'cls')}, b['kids']] for b in boxes],
            out=pg['out'], identity=pg['identity'], observed=observed,
            paints=[[n, role, col if not isinstance(col, tuple) else list(col)] for n, role, col in tokens],
            inkrows=ink_rows(boxes), rcases=rcases,
            boxdesc={str(rc['box']): describe(boxes, rc['box']) for rc in rcases},
            head=len(head)))
    return res


# =====================================================================================================
#  check / replay
# =====================================================================================================

WITNESSES = {
    # the witnesses of the refuted theorems of props/C17.v, as documents (replayed on the implementation)
    'table-part-context-background-lost':
        '<table id="e2" style="background:#700"><tr id="e3" style="opacity:.5;background:#a00">'
        '<td id="e4" style="background:#d00;color:#e00">ab</td></tr></table>',
}
# former findings, fixed in /repo: judged like any other document (any deviation is a plain violation)
FIXED_DOCS = {
    'z-index-on-non-positioned':      # F105, fixed by 673f68d
        '<div id="e2" style="height:10px;background:#700"></div>'
        '<div id="e3" style="height:10px;background:#a00;opacity:.9;z-index:-1;margin-top:-5px"></div>'
        '<div id="e4" style="height:10px;background:#d00;margin-top:-5px"></div>'
        '<div id="e5" style="height:10px;background:#010;overflow:hidden;z-index:3"></div>'
        '<div id="e6" style="height:10px;background:#310;position:relative;z-index:1;margin-top:-5px"></div>',
    'collapsed-cell-context':         # F106, fixed by 5ad683d
        '<table id="e2" style="border-collapse:collapse;border:4px solid #900"><tr id="e3">'
        '<td id="e4" style="color:#e00;position:relative;background:#d00">ab</td>'
        '<td id="e5" style="color:#110;opacity:.5;border:2px solid #210;background:#010">cd</td></tr></table>',
    'radius-overlap':                 # F162, fixed by fe0eeda
        '<div id="e2" style="width:60px;height:100px;border-style:solid;border-color:#900;border-width:0 0 0 40px;'
        'border-radius:80px;background:#700;background-clip:padding-box"></div>'
        '<div id="e3" style="width:50px;height:30px;border-style:solid;border-color:#c00;border-width:3px 10px 5px 20px;'
        'border-radius:9999px;background:#a00;overflow:hidden;color:#b00"><div id="e4" style="background:#d00;'
        'height:30px;color:#e00">ab</div></div>',
    'side-clip-large-radius':         # F220, fixed by 798b0ad (corner as tall / as wide as the border box)
        '<div id="e2" style="width:50px;height:15px;border-style:solid;border-color:#900;border-width:5px 0 8px 1px;'
        'border-top-right-radius:28px 33px;background:#700"></div>'
        '<div id="e3" style="margin-top:4px;width:50px;height:15px;border-style:solid;border-color:#c00;'
        'border-width:2px 6px 0 8px;border-top-left-radius:64px 8.5px;background:#a00;background-clip:padding-box">'
        '</div>',
    'grid-context':          # F104, fixed by 22caa46
        '<div id="e2" style="display:grid;background:#700;border:2px solid #900;opacity:.5">'
        '<div id="e3" style="background:#a00;color:#b00">ab</div></div>'
        '<div id="e4" style="color:#e00">cd <span id="e5" style="display:inline-grid;background:#010;border:1px solid #210">'
        '<div id="e6" style="background:#310;color:#410">ef</div></span></div>'
        '<div id="e7" style="display:grid;background:#610;position:relative;color:#710">gh</div>',
    'hidden-collapsed-table':   # F107, fixed by d858293
        '<table id="e2" style="visibility:hidden;border-collapse:collapse;border:4px solid #900;background:#700">'
        '<tr id="e3"><td id="e4" style="border:2px solid #f00;color:#e00">ab</td></tr></table>'
        '<table id="e5" style="visibility:hidden;border-collapse:collapse;border:3px solid #210;background:#010">'
        '<tr id="e6"><td id="e7" style="visibility:visible;border:2px solid #810;background:#610;color:#710">cd</td></tr></table>',
}
WITNESS_CSS = ('<style>@page{size:100px;margin:0}html{background:none}body{margin:0;font-family:weasyprint;'
               'font-size:10px;line-height:10px;color:#500}table{border-spacing:0}td{padding:0}</style>')


RADIUS_WITNESS = dict(cw='60', ch='100', bw=['0', '0', '0', '40'], pd=['0', '0', '0', '0'], radii=['80'] * 8, px='0', py='0',
                      ml='0', mt='0', mode=2, args=['0', '0', '0', '0'], regime=1)
RADIUS_DOC = ('<html id="e0"><style>@page{size:100px;margin:0}html{background:none}body{margin:0;font-family:weasyprint;'
              'font-size:10px;line-height:10px;color:#500}</style><body id="e1">'
              '<div id="e2" style="width:50px;height:50px;border-style:solid;border-color:#900;border-width:4px 6px 2px 12px;'
              'border-radius:14px 18px 22px 20px / 10px 16px 12px 20px;padding:1px 2px 3px 5px;background:#700;'
              'background-clip:padding-box;overflow:hidden;color:#800">'
              '<div id="e3" style="width:50px;height:50px;background:#a00;color:#b00">ab</div></div>'
              '<div id="e4" style="width:40px;height:30px;border-style:solid;border-color:#f00;border-width:3px 9px 7px 1px;'
              'border-radius:12px;background:#d00;background-clip:content-box;padding:2px 4px 6px 8px;color:#e00">cd</div>'
              '</body></html>')


def page_box_term(nodes):
    return box_term(nodes, 0)


def ink_tables(pg):
    """(model table, spec table) as Coq terms: box id -> (bg, border, text) colour numbers, -1 = no ink."""
    tm, ts = [], []
    for n, row in enumerate(pg['inkrows']):
        tm.append('(%d, (%d, [%s], %d))' % (n, row[0], '; '.join(map(str, row[1])), row[2]))
        ts.append('(%d, (%d, [%s], %d))' % (n, row[0], '; '.join(map(str, row[3])), row[2]))
    return '[%s]' % '; '.join(tm), '[%s]' % '; '.join(ts)


def parse_pairs_lists(out):
    """'= [[(1, 4%nat); ...]; [...]] : list (list (Z * nat))' -> [[(1, 4), ...], ...]"""
    import re
    m = re.search(r'=\s*(\[.*\])\s*:\s*list', out, re.S)
    if not m:
        return None
    txt = re.sub(r'\s+', '', m.group(1))
    inner = txt[1:-1]
    res = []
    for part in re.findall(r'\[(.*?)\]', inner):
        res.append([(int(a), int(b)) for a, b in re.findall(r'\((-?\d+),(\d+)%nat\)', part)])
    return res


def coq_why(tag, cases, fn):
    """Evaluate fn (returning list (Z * nat)) on a few cases inside Coq, for diagnostics / classification."""
    d = os.path.join(common.WORK, tag)
    os.makedirs(d, exist_ok=True)
    path = os.path.join(d, 'Why.v')
    with open(path, 'w') as f:
        f.write(PRE + 'Definition cs := [\n%s].\nEval vm_compute in map (%s) cs.\n' % (';\n'.join(cases), fn))
    rc, out = common.sh('coqc -Q %s WV %s' % (common.COQ, path), cwd=d, timeout=300)
    import shutil
    shutil.rmtree(d, ignore_errors=True)
    if rc != 0:
        return None
    return parse_pairs_lists(out)


def expected_lost(nodes):
    """boxes whose background the known table-part / grid defects lose: out-of-flow rows, row groups and the
    in-flow cells (rows) below them; grid containers painted as contexts."""
    def ctxish(i):
        return (i['pos'] != 'static' or i['flt'] or i['opa'] or i['trf'] or i['ovf'] or
                ((i['pos'] != 'static' or i['git']) and i['z'] is not None))
    lost_rows, lost_grid = set(), set()
    def walk(n, under):
        info, kids = nodes[n]
        here = under
        if info['kind'] in ('KRow', 'KRowGroup') and ctxish(info):
            lost_rows.add(n)
            here = True
        elif under and info['kind'] in ('KRow', 'KCell') and not ctxish(info):
            lost_rows.add(n)
        elif info['kind'] not in ('KRow', 'KRowGroup', 'KCell'):
            here = False
        if info['kind'] in ('KGrid', 'KInlineGrid') and (ctxish(info) or info['kind'] == 'KInlineGrid'):
            lost_grid.add(n)
        for k in kids:
            walk(k, here if info['kind'] in ('KRow', 'KRowGroup') else False)
    walk(0, False)
    return lost_rows, lost_grid


def fail_signed(run, what, data, clause):
    """clause -> run.fail with the registered signature(s); unknown clauses are plain violations."""
    if clause.startswith('paint-order:'):
        for q in clause.split(':', 1)[1].split('+'):
            run.fail('%s [%s]' % (what, q), data, signature='c17:' + q)
    elif clause == 'overflow-clips-escaping-abspos':
        run.fail(what, data, signature='c17:overflow-clips-escaping-abspos')
    else:
        run.fail(what, data, signature=None)


def check(run):
    rng = random.Random(run.seed * 7919 + 17)
    thorough = run.tier == 'thorough'
    common.prove(run, 'C17', ['model/C17Judge.vo', 'proofs/C17_examples.vo'])
    run.trusted += ['Coq 8.16.1 kernel (coqc); vm_compute for the cases.v evaluation',
                    'harness/pdfread.py (PDF reader) + the content-stream interpreter, reference painter and geometry '
                    'judge of harness/p_c17.py (Python)',
                    'the abstraction box -> info of harness/impl_c17.py (class tables cross-checked inside Coq)',
                    'CPython list.sort is stable (modelled by a stable insertion sort)',
                    'tools/py2coq.py (printer of StackingContext.__init__ and _dispatch into gen/GenStacking.v) and '
                    'the interpreter base/Py.v: x.f.append(e) / x.f.sort(key=lambda c: c.a) on a list the function '
                    'created itself are printed as rebinding the attribute (fresh_list_attr), list.sort with that key '
                    'is the primitive PSortedByAttr (stable insertion sort on a numeric attribute); in _dispatch '
                    'isinstance / box.is_floated() are answered by the class tables / flt of the model (GD.doracle) '
                    'and the statements that call from_box / _dispatch_children / list.insert are not translated '
                    '(printed as "%unsupported" with their text)']
    run.assumptions += [
        'overflow != visible is taken as forming a stacking context (WeasyPrint model; CSS 2.1 does not say so)',
        'draw_background / draw_border / draw_text internals, column backgrounds of tables, marked content and '
        'mask borders are not modelled in Coq: monitored on the display list (geometry judge in Python)',
        'border-radius geometry, dashed/dotted segmenting and replaced content: not generated',
        'painted-exactly-once at the level of paint events is proved structurally (partition + alias lists) and '
        'judged inside Coq on every real tree; it is not proved for the paint list of arbitrary trees']

    # ---------------------------------------------------------------- stream 1: from_box on synthetic trees
    n_synth = 2500 if thorough else 400
    trees = [gen_synth(rng, rng.choice([6, 12, 25, 40])) for _ in range(n_synth)]
    outs = common.run_impl('impl_c17', 'stacking_synth', [{'tree': t} for t in trees])
    kinds = {c: k for c, k, _ in SYNTH_CLASSES}
    cases, kept = [], []
    for t, (st, o) in zip(trees, outs):
        if st != 'ok':
            run.fail('StackingContext.from_box raised on a synthetic tree', {'stream': 'frombox-synth', 'tree': t, 'outcome': o},
                     signature=None)
            continue
        nodes = synth_nodes(t)
        cases.append('(%s, %s, %s)' % (box_term(nodes), pnode_term(nodes, o['out']),
                                        bits_term([(kinds[c], b) for c, b in o['bits'].items()])))
        kept.append((t, o, nodes))
    try:
        masks = common.eval_cases('c17synth_%d' % os.getpid(), PRE, 'box * pnode * list (kind * Z)', cases, 'frombox_judge', per_file=60)
        mism = [k for k, m in zip(kept, masks) if m & 1]
        ident = [k for k in kept if not k[1]['identity']]
        run.oblige('corr:frombox-synth(model from_box = StackingContext.from_box, class tables)', not mism and not ident,
                   'first disagreement: %s' % (json.dumps(mism[0][0])[:1500] if mism else ident[:1]))
        for (t, o, nodes), m in zip(kept, masks):
            if m & 2:
                run.fail('paint list of the real context differs from Appendix E on a well-formed synthetic tree',
                         {'stream': 'frombox-synth', 'tree': t})
                break
        def shape(o):
            def depth(c):
                subs = c[3] + c[4] + c[5] + c[7]
                return 1 + max([depth(x) for x in subs] or [0])
            c = o['out']
            return (min(len(c[3]), 3), min(len(c[4]), 3), min(len(c[5]), 3), min(len(c[6]), 4), min(len(c[7]), 3),
                    min(len(c[8]), 4), min(depth(c), 5))
        run.count('frombox-synth', len(kept), [shape(o) for _, o, _ in kept],
                  samples=[{'tree': kept[0][0], 'out': kept[0][1]['out']}] if kept else [])
        run.stream_info('frombox-synth', wellformed=sum(1 for m in masks if not m & 4),
                        rule='random trees (<= 40 boxes, depth <= 6) of 19 real box classes built without layout, any '
                             'class under any class, position/z-index/opacity/transform/overflow/float/grid-item at '
                             'random, AbsolutePlaceholder wrappers; distinct = (|neg|,|zero|,|pos|,|blocks|,|floats|,'
                             '|blocks_and_cells|, nesting depth) of the root context')
    except RuntimeError as exc:
        run.oblige('corr:frombox-synth', False, str(exc))

    # ------------------------------------------- stream R1: Box.rounded_box and its callers, exact direct calls
    n_rad = 3000 if thorough else 420
    rcs = [RADIUS_WITNESS] + [gen_radius_case(rng, k) for k in range(n_rad)]
    outs = common.run_impl('impl_c17', 'rounded_direct', rcs)
    terms, kept = [], []
    for c, (st, o) in zip(rcs, outs):
        if st != 'ok':
            run.fail('Box.rounded_box raised', {'stream': 'radius-direct', 'case': c, 'outcome': o},
                     signature='crash:rounded_box:%s' % (o.get('type') if isinstance(o, dict) else st))
            continue
        terms.append(radius_case_term(c, o))
        kept.append((c, o))
    try:
        masks = common.eval_cases('c17rad_%d' % os.getpid(), PRE_R, RCASE_T, terms, 'radius_call_judge')
        mism = [k for k, m in zip(kept, masks) if m & 1]
        run.oblige('corr:radius-direct(model rounded_box = Box.rounded_box, exact)', not mism,
                   'first disagreement: %s' % (mism[:1],))
        for (c, o), m in zip(kept, masks):
            if m & 2:
                run.fail('rounded_box: inner radii are not the used outer radii minus the adjacent side widths: case %s -> %s' % (c, o),
                         {'stream': 'radius-direct', 'case': c, 'impl_output': o})
                break
        run.oblige('former witness of F162: rounded_box follows the CSS rule on overlapping radii',
                   bool(kept) and kept[0][0] is RADIUS_WITNESS and masks[0] & 3 == 0,
                   'the repaired behaviour (fe0eeda) is gone: %s' % (kept[:1],))
        run.count('radius-direct', len(kept),
                  [(c['regime'], c['mode'], m & 6, len(set(c['bw']))) for (c, o), m in zip(kept, masks)],
                  samples=[{'case': kept[1][0], 'impl': kept[1][1]}] if len(kept) > 1 else [])
        run.stream_info('radius-direct', overlap_cases=sum(1 for m in masks if m & 4),
                        rule='stub BlockBox with Fraction fields: content size, four different border widths, paddings, eight '
                             'radii in six regimes (small, overlapping, around the border widths, exactly touching, square '
                             'corners, 0/huge), calls of rounded_box(args) / rounded_border_box / rounded_padding_box / '
                             'rounded_content_box / rounded_box_ratio(k); exact comparison with the model and with the CSS rule '
                             'inside Coq; distinct = (regime, entry point, deviation bits, number of distinct widths)')
    except RuntimeError as exc:
        run.oblige('corr:radius-direct', False, str(exc))

    # ------------------------------------------------- streams 2-4: documents -> from_page tie, monitors A and B
    n_docs = 1500 if thorough else 140
    docs = []
    for k in range(n_docs):
        prof = 'strict' if k % 4 == 0 else 'full'
        html, feats, n_el = gen_doc(rng, prof)
        docs.append(dict(html=html, features=feats, profile=prof))
    n_rdocs = 400 if thorough else 50
    docs.append(dict(html=RADIUS_DOC, features=['fixed:radius-asymmetric'], profile='radius'))
    for k in range(n_rdocs):
        html, feats = gen_radius_doc(rng)
        docs.append(dict(html=html, features=feats, profile='radius'))
    for name, body in sorted(FIXED_DOCS.items()):
        docs.append(dict(html='<html id="e0">%s<body id="e1">%s</body></html>' % (WITNESS_CSS, body),
                         features=['fixed:' + name], profile='fixed'))
    for name, body in sorted(WITNESSES.items()):
        docs.append(dict(html='<html id="e0">%s<body id="e1">%s</body></html>' % (WITNESS_CSS, body), features=['witness:' + name],
                         profile='witness', witness=name))
    outs = common.run_impl('p_c17', 'judge_doc', [{'html': d['html']} for d in docs], limit=120, chunksize=2)
    page_cases, disp_cases, meta = [], [], []
    rad_cases, rad_meta = [], []
    clauses = {}
    feats_seen = set()
    n_items = n_tokens = n_pages = 0
    witness_hits = {}
    for d, (st, o) in zip(docs, outs):
        if st == 'timeout':
            run.fail('render timeout', {'stream': 'display', 'html': d['html']}, signature='timeout')
            continue
        if st == 'exc':
            run.fail('render / judge raised %s at %s' % (o['type'], o['site']), {'stream': 'display', 'html': d['html'], 'exc': o},
                     signature='crash:%s' % (o['site'],))
            continue
        for p in o['problems']:
            run.fail('display list: %s' % p, {'stream': 'display', 'html': d['html']})
        feats_seen.update(d['features'])
        for pi, pg in enumerate(o['pages']):
            n_pages += 1
            n_items += pg['nitems']
            n_tokens += pg['ntokens']
            seen_clause = set()
            for clause, n, detail, desc in pg['bad']:
                clauses[clause] = clauses.get(clause, 0) + 1
                if d.get('witness') and clause == 'paint-order:' + d['witness']:
                    witness_hits[d['witness']] = True
                if clause in seen_clause:
                    continue
                seen_clause.add(clause)
                fail_signed(run, '%s: %s %s' % (clause, desc, detail),
                            {'stream': 'display', 'html': d['html'], 'page': pi, 'clause': clause, 'box': n, 'detail': detail},
                            clause)
            for rc in pg['rcases']:
                rad_cases.append(rc)
                rad_meta.append((d, pi, rc, pg['boxdesc'].get(str(rc['box']), '')))
            nodes = pg['nodes']
            if not pg['identity']:
                run.oblige('corr:frompage-identity', False, d['html'][:2000])
            bits = bits_term([(i['kind'], i['bits']) for i, _ in nodes])
            page_cases.append('(%s, %s, %s)' % (box_term(nodes), pnode_term(nodes, pg['out']), bits))
            tm, ts = ink_tables(pg)
            observed = [idx for kind, idx in pg['observed'][pg['head']:] if kind in ('fill', 'text')]
            disp_cases.append('(%s, %s, %s, [%s])' % (box_term(nodes), tm, ts,
                                                       '; '.join(str(-7 if v is None else v) for v in observed)))
            meta.append((d, pi, pg))
    for name in WITNESSES:
        run.oblige('witness:%s reproduces on the implementation' % name, witness_hits.get(name, False),
                   'the refuted theorem of props/C17.v no longer shows on /repo (fixed?) - update model and spec')
    try:
        masks = common.eval_cases('c17page_%d' % os.getpid(), PRE, 'box * pnode * list (kind * Z)', page_cases, 'frompage_judge2', per_file=12)
        mism = [m_ for m_, k in zip(meta, masks) if k & 1]
        run.oblige('corr:frompage-render(model from_page = StackingContext.from_page on rendered trees)', not mism,
                   'first disagreement: %s' % (mism[0][0]['html'][:2500] if mism else ''))
        for (d, pi, pg), k in zip(meta, masks):
            if k & 2:
                run.fail('paint list of the real contexts differs from Appendix E on a well-formed rendered tree',
                         {'stream': 'frompage-render', 'html': d['html'], 'page': pi})
                break
        once_bad = [(m_, c) for m_, c, k in zip(meta, page_cases, masks) if k & 8]
        if once_bad:
            why = coq_why('c17once_%d' % os.getpid(), [c for _, c in once_bad], 'once_why_page')
            for ((d, pi, pg), _), codes in zip(once_bad, why or [None] * len(once_bad)):
                lost_rows, lost_grid = expected_lost(pg['nodes'])
                if codes is None:
                    run.oblige('diag:once_why', False, 'cannot evaluate once_why_page')
                    break
                rest = [(b, c) for b, c in codes if not (c == 4 and b in lost_rows)]
                if rest:
                    run.fail('a box is not painted exactly once (box, code): %s' % rest[:5],
                             {'stream': 'frompage-render', 'html': d['html'], 'page': pi, 'codes': rest[:20]})
                else:
                    if any(b in lost_rows for b, c in codes):
                        run.fail('table part painted as a context: backgrounds never painted (boxes %s)' % [b for b, _ in codes][:8],
                                 {'stream': 'frompage-render', 'html': d['html'], 'page': pi},
                                 signature='c17:table-part-context-background-lost')
        run.count('frompage-render', len(page_cases),
                  [(len(pg['nodes']) // 20, tuple(sorted(set(i['kind'] for i, _ in pg['nodes'])))) for _, _, pg in meta],
                  samples=[meta[0][0]['html'][:800]] if meta else [])
        run.stream_info('frompage-render', boxes=sum(len(pg['nodes']) for _, _, pg in meta),
                        wellformed_pages=sum(1 for k in masks if not k & 4),
                        rule='StackingContext.from_page on every page of the rendered documents below; whole structure '
                             '(children, three z buckets, blocks, floats, blocks_and_cells, z) compared with the model; '
                             'on well-formed pages the paint list of the real structure must equal Appendix E; every '
                             'box painted exactly once (judged in Coq)')
    except RuntimeError as exc:
        run.oblige('corr:frompage-render', False, str(exc))
    try:
        masks = common.eval_cases('c17disp_%d' % os.getpid(), PRE, 'box * list (Z * (Z * list Z * Z)) * list (Z * (Z * list Z * Z)) * list Z', disp_cases,
                                  'display_judge', per_file=12)
        mism = [m_ for m_, k in zip(meta, masks) if k & 1]
        run.oblige('corr:display(colour sequence of the content stream = paint list of the model)', not mism,
                   'first disagreement: %s' % (mism[0][0]['html'][:2500] if mism else ''))
        for (d, pi, pg), k in zip(meta, masks):
            if k & 2:
                # the Python reference judged the same page: its classification (if any) was reported above
                cl = [c for c, _, _, _ in pg['bad'] if c.startswith('paint-order')]
                if not cl:
                    run.fail('colour sequence differs from the Coq Appendix E order on a well-formed page',
                             {'stream': 'display', 'html': d['html'], 'page': pi})
        run.stream_info('display', coq_spec_pages=sum(1 for k in masks if not k & 4))
    except RuntimeError as exc:
        run.oblige('corr:display', False, str(exc))
    try:
        masks = eval_radius_render('c17rr_%d' % os.getpid(), rad_cases)
        mism = [m_ for m_, k in zip(rad_meta, masks) if k & 1]
        run.oblige('corr:radius-render(corner extents of the m/l/c paths = model rounded_box)', not mism,
                   'first disagreement: %s' % (((mism[0][2], mism[0][0]['html'][:2000]) if mism else ''),))
        seen_docs = set()
        for (d, pi, rc, desc), k in zip(rad_meta, masks):
            if not k & 2 or (id(d), bool(k & 4)) in seen_docs:
                continue
            seen_docs.add((id(d), bool(k & 4)))
            what = ('rounded %s of %s: corner radii %s read from the content stream, border box %sx%s, outer radii %s, '
                    'inset %s' % (rc['which'], desc, [round(v, 3) for v in rc['obs'][4:]], rc['W'], rc['H'], rc['R'], rc['ins']))
            data = {'stream': 'display', 'html': d['html'], 'page': pi, 'clause': 'corner-radii', 'box': rc['box'], 'case': rc}
            run.fail(what + (' [outer radii overlap]' if k & 4 else ''), data)
        run.count('radius-render', len(rad_cases), [(rc['which'], k & 6, tuple(sorted(set(rc['ins']))) != (0.0,),
                                                     len([v for v in rc['R'] if v])) for (_, _, rc, _), k in zip(rad_meta, masks)],
                  samples=[rad_meta[0][2]] if rad_meta else [])
        run.stream_info('radius-render', overlap=sum(1 for k in masks if k & 4),
                        rule='every rounded path of the display list of the radius documents (clip of background-clip '
                             'border/padding/content-box, the two curves of each border ring fill, the overflow clip on each '
                             'descendant item): m/l/c operators -> rectangle + eight corner extents, compared inside Coq with '
                             'the model and with the CSS rule, tolerance 1/200 px; boxes with four different border widths, '
                             'elliptical / percentage / overlapping radii, paddings, background-clip, overflow:hidden, nested')
    except RuntimeError as exc:
        run.oblige('corr:radius-render', False, str(exc))
    run.count('display', n_pages, [tuple(d['features']) for d in docs],
              samples=[docs[0]['html'][:800]])
    run.stream_info('display', items=n_items, paints=n_tokens, features=sorted(feats_seen), clauses=clauses,
                    rule='random documents (blocks, inlines, inline-blocks, floats, tables, relative/absolute/fixed boxes; '
                         'z-index in {auto,-2..3} also on static boxes, opacity, transforms incl. scale(0), overflow:hidden, '
                         'visibility, background-clip, borders; contexts nested to depth 4; every element has its own '
                         'background / text / border colour), 1 in 4 without the features of the known defects. The page '
                         'content stream and its form XObjects are interpreted into fills / strokes / text shows with '
                         'CTM, colour, alpha, clip stack; the colour sequence must equal (exactly, with multiplicities) '
                         'the Appendix E reference in Python, and (deduplicated) the Coq model and the Coq specification; '
                         'each item is judged geometrically (background rectangle per background-clip, border ring and '
                         'side clips, text origin / matrix / font size / ToUnicode text, opacity product, overflow clips '
                         'along the containing-block chain)')


def replay(data):
    d = data.get('data', {})
    if d.get('stream') in ('display', 'frompage-render') and d.get('html'):
        (st, o), = common.run_impl('p_c17', 'judge_doc', [{'html': d['html']}], limit=120)
        if st != 'ok':
            print('replay:', st, o)
            return 1
        bad = [b for pg in o['pages'] for b in pg['bad']]
        for b in bad[:10]:
            print('replay:', b[0], b[3], b[2][:300])
        cases = []
        for pg in o['pages']:
            nodes = pg['nodes']
            cases.append('(%s, %s, %s)' % (box_term(nodes), pnode_term(nodes, pg['out']),
                                            bits_term([(i['kind'], i['bits']) for i, _ in nodes])))
        masks = common.eval_cases('c17replay_%d' % os.getpid(), PRE, 'box * pnode * list (kind * Z)', cases, 'frompage_judge2', per_file=12)
        print('replay: Coq masks per page (1 model<>impl, 2 spec<>paint, 4 not well-formed, 8 not painted once):', masks)
        rcs = [rc for pg in o['pages'] for rc in pg['rcases']]
        rmasks = []
        if rcs:
            rmasks = eval_radius_render('c17replay_%d' % os.getpid(), rcs)
            for rc, k in zip(rcs, rmasks):
                if k & 3:
                    print('replay: corner radii (1 model<>stream, 2 CSS<>stream, 4 outer radii overlap): mask %d %s' % (k, rc))
        return 1 if bad or any(m & 11 for m in masks) or any(k & 3 for k in rmasks) else 0
    if d.get('stream') == 'radius-direct':
        (st, o), = common.run_impl('impl_c17', 'rounded_direct', [d['case']])
        print('replay: implementation output', st, o)
        if st != 'ok':
            return 1
        m = common.eval_cases('c17replay_%d' % os.getpid(), PRE_R, RCASE_T, [radius_case_term(d['case'], o)], 'radius_call_judge')
        print('replay: mask (1 model<>impl, 2 CSS rule<>impl, 4 outer radii overlap)', m)
        return 1 if m[0] & 3 else 0
    if d.get('stream') == 'frombox-synth':
        (st, o), = common.run_impl('impl_c17', 'stacking_synth', [{'tree': d['tree']}])
        print('replay:', st, o if st != 'ok' else o['out'])
        if st != 'ok':
            return 1
        nodes = synth_nodes(d['tree'])
        kinds = {c: k for c, k, _ in SYNTH_CLASSES}
        m = common.eval_cases('c17replay_%d' % os.getpid(), PRE, 'box * pnode * list (kind * Z)',
                              ['(%s, %s, %s)' % (box_term(nodes), pnode_term(nodes, o['out']),
                                                 bits_term([(kinds[c], b) for c, b in o['bits'].items()]))], 'frombox_judge')
        print('replay: mask', m)
        return 1 if m[0] & 3 else 0
    print('nothing to replay for', d.get('stream'))
    return 0


# =====================================================================================================
#  Rounded corners: exact direct calls of Box.rounded_box and its callers (stream radius-direct)
# =====================================================================================================

PRE_R = ('From Coq Require Import QArith List Bool.\nRequire Import WV.model.C17Radius.\n'
         'Import ListNotations.\nOpen Scope Q_scope.\n')
RCASE_T = '(Q * Q) * radii * (Q * Q * Q * Q) * (Q * Q * Q * Q) * (nat * (Q * Q * Q * Q)) * rbox'


def gen_radius_case(rng, k):
    from fractions import Fraction as F
    def q(lo, hi, dens=(1, 1, 2, 3)):
        return F(rng.randint(lo, hi), rng.choice(dens))
    regime = k % 6
    cw, ch = q(0, 120), q(0, 90)
    # four different border widths most of the time
    bw = rng.sample([F(0), F(1), F(2), F(3), F(5), F(8), F(12), F(20), F(7, 2), F(31, 3)], 4)
    if regime == 5:
        bw = [rng.choice([F(0), F(4)]) for _ in range(4)]
    pd = [q(0, 9) if rng.random() < 0.6 else F(0) for _ in range(4)]
    W = cw + pd[1] + pd[3] + bw[1] + bw[3]
    H = ch + pd[0] + pd[2] + bw[0] + bw[2]
    if regime == 0:       # small radii: nothing overlaps
        radii = [q(0, 25) for _ in range(8)]
    elif regime == 1:     # outer radii overlap (5.5 scaling)
        radii = [q(30, 400) for _ in range(8)]
    elif regime == 2:     # radii around the border widths (clipping at 0 per axis)
        radii = [rng.choice(bw) + rng.choice([F(-1), F(0), F(0), F(1), F(1, 2), F(6)]) for _ in range(8)]
        radii = [max(F(0), r) for r in radii]
    elif regime == 3:     # exactly touching: sums equal to the sides
        a, b = q(0, 60), q(0, 60)
        radii = [a, b, max(F(0), W - a), q(0, 40), q(0, 40), max(F(0), H - b), q(0, 30), q(0, 30)]
    elif regime == 4:     # some corners square
        radii = [q(0, 80) if rng.random() < 0.5 else F(0) for _ in range(8)]
    else:
        radii = [rng.choice([F(0), F(10), F(50), F(9999)]) for _ in range(8)]
    mode = rng.choice([0, 0, 1, 2, 2, 2, 3, 3, 4])
    if mode == 0:
        args = [rng.choice(bw + [q(0, 30)]) for _ in range(4)]
    elif mode == 4:
        args = [rng.choice([F(1, 2), F(1, 3), F(2, 3), F(1)]), F(0), F(0), F(0)]
    else:
        args = [F(0)] * 4
    return dict(cw=str(cw), ch=str(ch), bw=[str(v) for v in bw], pd=[str(v) for v in pd], radii=[str(v) for v in radii],
                px=str(q(-20, 50)), py=str(q(-20, 50)), ml=str(q(-5, 9)), mt=str(q(-5, 9)), mode=mode,
                args=[str(v) for v in args], regime=regime)


def radius_case_term(c, out):
    from fractions import Fraction as F
    def q4(l):
        return '(%s, %s, %s, %s)' % tuple(qlit(F(v)) for v in l)
    def rad(l):
        return '(mkR %s)' % ' '.join(qlit(F(v)) for v in l)
    return '((%s, %s), %s, %s, %s, (%d%%nat, %s), (mkRB %s %s %s %s %s))' % (
        qlit(F(c['cw'])), qlit(F(c['ch'])), rad(c['radii']), q4(c['bw']), q4(c['pd']), c['mode'], q4(c['args']),
        qlit(F(out[0])), qlit(F(out[1])), qlit(F(out[2])), qlit(F(out[3])), rad(out[4:]))


def qlit(fr):
    return common.qlit(fr)


# =====================================================================================================
#  Rounded corners in renders (stream radius-render): documents, Coq cases
# =====================================================================================================

def gen_radius_doc(rng):
    """Blocks / inline-blocks / floats with four different border widths, elliptical radii, background-clip,
    padding, overflow:hidden with children; no transforms (corner extents are read axis aligned)."""
    n = [2]
    feats = set()

    def radius(w_hint):
        r = rng.random()
        if r < 0.15:
            feats.add('r:single')
            return 'border-radius:%dpx' % rng.choice([3, 6, 10, 16, 24])
        if r < 0.40:
            feats.add('r:four')
            return 'border-radius:%s' % ' '.join('%dpx' % rng.choice([0, 2, 5, 9, 14, 20, 30]) for _ in range(4))
        if r < 0.70:
            feats.add('r:elliptical')
            return 'border-radius:%s / %s' % (' '.join('%dpx' % rng.choice([0, 4, 8, 13, 21, 34]) for _ in range(4)),
                                              ' '.join('%dpx' % rng.choice([0, 3, 7, 12, 18, 27]) for _ in range(4)))
        if r < 0.80:
            feats.add('r:percent')
            return 'border-radius:%s' % rng.choice(['50%', '20% 40%', '10% 30% 50% 25%', '25% / 50%'])
        if r < 0.90:
            feats.add('r:overlap')
            return 'border-radius:%s' % rng.choice(['80px', '9999px', '60px 200px 40px 100px / 90px 30px 120px 50px',
                                                      '100px 0 100px 0'])
        feats.add('r:one-corner')
        corner = rng.choice(['top-left', 'top-right', 'bottom-right', 'bottom-left'])
        return 'border-%s-radius:%dpx %dpx' % (corner, rng.choice([6, 12, 20, 28]), rng.choice([5, 11, 20, 33]))

    def block(depth):
        k = n[0]
        n[0] += 1
        widths = rng.sample([1, 2, 3, 5, 8, 12, 17], 4)
        if rng.random() < 0.15:
            widths[rng.randrange(4)] = 0
        if rng.random() < 0.1:
            widths = [rng.choice([2, 6])] * 4
        st = ['background:%s' % colour(3 * k), 'color:%s' % colour(3 * k + 1),
              'border-style:solid', 'border-color:%s' % colour(3 * k + 2),
              'border-width:%s' % ' '.join('%dpx' % w for w in widths),
              'width:%dpx' % rng.choice([20, 35, 50, 70]), 'height:%dpx' % rng.choice([15, 30, 45, 60]), radius(0)]
        if rng.random() < 0.6:
            st.append('padding:%s' % ' '.join('%dpx' % rng.choice([0, 1, 3, 6, 10]) for _ in range(4)))
        if rng.random() < 0.7:
            clip = rng.choice(['padding-box', 'content-box', 'border-box'])
            st.append('background-clip:%s' % clip)
            feats.add('clip:' + clip)
        ovf = rng.random() < 0.55
        if ovf:
            st.append('overflow:hidden')
            feats.add('overflow')
        r = rng.random()
        if r < 0.2:
            st.append('float:%s' % rng.choice(['left', 'right']))
        elif r < 0.35:
            st.append('display:inline-block')
        elif r < 0.45:
            st.append('margin:%dpx %dpx' % (rng.choice([2, 5]), rng.choice([0, 4])))
        inner = ''
        if depth < 2 and rng.random() < (0.8 if ovf else 0.4):
            if rng.random() < 0.5:
                inner = block(depth + 1)
            else:
                c = n[0]
                n[0] += 1
                inner = '<div id="e%d" style="background:%s;color:%s;width:%dpx;height:%dpx">%s</div>' % (
                    c, colour(3 * c), colour(3 * c + 1), rng.choice([30, 60, 90]), rng.choice([20, 50, 80]),
                    rng.choice(WORDS))
        elif rng.random() < 0.5:
            inner = rng.choice(WORDS)
        return '<div id="e%d" style="%s">%s</div>' % (k, ';'.join(st), inner)

    body = ''.join(block(0) for _ in range(rng.choice([2, 3, 4])))
    css = ('@page{size:300px 2000px;margin:0}html{background:none;color:%s}body{margin:6px;background:none;color:%s;'
           'font-family:weasyprint;font-size:10px;line-height:10px}' % (colour(1), colour(4)))
    return '<html id="e0"><style>%s</style><body id="e1">%s</body></html>' % (css, body), sorted(feats)


def render_radius_term(c):
    from fractions import Fraction as F
    def q(v):
        return qlit(F(round(v * 10000), 10000))
    def rad(l):
        return '(mkR %s)' % ' '.join(q(v) for v in l)
    o = c['obs']
    return '((%s, %s), %s, (%s, %s, %s, %s), (mkRB %s %s %s %s %s))' % (
        q(c['W']), q(c['H']), rad(c['R']), q(c['ins'][0]), q(c['ins'][1]), q(c['ins'][2]), q(c['ins'][3]),
        q(o[0]), q(o[1]), q(o[2]), q(o[3]), rad(o[4:]))


RRENDER_T = '(Q * Q) * radii * (Q * Q * Q * Q) * rbox'


def eval_radius_render(tag, rcs):
    """radius_render_judge (Coq) on every case -> one mask per case.  A case with several candidate clips (field alts,
    see judge_geometry.note_any) is judged on each candidate inside Coq and holds when one candidate holds: the mask
    kept is the first one without bits 1/2, else the first one that agrees with the model, else the first; rc['obs']
    is set to the candidate kept (for the report)."""
    terms, owner = [], []
    for i, rc in enumerate(rcs):
        for obs in [rc['obs']] + list(rc.get('alts', [])):
            terms.append(render_radius_term(dict(rc, obs=obs)))
            owner.append((i, obs))
    ms = common.eval_cases(tag, PRE_R, RRENDER_T, terms, 'radius_render_judge', per_file=400)
    rank = lambda k: 0 if not k & 3 else (1 if not k & 1 else 2)
    out = [None] * len(rcs)
    for (i, obs), k in zip(owner, ms):
        if out[i] is None or rank(k) < rank(out[i]):
            out[i] = k
            rcs[i]['obs'] = obs
    return out
