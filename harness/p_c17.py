"""C17 - what is painted is what was laid out, in CSS paint order."""
import random, json, os, sys
import common

PRE = ('From Coq Require Import ZArith List Bool.\n'
       'Require Import WV.model.C17Stacking WV.model.C17Spec WV.model.C17Judge.\n'
       'Import ListNotations.\nOpen Scope Z_scope.\n')

POS = {'static': 'PStatic', 'relative': 'PRelative', 'absolute': 'PAbsolute', 'fixed': 'PFixed',
       'sticky': 'PSticky'}
FLAGS = ['flt', 'opa', 'trf', 'ovf', 'clp', 'git', 'col', 'hid', 'rcl']


# ------------------------------------------------------------------------------------------- Coq printers

def info_term(i, bid):
    flags = sum(1 << n for n, k in enumerate(FLAGS) if i.get(k))
    z = 'None' if i.get('z') is None else '(Some (%d))' % i['z']
    return '(I %d %s %s %s %s %d)' % (bid, i['kind'], POS.get(i['pos'], 'PStatic'), z, i.get('tm', 'TNone'), flags)


def box_term(nodes, n=0):
    """nodes: list of [info, [kid ids]] indexed by id -> Coq `box` term."""
    info, kids = nodes[n]
    return '(Box %s [%s])' % (info_term(info, n), '; '.join(box_term(nodes, k) for k in kids))


def pnode_term(nodes, o):
    def lst(l):
        return '[%s]' % '; '.join(pnode_term(nodes, x) for x in l)
    if o[0] == 'B':
        return '(PB %s %s)' % (info_term(nodes[o[1]][0], o[1]), lst(o[2]))
    _, bid, kids, neg, zero, pos, blocks, floats, bcs, z = o
    return '(PC %s %s %s %s %s %s %s %s (%d))' % (
        info_term(nodes[bid][0], bid), lst(kids), lst(neg), lst(zero), lst(pos), lst(blocks), lst(floats),
        lst(bcs), z)


def bits_term(pairs):
    return '[%s]' % '; '.join('(%s, %d)' % (k, b) for k, b in sorted(set(pairs)))


# ------------------------------------------------------------------------------- stream 1: synthetic trees

SYNTH_CLASSES = [
    ('BlockBox', 'KBlock', 10), ('InlineBox', 'KInline', 5), ('LineBox', 'KLine', 4), ('TextBox', 'KText', 4),
    ('InlineBlockBox', 'KInlineBlock', 4), ('TableBox', 'KTable', 2), ('TableRowGroupBox', 'KRowGroup', 2),
    ('TableRowBox', 'KRow', 2), ('TableCellBox', 'KCell', 3), ('FlexBox', 'KFlex', 1), ('GridBox', 'KGrid', 1),
    ('InlineFlexBox', 'KInlineFlex', 1), ('InlineGridBox', 'KInlineGrid', 1),
    ('BlockReplacedBox', 'KBlockReplaced', 1), ('InlineReplacedBox', 'KInlineReplaced', 1),
    ('InlineTableBox', 'KTable', 1), ('TableCaptionBox', 'KBlock', 1), ('MarginBox', 'KMargin', 1),
    ('TableColumnGroupBox', 'KOther', 1)]
NONPARENT = {'TextBox', 'BlockReplacedBox', 'InlineReplacedBox'}


def gen_synth(rng, max_nodes):
    """A random tree of real box classes with random stacking-relevant style; ids in preorder."""
    classes = [c for c, _, w in SYNTH_CLASSES for _ in range(w)]
    kinds = {c: k for c, k, _ in SYNTH_CLASSES}
    count = [0]
    plain = rng.random() < 0.15            # mostly in-flow trees now and then

    def node(depth):
        cls = rng.choice(classes) if depth else rng.choice(['BlockBox', 'BlockBox', 'InlineBlockBox', 'TableCellBox'])
        bid = count[0]
        count[0] += 1
        r = rng.random()
        pos = 'static'
        if not plain and r < 0.35:
            pos = rng.choice(['relative', 'absolute', 'fixed', 'sticky', 'relative', 'absolute'])
        z = None
        if not plain and rng.random() < 0.45:
            z = rng.choice([-2, -1, -1, 0, 0, 1, 1, 2, 7])
        t = dict(id=bid, cls=cls, kind=kinds[cls], pos=pos, z=z,
                 opa=(not plain and rng.random() < 0.1), trf=(not plain and rng.random() < 0.08),
                 ovf=(not plain and rng.random() < 0.1), flt=(not plain and rng.random() < 0.15),
                 git=(not plain and rng.random() < 0.06), ph=(pos in ('absolute', 'fixed') and rng.random() < 0.8),
                 kids=[])
        if cls not in NONPARENT and depth < 6:
            nk = rng.choice([0, 1, 1, 2, 2, 3, 4]) if depth < 3 else rng.choice([0, 0, 1, 2])
            for _ in range(nk):
                if count[0] >= max_nodes:
                    break
                t['kids'].append(node(depth + 1))
        return t
    return node(0)


def synth_nodes(tree):
    nodes = {}
    def walk(t):
        nodes[t['id']] = [dict(kind=t['kind'], pos=t['pos'], z=t['z'], opa=t['opa'], trf=t['trf'], ovf=t['ovf'],
                               flt=t['flt'], git=t['git'], tm='TNone'), [k['id'] for k in t['kids']]]
        for k in t['kids']:
            walk(k)
    walk(tree)
    return [nodes[i] for i in range(len(nodes))]


# ------------------------------------------------------------------------- documents (streams 2, 3 and 4)

def colour(m):
    """Unique colour number m -> '#rgb' with 4-bit channels (never black or white)."""
    m = m + 1                      # skip #000
    if m >= 0xfff:
        raise ValueError('too many colours')
    return '#%x%x%x' % (m % 16, (m // 16) % 16, (m // 256) % 16)


def colour_rgb(m):
    m = m + 1
    return (17 * (m % 16), 17 * ((m // 16) % 16), 17 * ((m // 256) % 16))


WORDS = ['ab', 'cd', 'abc', 'a', 'efg', 'hgf', 'ba', 'dc']
ZS = ['auto', 'auto', '-2', '-1', '-1', '0', '0', '1', '1', '2', '3']
TRANSFORMS = ['translate(3px,2px)', 'translate(-4px,5px)', 'rotate(90deg)', 'scale(2)', 'scale(0.5,1)',
              'rotate(180deg) translate(2px,0)', 'scale(0)', 'translate(10%,20%)']


class DocGen:
    """Random document of blocks, inlines, inline-blocks, floats, tables and positioned boxes.  Element number n
    has background colour 3n, text colour 3n+1 and border colour 3n+2 (all distinct in the document)."""

    def __init__(self, rng, profile='full'):
        self.rng, self.n, self.profile = rng, 0, profile
        self.features = set()

    def style(self, kind, depth, ctxdepth):
        rng = self.rng
        n = self.n
        self.n += 1
        st = ['background:%s' % colour(3 * n), 'color:%s' % colour(3 * n + 1)]
        full = self.profile == 'full'
        ctx = False
        if kind in ('div', 'ib', 'span', 'td', 'table', 'tr'):
            r = rng.random()
            allow_ctx = ctxdepth < 4
            if kind in ('div', 'ib', 'span', 'table') and r < 0.30 and allow_ctx:
                p = rng.choice(['relative', 'relative', 'absolute', 'absolute', 'fixed'] if kind != 'span'
                               else ['relative'])
                st.append('position:%s' % p)
                if p == 'relative':
                    st.append('%s:%dpx' % (rng.choice(['left', 'top']), rng.choice([-6, -3, 2, 5, 12])))
                else:
                    st.append('left:%dpx;top:%dpx' % (rng.choice([0, 5, 20, 60, 100]), rng.choice([0, 5, 15, 40, 90])))
                    if rng.random() < 0.7:
                        st.append('width:%dpx' % rng.choice([20, 30, 50]))
                self.features.add('pos:' + p)
                ctx = True
            if rng.random() < (0.35 if ctx else (0.06 if self.profile != 'strict' else 0)):
                z = rng.choice(ZS)
                st.append('z-index:%s' % z)
                self.features.add('z:' + ('static' if not ctx else 'pos') + ('neg' if z.startswith('-') else z))
            if kind in ('div', 'ib', 'table', 'td') and rng.random() < 0.08 and allow_ctx:
                st.append('opacity:%s' % rng.choice(['0.5', '0.25', '0.75']))
                self.features.add('opacity'); ctx = True
            if kind in ('div', 'ib', 'table') and rng.random() < 0.07 and allow_ctx:
                t = rng.choice(TRANSFORMS)
                st.append('transform:%s' % t)
                if rng.random() < 0.5:
                    st.append('transform-origin:%s' % rng.choice(['0 0', '50% 50%', '10px 5px', '100% 0']))
                self.features.add('transform:' + t.split('(')[0]); ctx = True
            if kind in ('div', 'ib', 'td') and rng.random() < 0.08 and allow_ctx:
                st.append('overflow:hidden')
                if rng.random() < 0.6:
                    st.append('height:%dpx' % rng.choice([5, 12, 20]))
                self.features.add('overflow'); ctx = True
            if full and kind in ('tr',) and rng.random() < 0.06:
                st.append(rng.choice(['opacity:0.5', 'position:relative', 'transform:translate(1px,1px)']))
                self.features.add('tr-context'); ctx = True
        if kind in ('div', 'ib', 'table') and rng.random() < 0.18 and 'position:absolute' not in ';'.join(st) \
                and 'position:fixed' not in ';'.join(st):
            st.append('float:%s;width:%dpx' % (rng.choice(['left', 'right']), rng.choice([15, 25, 40])))
            self.features.add('float')
        if rng.random() < 0.07:
            st.append('visibility:hidden')
            self.features.add('hidden')
        elif rng.random() < 0.02:
            st.append('visibility:visible')
        if kind in ('div', 'ib', 'td', 'span', 'table'):
            if rng.random() < 0.35:
                w = rng.choice([1, 2, 3])
                if rng.random() < 0.6:
                    st.append('border:%dpx solid %s' % (w, colour(3 * n + 2)))
                else:
                    side = rng.choice(['top', 'left', 'bottom', 'right'])
                    st.append('border-%s:%dpx solid %s' % (side, w, colour(3 * n + 2)))
                self.features.add('border')
            if rng.random() < 0.3:
                st.append('padding:%dpx %dpx' % (rng.choice([0, 1, 2, 4]), rng.choice([0, 1, 3])))
            if rng.random() < 0.15 and kind != 'span':
                st.append('background-clip:%s' % rng.choice(['padding-box', 'content-box', 'border-box']))
                self.features.add('bgclip')
        if kind == 'div':
            if rng.random() < 0.3:
                st.append('margin:%dpx %dpx' % (rng.choice([-8, -4, 0, 2, 5]), rng.choice([0, 0, 3, -3])))
            if rng.random() < 0.25:
                st.append('width:%dpx' % rng.choice([30, 60, 90]))
            if rng.random() < 0.15:
                st.append('height:%dpx' % rng.choice([4, 10, 25]))
        return n, ';'.join(st), ctx

    def text(self):
        return ' '.join(self.rng.choice(WORDS) for _ in range(self.rng.choice([1, 1, 2, 3])))

    def inline_content(self, depth, ctxdepth):
        rng = self.rng
        out = []
        for _ in range(rng.choice([1, 2, 2, 3])):
            r = rng.random()
            if r < 0.45 or depth >= 5:
                out.append(self.text())
            elif r < 0.70:
                n, st, ctx = self.style('span', depth, ctxdepth)
                out.append('<span id="e%d" style="%s">%s</span>' % (n, st, self.inline_content(depth + 1, ctxdepth + ctx)))
            elif r < 0.85:
                n, st, ctx = self.style('ib', depth, ctxdepth)
                st += ';display:inline-block'
                self.features.add('inline-block')
                out.append('<span id="e%d" style="%s">%s</span>' % (n, st, self.flow(depth + 1, ctxdepth + ctx)))
            else:
                out.append(self.block(depth + 1, ctxdepth))      # float / abspos / block-in-inline
        return ' '.join(out)

    def table(self, depth, ctxdepth):
        rng = self.rng
        n, st, ctx = self.style('table', depth, ctxdepth)
        if rng.random() < 0.3:
            st += ';border-collapse:collapse'
            self.features.add('collapse')
        else:
            st += ';border-spacing:%dpx' % rng.choice([0, 1, 2])
        rows = []
        for _ in range(rng.choice([1, 2, 2])):
            rn, rst, rctx = self.style('tr', depth + 1, ctxdepth + ctx)
            cells = []
            for _ in range(rng.choice([1, 2, 3])):
                cn, cst, cctx = self.style('td', depth + 2, ctxdepth + ctx + rctx)
                inner = '' if rng.random() < 0.1 else (
                    self.inline_content(depth + 3, ctxdepth + ctx + rctx + cctx) if rng.random() < 0.8
                    else self.flow(depth + 3, ctxdepth + ctx + rctx + cctx))
                cells.append('<td id="e%d" style="%s">%s</td>' % (cn, cst, inner))
            rows.append('<tr id="e%d" style="%s">%s</tr>' % (rn, rst, ''.join(cells)))
        self.features.add('table')
        return '<table id="e%d" style="%s">%s</table>' % (n, st, ''.join(rows))

    def block(self, depth, ctxdepth):
        rng = self.rng
        if rng.random() < 0.12 and depth < 4:
            return self.table(depth, ctxdepth)
        n, st, ctx = self.style('div', depth, ctxdepth)
        if depth >= 5 or rng.random() < 0.45:
            inner = self.inline_content(depth + 1, ctxdepth + ctx) if rng.random() < 0.9 else ''
        else:
            inner = self.flow(depth + 1, ctxdepth + ctx)
        return '<div id="e%d" style="%s">%s</div>' % (n, st, inner)

    def flow(self, depth, ctxdepth):
        rng = self.rng
        if depth >= 5:
            return self.inline_content(depth, ctxdepth)
        return ''.join(self.block(depth, ctxdepth) for _ in range(rng.choice([1, 1, 2, 2, 3])))

    def document(self):
        rng = self.rng
        n_html, n_body = self.n, self.n + 1
        self.n += 2
        body = self.flow(0, 0)
        html_bg = rng.random() < 0.5
        css = ('@page{size:%dpx %dpx;margin:%dpx}'
               'html{%s;color:%s}body{margin:%dpx;background:%s;color:%s;'
               'font-family:weasyprint;font-size:10px;line-height:10px}table{border-spacing:0}td{padding:0}'
               % (rng.choice([160, 200, 300]), 4000, rng.choice([0, 0, 8]),
                  ('background:%s' % colour(3 * n_html)) if html_bg else 'background:none', colour(3 * n_html + 1),
                  rng.choice([0, 4]), colour(3 * n_body) if rng.random() < 0.7 else 'none', colour(3 * n_body + 1)))
        return '<html id="e%d"><style>%s</style><body id="e%d">%s</body></html>' % (n_html, css, n_body, body)


def gen_doc(rng, profile='full'):
    while True:
        g = DocGen(rng, profile)
        try:
            html = g.document()
        except ValueError:
            continue
        if g.n <= 120:
            return html, sorted(g.features), g.n
