"""C10 - tables: grid geometry, width distribution, repeated headers, collapsed borders."""
import random, itertools, math, json
from fractions import Fraction
import common
from common import qlit

PRE = ('From Coq Require Import QArith List Bool.\n'
       'Require Import WV.model.C10Distribute WV.model.C10Layout WV.model.C10Grid WV.model.C10Borders WV.model.C10Preferred.\n'
       'Import ListNotations.\nOpen Scope Q_scope.\n')


def blit(b):
    return 'true' if b else 'false'


def qlist(l):
    return '[%s]' % '; '.join(qlit(Fraction(x)) for x in l)


# ------------------------------------------------------------------------------ stream 1: distribute direct

def rq(rng, lo, hi, dens=(1, 1, 1, 2, 3, 4)):
    return str(Fraction(rng.randint(lo, hi), rng.choice(dens)))


def gen_dist_col(rng, profile):
    """[cell, cons, pct, max, w] ; profile steers which groups exist."""
    cell = 1 if rng.random() < 0.8 else 0
    cons = 1 if rng.random() < profile['cons'] else 0
    r = rng.random()
    if r < profile['pct']:
        pct = rq(rng, 1, 60)
    elif r < profile['pct'] + profile['negpct']:
        pct = rq(rng, -30, -1)
    else:
        pct = '0'
    mx = '0' if rng.random() < profile['zero'] else rq(rng, 1, 300)
    w = rq(rng, 0, 300) if rng.random() < 0.7 else mx
    return [cell, cons, pct, mx, w]


def gen_dist(rng, n):
    cases = []
    # exhaustive small part: every combination of 3 column kinds x slices
    kinds = [[1, 0, '0', '30', '20'], [1, 0, '0', '0', '0'], [1, 1, '0', '40', '40'], [1, 1, '0', '0', '5'],
             [1, 0, '25', '50', '10'], [1, 0, '25', '0', '10'], [0, 1, '-5', '0', '3'], [0, 0, '10', '7', '7']]
    for a, b in itertools.product(kinds, kinds):
        for sl in ((0, None), (1, 2), (0, 1), (2, 5), (1, 1)):
            cases.append(dict(e='12', cols=[a, b], start=sl[0], stop=sl[1], alias=False))
    while len(cases) < n:
        profile = dict(cons=rng.choice([0, 0.3, 0.6, 1]), pct=rng.choice([0, 0, 0.3, 1]),
                       negpct=rng.choice([0, 0, 0.1]), zero=rng.choice([0, 0.2, 0.6, 1]))
        k = rng.choice([1, 2, 3, 4, 6, 9])
        cols = [gen_dist_col(rng, profile) for _ in range(k)]
        r = rng.random()
        if r < 0.4:
            start, stop = 0, None
        elif r < 0.9:
            start = rng.randint(0, k - 1)
            stop = rng.randint(start, k + 1)
        else:
            start, stop = rng.randint(0, k + 2), rng.choice([None, 0, k])
        e = rq(rng, 0, 400) if rng.random() < 0.9 else rq(rng, -50, -1)
        cases.append(dict(e=e, cols=cols, start=start, stop=stop, alias=rng.random() < 0.2))
    return cases


def coq_col(c, alias=False):
    return '(mkcol %s %s %s %s %s)' % (blit(c[0]), blit(c[1]), qlit(Fraction(c[2])), qlit(Fraction(c[3])),
                                       qlit(Fraction(c[3] if alias else c[4])))


def coq_dist_case(c, out):
    k = len(c['cols'])
    stop = k + 5 if c['stop'] is None else c['stop']
    o = '(Some %s)' % qlist(out) if out is not None else 'None'
    return '(%d%%nat, %d%%nat, %s, [%s], %s)' % (
        c['start'], stop, qlit(Fraction(c['e'])), '; '.join(coq_col(x, c.get('alias')) for x in c['cols']), o)


def dist_group(c):
    """which of the six groups the case exercises (computed independently, for coverage accounting)."""
    cols = c['cols'][c['start']:c['stop']]
    mx = lambda x: Fraction(x[3])
    pc = lambda x: Fraction(x[2])
    if any(not x[1] and pc(x) == 0 and mx(x) > 0 for x in cols):
        return 1
    if any(not x[1] and pc(x) == 0 for x in cols):
        return 2
    if any(x[1] and pc(x) == 0 and mx(x) > 0 for x in cols):
        return 3
    if any(pc(x) > 0 and mx(x) > 0 for x in cols):
        return 4
    return 5 if cols else 0


# ------------------------------------------------------------------------------ stream 2: fixed direct

def gen_decl(rng, pauto=0.4):
    r = rng.random()
    if r < pauto:
        return 'auto'
    if r < pauto + 0.15:
        return ['%', rq(rng, 0, 60)]
    return ['px', rq(rng, 0, 120)]


def gen_fixed(rng, n):
    cases = [dict(W='50', spacing='4', collapse=False, cols=[], cells=None),
             dict(W='3', spacing='4', collapse=False, cols=[], cells=None),
             dict(W='50', spacing='0', collapse=False, cols=[['px', '100'], 'auto'],
                  cells=[dict(span=2, width=['px', '50'], pl='0', pr='0', bl='0', br='0')])]
    while len(cases) < n:
        ncols = rng.choice([0, 0, 1, 2, 3, 4, 6])
        cols = [gen_decl(rng, rng.choice([0.2, 0.5, 0.9])) for _ in range(ncols)]
        if rng.random() < 0.1:
            cells = None
        else:
            cells = []
            for _ in range(rng.choice([1, 1, 2, 3, 4, 6])):
                cells.append(dict(span=rng.choice([1, 1, 1, 2, 3]), width=gen_decl(rng, 0.5),
                                  pl=rq(rng, 0, 5), pr=rq(rng, 0, 5), bl=rq(rng, 0, 3), br=rq(rng, 0, 3)))
        collapse = rng.random() < 0.3
        cases.append(dict(W=rq(rng, 0, 600), spacing=rq(rng, 0, 8) if rng.random() < 0.7 else '0',
                          collapse=collapse, cols=cols, cells=cells))
    return cases


def coq_decl(d):
    if d == 'auto':
        return 'DAuto'
    return '(%s %s)' % ('DPx' if d[0] == 'px' else 'DPct', qlit(Fraction(d[1])))


def coq_out(o):
    if o is None:
        return 'None'
    return '(Some (%s, %s))' % (qlit(Fraction(o[0])), qlist(o[1]))


def coq_fixed_direct_case(c, out):
    """direct case: (tolerance, case); tolerance 0 unless the implementation returned floats."""
    tol = Fraction(1, 10 ** 9) if (out is not None and len(out) > 2 and out[2]) else Fraction(0)
    return '(%s, %s)' % (qlit(tol), coq_fixed_case(c, out))


def coq_fixed_case(c, out):
    spacing = Fraction(0) if c['collapse'] else Fraction(c['spacing'])
    cells = c['cells'] or []
    return '(%s, %s, [%s], [%s], %s)' % (
        qlit(Fraction(c['W'])), qlit(spacing), '; '.join(coq_decl(d) for d in c['cols']),
        '; '.join('(mkfcell %d%%nat %s %s)' % (x['span'], coq_decl(x['width']),
                                               qlit(sum(Fraction(x[k]) for k in ('pl', 'pr', 'bl', 'br'))))
                  for x in cells), coq_out(out))


# ------------------------------------------------------------------------------ stream 3: auto direct

def gen_auto(rng, n):
    cases = []
    while len(cases) < n:
        k = rng.choice([0, 1, 1, 2, 3, 4, 6])
        cols = []
        prof = dict(cons=rng.choice([0, 0.3, 1]), pct=rng.choice([0, 0, 0.3, 0.7]), zero=rng.choice([0, 0.2]))
        sane = rng.random() < 0.9
        for _ in range(k):
            mn = Fraction(rq(rng, 0, 80))
            mx = mn + Fraction(rq(rng, 0, 200)) if rng.random() < 0.8 else mn
            if rng.random() < prof['zero']:
                mn = mx = Fraction(0)
            if not sane and rng.random() < 0.3:
                mn, mx = mx + 1, mn
            pct = rq(rng, 1, 70) if rng.random() < prof['pct'] else '0'
            cols.append([1 if rng.random() < 0.9 else 0, 1 if rng.random() < prof['cons'] else 0, pct, str(mx), str(mn)])
        ths = Fraction(rq(rng, 0, 30)) if k else Fraction(0)
        smin = sum(Fraction(c[4]) for c in cols)
        smax = sum(Fraction(c[3]) for c in cols)
        tmin = ths + smin + (Fraction(rq(rng, 0, 50)) if rng.random() < 0.3 else 0)
        tmax = max(tmin, ths + smax + (Fraction(rq(rng, 0, 300)) if rng.random() < 0.4 else 0))
        if not sane and rng.random() < 0.3:
            tmin = max(Fraction(0), tmin - 5)
        lo, hi = int(tmin) - 20, int(tmax) + 60
        r = rng.random()
        # the table width lands below min, between the guesses, at a guess exactly, or above max
        target = rng.choice([tmin, tmax, ths + smin, ths + smax]) if r < 0.25 else Fraction(rng.randint(lo, hi), rng.choice([1, 1, 2, 3]))
        if rng.random() < 0.5:
            tw, cb = 'auto', target
        else:
            tw, cb = str(max(target, 0)), Fraction(rng.randint(0, 500))
        ml = 'auto' if rng.random() < 0.3 else rq(rng, -5, 20)
        mr = 'auto' if rng.random() < 0.3 else rq(rng, 0, 20)
        pl, pr, bl, br = (rq(rng, 0, 6) for _ in range(4))
        extra = sum(Fraction(x) for x in (pl, pr, bl, br)) + sum(Fraction(x) for x in (ml, mr) if x != 'auto')
        cases.append(dict(tw=tw, cb=str(cb + extra), ml=ml, mr=mr, pl=pl, pr=pr, bl=bl, br=br, tmin=str(tmin),
                          tmax=str(tmax), ths=str(ths), cols=cols))
    return cases


def auto_avail(c):
    extra = sum(Fraction(c[x]) for x in ('pl', 'pr', 'bl', 'br')) + sum(Fraction(c[x]) for x in ('ml', 'mr') if c[x] != 'auto')
    return Fraction(c['cb']) - extra


def auto_sums(c):
    """(assignable width, sums of the four guesses), computed independently of the Coq model."""
    tmin, tmax, ths = Fraction(c['tmin']), Fraction(c['tmax']), Fraction(c['ths'])
    avail = auto_avail(c)
    if c['tw'] == 'auto':
        W = tmin if avail <= tmin else (avail if avail < tmax else tmax)
    else:
        W = max(Fraction(c['tw']), tmin)
    A = W - ths
    sums = []
    for g in range(4):
        s = Fraction(0)
        for cell, cons, pct, mx, mn in c['cols']:
            pct, mx, mn = Fraction(pct), Fraction(mx), Fraction(mn)
            if pct != 0:
                v = max(pct / 100 * A, mn) if g else mn
            else:
                v = mn if g == 0 or g == 1 or (g == 2 and not cons) else mx
            s += v
        sums.append(s)
    return A, sums


def auto_near_threshold(c):
    """True when some guess sum is inside the 1e-9 band around the assignable width without being equal to it
    (there the float product of the source is not modelled exactly): such cases are skipped and counted."""
    A, sums = auto_sums(c)
    return any(s != A and abs(s - A) <= abs(A) * Fraction(3, 10 ** 9) for s in sums) or A < 0


def auto_branch(c):
    if not c['cols']:
        return 'no-column'
    A, sums = auto_sums(c)
    if A >= sums[3]:
        return 'excess' if A > sums[3] else 'exactly-max'
    if A in sums:
        return 'exactly-a-guess'
    return 'between-%d' % sum(1 for s in sums if s <= A)


def coq_acol(c):
    return '(mkacol %s %s %s %s %s)' % (blit(c[0]), blit(c[1]), qlit(Fraction(c[2])), qlit(Fraction(c[3])), qlit(Fraction(c[4])))


def coq_auto_case(c, out):
    tw = 'None' if c['tw'] == 'auto' else '(Some %s)' % qlit(Fraction(c['tw']))
    return '(%s, (%s, %s, %s, %s), [%s], %s)' % (
        tw, qlit(auto_avail(c)), qlit(Fraction(c['tmin'])), qlit(Fraction(c['tmax'])), qlit(Fraction(c['ths'])),
        '; '.join(coq_acol(x) for x in c['cols']), coq_out(out))


def direct_stream(run, name, fn, cases, to_coq, case_type, judge, keyf, rule, skip=None):
    outs = common.run_impl('impl_c10', fn, cases)
    coq_cases, kept, skipped, raised = [], [], 0, 0
    for c, (st, o) in zip(cases, outs):
        if skip is not None and skip(c):
            skipped += 1
            continue
        if st == 'timeout':
            run.fail('%s timeout' % fn, {'stream': name, 'case': c}, signature='timeout')
            continue
        if st == 'exc':
            raised += 1
            o = None
        coq_cases.append(to_coq(c, o)); kept.append((c, o))
    try:
        masks = common.eval_cases('c10' + fn, PRE, case_type, coq_cases, judge,
                                  per_file=max(25, len(coq_cases) // common.NCPU + 1))
    except RuntimeError as exc:
        run.oblige('corr:' + name, False, str(exc))
        return
    mism = [(c, o) for (c, o), m in zip(kept, masks) if m & 1]
    specbad = [(c, o) for (c, o), m in zip(kept, masks) if m & 2]
    run.oblige('corr:%s(model vs CPython, exact rationals)' % name, not mism, 'first disagreements: %s' % mism[:3])
    for c, o in specbad[:2]:
        run.fail('%s output violates its specification' % fn, {'stream': name, 'case': c, 'impl_output': o},
                 signature='%s-spec' % name)
    run.count(name, len(kept), [keyf(c) for c, _ in kept], samples=[{'case': kept[0][0], 'impl': kept[0][1]}])
    run.stream_info(name, rule=rule, skipped_near_float_threshold=skipped, raised=raised)


# ------------------------------------------------------------------------------ stream 4: preferred widths direct

SPACINGS = [('0', '0'), ('2', '30'), ('30', '2'), ('1', '100'), ('100', '1'), ('5', '5'), ('3', '0'), ('0', '7'), ('7/2', '40')]
PROFILES = ['auto', 'constrained', 'percentage', 'mixed']


def gen_pref(rng, n):
    """stub tables for table_and_columns_preferred_widths: a first row of span-1 cells in every column (kind of the
    columns per profile: auto / all constrained (px) / percentage / mixed), then rows tiled with colspan cells
    starting in EVERY column position, most of them wider than the columns they span; two-value border-spacing."""
    cases = []
    pos = 0
    while len(cases) < n:
        ncols = rng.choice([2, 3, 3, 4, 5, 6])
        h, v = SPACINGS[len(cases) % len(SPACINGS)]
        profile = PROFILES[(len(cases) // len(SPACINGS)) % len(PROFILES)]
        collapse = rng.random() < 0.12

        def width_decl(kind):
            if kind == 'constrained':
                return ['px', rq(rng, 5, 60)]
            if kind == 'percentage':
                return ['%', rq(rng, 5, 45)]
            return 'auto'
        kinds = [profile if profile != 'mixed' else rng.choice(['auto', 'constrained', 'percentage']) for _ in range(ncols)]
        first = []
        for i in range(ncols):
            mn = Fraction(rq(rng, 0, 40)) if rng.random() < 0.9 else Fraction(0)
            mx = mn + (Fraction(rq(rng, 0, 80)) if rng.random() < 0.7 else 0)
            first.append(dict(gx=i, span=1, cmin=str(mn), cmax=str(mx), width=width_decl(kinds[i])))
        rows = [first]
        # colspan cells: one row per starting position (cycled), plus random tilings
        for r in range(rng.choice([1, 2, 3])):
            row, x = [], 0
            start = pos % (ncols - 1)
            pos += 1
            while x < ncols:
                if x == start or (x > start and rng.random() < 0.3 and x < ncols - 1):
                    span = rng.randint(2, min(ncols - x, 4)) if ncols - x >= 2 else 1
                else:
                    span = 1
                if span == 1:
                    mn = Fraction(rq(rng, 0, 30))
                    mx = mn + Fraction(rq(rng, 0, 30))
                    row.append(dict(gx=x, span=1, cmin=str(mn), cmax=str(mx), width=width_decl(kinds[x]) if rng.random() < 0.3 else 'auto'))
                else:
                    big = rng.random() < 0.75
                    mn = Fraction(rq(rng, 150, 400)) if big else Fraction(rq(rng, 0, 40))
                    mx = mn + (Fraction(rq(rng, 0, 200)) if rng.random() < 0.6 else 0)
                    row.append(dict(gx=x, span=span, cmin=str(mn), cmax=str(mx),
                                    width=['px', rq(rng, 10, 90)] if rng.random() < 0.15 else 'auto'))
                x += span
            rows.append(row)
        # a column without any originating cell (only spanned): drop its first-row cell when a colspan cell covers it
        if rng.random() < 0.2:
            covered = [x for row in rows[1:] for cell in row if cell['span'] > 1 for x in range(cell['gx'] + 1, cell['gx'] + cell['span'])]
            free = [x for x in covered if all(not (cell['gx'] == x) for row in rows[1:] for cell in row)]
            if free:
                x = rng.choice(free)
                rows[0] = [cell for cell in rows[0] if cell['gx'] != x]
        cols, group = [], None
        if rng.random() < 0.3:
            cols = [width_decl(rng.choice(['auto', 'constrained', 'percentage'])) for _ in range(rng.randint(1, ncols))]
            if rng.random() < 0.4:
                group = width_decl(rng.choice(['auto', 'constrained']))
        cases.append(dict(h=h, v=v, collapse=collapse, group=group, cols=cols, rows=rows, ncols=ncols, profile=profile))
    return cases


def pref_inputs(c):
    """(h used, per column contributions, colspan cells in the order of the source) from a direct case."""
    n = c['ncols']
    h = Fraction(0) if c['collapse'] else Fraction(c['h'])

    def of_decl(d):
        px = d != 'auto' and d[0] == 'px'
        val = Fraction(d[1]) if px else Fraction(0)
        pct = Fraction(d[1]) if (d != 'auto' and d[0] == '%') else Fraction(0)
        return [val, val, pct, px]
    columns = [[] for _ in range(n)]
    for i, d in enumerate(c['cols'][:n]):
        if c['group'] is not None:
            columns[i].append(of_decl(c['group']))
        columns[i].append(of_decl(d))
    spans = []
    for i in range(n):
        for row in c['rows']:
            for cell in row:
                if cell['gx'] != i:
                    continue
                d = cell['width']
                if cell['span'] == 1:
                    columns[i].append([Fraction(cell['cmin']), Fraction(cell['cmax']),
                                       Fraction(d[1]) if (d != 'auto' and d[0] == '%') else Fraction(0),
                                       d != 'auto' and d[0] == 'px'])
                else:
                    spans.append([cell['gx'], cell['span'], Fraction(cell['cmin']), Fraction(cell['cmax'])])
    return h, columns, spans


def coq_pref(h, columns, spans, out):
    cols = '; '.join('[%s]' % '; '.join('(mkcontrib %s %s %s %s)' % (qlit(Fraction(k[0])), qlit(Fraction(k[1])), qlit(Fraction(k[2])), blit(k[3]))
                                         for k in col) for col in columns)
    cells = '; '.join('(mkscell %d%%nat %d%%nat %s %s)' % (s[0], s[1], qlit(Fraction(s[2])), qlit(Fraction(s[3]))) for s in spans)
    if out is None:
        o = '([], [], [], [])'
    else:
        o = '(%s, %s, %s, [%s])' % (qlist(out[0]), qlist(out[1]), qlist(out[2]), '; '.join(blit(b) for b in out[3]))
    return '(%s, [%s], [%s], %s)' % (qlit(Fraction(h)), cols, cells, o)


def coq_pref_case(c, out):
    h, columns, spans = pref_inputs(c)
    return coq_pref(h, columns, spans, out)


def pref_key(c):
    """(profile, positions and spans of the colspan cells, orientation of the two-value spacing, group of
    distribute_excess_width taken by the first colspan cell that needs room)."""
    h, columns, spans = pref_inputs(c)
    hv = 'h<v' if Fraction(c['h']) < Fraction(c['v']) else 'h>v' if Fraction(c['h']) > Fraction(c['v']) else 'h=v'
    return (c['profile'], tuple((s[0], s[1]) for s in spans), hv, c['collapse'])


PREF_T = 'pref_case'


# ------------------------------------------------------------------------------ generated tables (renders)

WORDS = ['a', 'bb', 'ccc', 'dddd', 'eeeee', 'abcdefgh', 'aaaaaaaaaaaa', 'hhhhhhhhhhhhhhhhhhhh']
BSTYLES = ['none', 'hidden', 'dotted', 'dashed', 'solid', 'double', 'groove', 'ridge', 'inset', 'outset']


class Colors:
    def __init__(self):
        self.n = 0

    def next(self):
        self.n += 1
        return 'rgb(%d,%d,%d)' % (self.n % 256, (self.n // 256) % 256, 7)


def rand_border(rng, colors, p, collapse):
    """border declarations for the four sides (each with probability p)."""
    out = []
    for side in ('top', 'right', 'bottom', 'left'):
        if rng.random() < p:
            if collapse:
                st = rng.choice(BSTYLES + ['solid', 'solid', 'double', 'dashed'])
                w = rng.choice([0, 1, 2, 2, 3, 3, 5])
            else:
                st, w = 'solid', rng.choice([0, 1, 2, 3])
            out.append('border-%s:%dpx %s %s' % (side, w, st, colors.next()))
    return out


def gen_table(rng, tid, mode, thorough):
    """returns (html, meta).  mode: 'layout' | 'borders' | 'split'."""
    colors = Colors()
    ncols = rng.choice([1, 2, 3, 4, 5, 6])
    maxrows = 40 if (thorough or mode == 'split') else 12
    nrows = rng.choice([1, 2, 3, 4, 6, 9, 12] if maxrows == 12 else [3, 6, 12, 20, 30, 40])
    collapse = rng.random() < (0.9 if mode == 'borders' else 0.4)
    fixed = rng.random() < (0.1 if mode == 'borders' else 0.4)
    rtl = rng.random() < 0.3
    spans = rng.random() < (0.3 if mode == 'split' else 0.5)
    multiline = mode != 'split' or rng.random() < 0.25
    # row groups: optional thead / tfoot, 1..2 bodies
    nhead = rng.choice([0, 0, 1, 1, 2]) if nrows >= 3 else 0
    nfoot = rng.choice([0, 0, 1, 1, 2]) if nrows - nhead >= 3 else 0
    nbody = nrows - nhead - nfoot
    if rng.random() < 0.3 and nbody >= 2:
        k = rng.randint(1, nbody - 1)
        bodies = [k, nbody - k]
    else:
        bodies = [nbody]
    groups = ([('thead', nhead)] if nhead else []) + [('tbody', b) for b in bodies] + ([('tfoot', nfoot)] if nfoot else [])
    if rng.random() < 0.2:
        rng.shuffle(groups)             # the builder reorders header first / footer last
    pborder = {'layout': 0.3, 'borders': 0.5, 'split': 0.15}[mode]
    meta = dict(tid=tid, ncols=ncols, collapse=collapse, fixed=fixed, rtl=rtl, head=[], foot=[], body=[], multiline=multiline,
                cells={})
    html = []
    # columns
    if rng.random() < 0.45:
        cols = []
        k = 0
        while k < ncols and rng.random() < 0.85:
            st = []
            r = rng.random()
            if r < 0.4:
                st.append('width:%dpx' % rng.choice([10, 30, 50, 80, 120]))
            elif r < 0.6:
                st.append('width:%d%%' % rng.choice([10, 20, 30, 50, 70]))
            st += rand_border(rng, colors, pborder * 0.6, collapse)
            sp = 2 if (rng.random() < 0.15 and k + 2 <= ncols) else 1
            cols.append('<col%s style="%s">' % (' span=2' if sp == 2 else '', ';'.join(st)))
            k += sp
        if rng.random() < 0.5 and cols:
            cut = rng.randint(1, len(cols))
            gst = rand_border(rng, colors, pborder * 0.6, collapse)
            if rng.random() < 0.2:
                gst.append('width:%dpx' % rng.choice([40, 90]))
            html.append('<colgroup style="%s">%s</colgroup>%s' % (';'.join(gst), ''.join(cols[:cut]), ''.join(cols[cut:])))
        else:
            html.append(''.join(cols))
    rid = 0
    for gi, (tag, n) in enumerate(groups):
        occupied = [set() for _ in range(n)]
        gst = rand_border(rng, colors, pborder * 0.5, collapse)
        rows_html = []
        for r in range(n):
            rid += 1
            row_id = '%sr%d' % (tid, rid)
            (meta['head'] if tag == 'thead' else meta['foot'] if tag == 'tfoot' else meta['body']).append(row_id)
            cells_html = []
            x = 0
            ci = 0
            while x < ncols:
                if x in occupied[r]:
                    x += 1
                    continue
                run = 1
                while x + run < ncols and (x + run) not in occupied[r]:
                    run += 1
                cs = rng.randint(1, min(run, 3)) if (spans and rng.random() < 0.3) else 1
                rs = rng.randint(1, min(n - r, 3)) if (spans and rng.random() < 0.2) else 1
                if rng.random() < 0.03 and mode != 'split' and ci >= 1:
                    break                      # a short row: missing cells at the end
                for rr in range(r + 1, r + rs):
                    occupied[rr].update(range(x, x + cs))
                ci += 1
                cell_id = '%sc%d' % (row_id, ci)
                st = ['padding:%dpx %dpx' % (rng.choice([0, 1, 2]), rng.choice([0, 1, 2, 4]))]
                st += rand_border(rng, colors, pborder, collapse)
                r2 = rng.random()
                if r2 < 0.15:
                    st.append('width:%dpx' % rng.choice([5, 20, 40, 75, 130]))
                elif r2 < 0.25:
                    st.append('width:%d%%' % rng.choice([10, 25, 40, 60]))
                nwords = rng.choice([1, 1, 2, 3, 5]) if multiline else 1
                text = ' '.join(rng.choice(WORDS[:6] if rng.random() < 0.9 else WORDS) for _ in range(nwords))
                if rng.random() < 0.05:
                    text = ''
                meta['cells'][cell_id] = text
                attrs = ''
                if cs > 1:
                    attrs += ' colspan=%d' % cs
                if rs > 1:
                    attrs += ' rowspan=%d' % rs
                cells_html.append('<%s id=%s%s style="%s">%s</%s>' % ('th' if tag == 'thead' else 'td', cell_id, attrs,
                                                                     ';'.join(st), text, 'th' if tag == 'thead' else 'td'))
                x += cs
            rst = rand_border(rng, colors, pborder * 0.5, collapse)
            rows_html.append('<tr id=%s style="%s">%s</tr>' % (row_id, ';'.join(rst), ''.join(cells_html)))
        html.append('<%s id=%sg%d style="%s">%s</%s>' % (tag, tid, gi, ';'.join(gst), ''.join(rows_html), tag))
    # only the first thead / tfoot are header / footer: the generator emits at most one of each
    tst = ['border-collapse:%s' % ('collapse' if collapse else 'separate')]
    if not collapse or rng.random() < 0.3:
        sp = rng.choice([0, 2, 5])
        tst.append('border-spacing:%dpx %dpx' % (sp, rng.choice([sp, 0, 3])))
    r = rng.random()
    if fixed:
        tst.append('table-layout:fixed')
        tst.append('width:%s' % rng.choice(['100px', '200px', '350px', '600px', '50%', '100%', '20px'] + (['auto'] if r < 0.1 else [])))
    elif r < 0.45:
        tst.append('width:%s' % rng.choice(['60px', '150px', '300px', '500px', '40%', '100%', '130%']))
    if rtl:
        tst.append('direction:rtl')
    if rng.random() < 0.3:
        tst.append('margin-left:%s' % rng.choice(['auto', '10px', '0']))
        tst.append('margin-right:%s' % rng.choice(['auto', '7px', '0']))
    if rng.random() < 0.3:
        tst.append('padding:%dpx' % rng.choice([1, 3]))
    tst += rand_border(rng, colors, 0.5, collapse)
    cap = ''
    if rng.random() < 0.3:
        cap = '<caption style="caption-side:%s">%s</caption>' % (rng.choice(['top', 'bottom']), rng.choice(['cap', 'a caption text']))
    return '<table id=%s style="%s">%s%s</table>' % (tid, ';'.join(tst), cap, ''.join(html)), meta


LONG = ['abcdefghabcdefgh', 'aaaaaaaaaaaaaaaaaaaaaaaa', 'hhhhhhhhhhhh', 'abcdefghabcdefghabcdefghabcdefgh', 'gggggggggggggggggg']


def gen_colspan_table(rng, tid, serial):
    """auto layout, separated borders with a two-value border-spacing (horizontal != vertical, both orders), columns
    all constrained / percentage / auto / mixed, and colspan cells starting in every column position whose single
    unbreakable word is wider than the columns they span; ltr and rtl."""
    colors = Colors()
    ncols = rng.choice([2, 3, 3, 4, 5])
    h, v = rng.choice([(2, 30), (30, 2), (1, 40), (40, 1), (0, 25), (25, 0), (3, 3), (7, 50)])
    profile = PROFILES[serial % len(PROFILES)]
    rtl = (serial // len(PROFILES)) % 2 == 1
    kinds = [profile if profile != 'mixed' else rng.choice(['auto', 'constrained', 'percentage']) for _ in range(ncols)]
    meta = dict(tid=tid, ncols=ncols, collapse=False, fixed=False, rtl=rtl, head=[], foot=[], body=[], multiline=True, cells={},
                profile=profile, span_positions=[])
    rows_html = []

    def cell(row_id, ci, text, span, style):
        cid = '%sc%d' % (row_id, ci)
        meta['cells'][cid] = text
        return '<td id=%s%s style="%s">%s</td>' % (cid, ' colspan=%d' % span if span > 1 else '', ';'.join(style), text)

    def kind_style(k):
        if k == 'constrained':
            return ['width:%dpx' % rng.choice([10, 20, 35, 60])]
        if k == 'percentage':
            return ['width:%d%%' % rng.choice([10, 20, 30])]
        return []
    # first row: one cell per column
    rid = '%sr1' % tid
    meta['body'].append(rid)
    rows_html.append('<tr id=%s>%s</tr>' % (rid, ''.join(
        cell(rid, i + 1, rng.choice(['a', 'bb', 'a a a', 'ccc dddd', 'abcdefgh']), 1,
             ['padding:0 %dpx' % rng.choice([0, 0, 1, 3])] + kind_style(kinds[i])) for i in range(ncols))))
    nrows = rng.choice([1, 2, 3])
    for r in range(nrows):
        rid = '%sr%d' % (tid, r + 2)
        meta['body'].append(rid)
        start = (serial + r) % (ncols - 1)
        x, ci, cells = 0, 0, []
        while x < ncols:
            if x == start or (x > start and x < ncols - 1 and rng.random() < 0.3):
                span = rng.randint(2, min(ncols - x, 3))
            else:
                span = 1
            ci += 1
            if span > 1:
                text = rng.choice(LONG) if rng.random() < 0.8 else 'a bb'
                meta['span_positions'].append((x, span, ncols))
                st = ['padding:0 %dpx' % rng.choice([0, 0, 2])] + rand_border(rng, colors, 0.2, False)
            else:
                text = rng.choice(['a', 'bb', 'ccc', 'a bb'])
                st = ['padding:0'] + (kind_style(kinds[x]) if rng.random() < 0.3 else [])
            cells.append(cell(rid, ci, text, span, st))
            x += span
        rows_html.append('<tr id=%s>%s</tr>' % (rid, ''.join(cells)))
    tst = ['border-collapse:separate', 'border-spacing:%dpx %dpx' % (h, v)]
    if rtl:
        tst.append('direction:rtl')
    r = rng.random()
    if r < 0.2:
        tst.append('width:%s' % rng.choice(['100%', '150px', '60%']))
    if rng.random() < 0.3:
        tst.append('padding:%dpx' % rng.choice([1, 4]))
    tst += rand_border(rng, colors, 0.3, False)
    return '<table id=%s style="%s">%s</table>' % (tid, ';'.join(tst), ''.join(rows_html)), meta


def gen_doc(rng, mode, thorough, serial=0):
    width = rng.choice([120, 200, 300, 450, 700])
    if mode == 'split':
        height = rng.choice([60, 90, 130, 200, 320])
    else:
        height = 200000
    tables, metas = [], {}
    for t in range(1 if mode in ('split', 'colspan') else rng.choice([1, 1, 2])):
        if mode == 'colspan':
            h, m = gen_colspan_table(rng, 't%d' % t, serial)
        else:
            h, m = gen_table(rng, 't%d' % t, mode, thorough)
        tables.append(h)
        metas[m['tid']] = m
    before = '<p>aaa bbb</p>' if rng.random() < 0.5 else ''
    html = ('<style>@page{size:1000px %dpx;margin:%dpx 0}html,body{margin:0}body{font-family:weasyprint;font-size:10px;'
            'line-height:10px;width:%dpx}p{margin:0 0 3px}th{font-weight:normal}td,th{padding:0;vertical-align:%s}</style>%s%s'
            % (height, rng.choice([0, 5]), width, rng.choice(['top', 'baseline', 'middle', 'bottom']), before,
               '<p>bb</p>'.join(tables)))
    return dict(html=html, meta=metas, mode=mode, page_h=height)


STYLE_CTOR = {'none': 'Snone', 'hidden': 'Shidden', 'dotted': 'Sdotted', 'dashed': 'Sdashed', 'solid': 'Ssolid',
              'double': 'Sdouble', 'groove': 'Sgroove', 'ridge': 'Sridge', 'inset': 'Sinset', 'outset': 'Soutset'}
KIND_CTOR = {'cell': 'KCell', 'row': 'KRow', 'group': 'KGroup', 'col': 'KCol', 'colgroup': 'KColGroup', 'table': 'KTable'}


def coq_border(b):
    return "(mkb %s %s (%d)%%Z)" % (STYLE_CTOR[b[0]], qlit(Fraction(b[1])), b[2])


def coq_borders_case(r):
    boxes = '; '.join('(mktb %s %d%%nat %d%%nat %d%%nat %d%%nat %s)' % (
        KIND_CTOR[b[0]], b[1], b[2], b[3], b[4], ' '.join(coq_border(x) for x in b[5])) for b in r['boxes'])
    grid = lambda g: '[%s]' % '; '.join('[%s]' % '; '.join(coq_border(x) for x in row) for row in g)
    return '(%s, %d%%nat, %d%%nat, [%s], %s, %s)' % (blit(r['rtl']), r['gw'], r['gh'], boxes, grid(r['v']), grid(r['h']))


def coq_grid_case(t):
    rows, cells = [], []
    for g in t['groups']:
        for r in g['rows']:
            rows.append('(%s, %s)' % (qlit(Fraction(r['x'])), qlit(Fraction(r['w']))))
            for c in r['cells']:
                cells.append('(%d%%nat, %d%%nat, %s, %d%%nat, %s, %s)' % (
                    c['gx'], c['span'], qlit(Fraction(c['bp'])), c['k'], qlit(Fraction(c['x'])), qlit(Fraction(c['w']))))
    return '(%s, (%s, %s, %s), %s, %s, [%s], [%s])' % (
        blit(t['rtl']), qlit(Fraction(t['cbx'])), qlit(Fraction(t['W'])), qlit(Fraction(t['spacing'])),
        qlist(t['ws']), qlist(t['pos']), '; '.join(rows), '; '.join(cells))


def has_bad(obj):
    if isinstance(obj, str):
        return obj.startswith('bad:')
    if isinstance(obj, dict):
        return any(has_bad(v) for v in obj.values())
    if isinstance(obj, (list, tuple)):
        return any(has_bad(v) for v in obj)
    return False


PEPS = 1e-6


def fl(x):
    return float(Fraction(x))


def spacing_excess(t):
    """(sum of columns + (n+1) spacings) - table width."""
    ws = [fl(w) for w in t['ws']]
    return sum(ws) + (len(ws) + 1) * fl(t['spacing']) - fl(t['W'])


def widths_as_computed(t, records):
    """the fragment's column widths must be the output of one of the recorded auto/fixed layout calls of that table.
    Returns None if fine, 'mirrored' if they are the reverse of one (rtl), 'different' otherwise."""
    ws = [fl(w) for w in t['ws']]
    outs = [[fl(w) for w in r['out'][1]] for r in records if r.get('out')]
    same = lambda a, b: len(a) == len(b) and all(abs(x - y) < 1e-6 for x, y in zip(a, b))
    if any(same(ws, o) for o in outs):
        return None
    if any(same(ws, o[::-1]) for o in outs):
        return 'mirrored'
    return 'different' if outs else None


def monitor_fragment(t, meta, orig_cols, records, first_page):
    """Python judge of one table fragment (geometry only, no model): returns list of (clause, detail)."""
    bad = []
    ws = [fl(w) for w in t['ws']]
    s = fl(t['spacing'])
    n = len(ws)
    wc = widths_as_computed(t, records)
    if wc == 'mirrored' and t['rtl']:
        # reported finding: second table_layout of the same rtl table (after `column_widths.reverse()`) lays the
        # cells out with mirrored column widths; everything else on this fragment is a consequence
        return [('column-widths-as-computed', (t['page'], 'mirrored', t['ws']))]
    if wc:
        bad.append(('column-widths-as-computed', (t['page'], t['ws'])))
    if n and abs(spacing_excess(t)) > PEPS * max(1, fl(t['W'])):
        bad.append(('columns-plus-spacing-equal-table-width',
                    (t['W'], t['ws'], t['spacing'])))
    if any(w < -PEPS for w in ws):
        bad.append(('column-width-non-negative', t['ws']))
    # (table_layout tests the header of the whole table, displayed on this fragment or not)
    has_header = bool((meta or {}).get('head')) or any(g['header'] for g in t['groups'])
    first_body = next((r['rid'] for g in t['groups'] if not g['header'] and not g['footer'] for r in g['rows']), None)
    for g in t['groups']:
        rows = g['rows']
        for ri, r in enumerate(rows):
            ys = [fl(c['y']) for c in r['cells']]
            # a row continued from the previous page in the collapsing model below a repeated header: its cells are
            # moved down by the header's bottom border (deliberate); they still share one top
            continued = t['collapse'] and has_header and t['page'] > first_page and r['rid'] == first_body and not g['header']
            shift = (ys[0] - fl(r['y'])) if ys else 0
            if ys and max(ys) - min(ys) > PEPS:
                bad.append(('cells-share-row-top', (r['rid'], r['y'], [c['y'] for c in r['cells']])))
            elif ys and abs(shift) > PEPS and not (continued and 0 <= shift <= 10):
                bad.append(('cells-share-row-top', (r['rid'], r['y'], [c['y'] for c in r['cells']])))
            for c in r['cells']:
                if c['rowspan'] == 1:
                    if abs(fl(c['bh']) + shift - fl(r['h'])) > PEPS:
                        bad.append(('cell-height-equals-row-height', (c['cid'], c['bh'], r['h'])))
                elif ri + c['rowspan'] - 1 < len(rows):
                    last = rows[ri + c['rowspan'] - 1]
                    if abs(fl(c['y']) + fl(c['bh']) - (fl(last['y']) + fl(last['h']))) > PEPS:
                        bad.append(('rowspan-cell-ends-with-its-last-row', (c['cid'], c['y'], c['bh'], last['y'], last['h'])))
                # widest unbreakable content (auto layout only: fixed layout does not look at content)
                text = (meta or {}).get('cells', {}).get(c['cid'], '')
                if not t['fixed'] and text.split() and c['k'] >= 1 and c['gx'] + c['k'] <= n:
                    need = max(len(w) for w in text.split()) * 10 + fl(c['bp'])
                    have = sum(ws[c['gx']:c['gx'] + c['k']]) + s * (c['k'] - 1)
                    if have < need - 1e-4:
                        bad.append(('column-at-least-widest-unbreakable-content', (c['cid'], need, have)))
        for a, b in zip(rows, rows[1:]):
            if fl(b['y']) < fl(a['y']) + fl(a['h']) - PEPS:
                bad.append(('rows-do-not-overlap', (a['rid'], b['rid'])))
    return bad


def restart_pattern(parts, original):
    """reported finding: when nothing of a split cell fits on an intermediate page, table_layout resumes that cell
    from its beginning (cell_resume_at = {0: None}): what was already displayed is displayed again.  Recognised
    exactly: the runs of fragments between empty fragments each spell a prefix of the text, the last one all of it."""
    full = original.replace(' ', '')
    runs, cur = [], []
    for x in parts:
        if x == '':
            if cur:
                runs.append(''.join(cur).replace(' ', ''))
            cur = []
        else:
            cur.append(x)
    if cur:
        runs.append(''.join(cur).replace(' ', ''))
    return len(runs) >= 2 and all(full.startswith(r) for r in runs) and runs[-1] == full


def monitor_split(tabs, meta, page_h):
    """tabs: fragments of one table in page order.  Body rows once and in order (a row may be cut between two
    consecutive fragments: then every piece of text appears once), header/footer groups complete and repeated on
    every fragment where they fit together with the first row of that fragment."""
    bad = []
    frag_info = []
    body_seen = []
    for t in tabs:
        hdr = [g for g in t['groups'] if g['header']]
        ftr = [g for g in t['groups'] if g['footer']]
        body = [r for g in t['groups'] if not g['header'] and not g['footer'] for r in g['rows']]
        frag_info.append((t, hdr, ftr, body))
        body_seen.append([r['rid'] for r in body])
    expected = meta['body']
    dedup = []
    for i, l in enumerate(body_seen):
        for j, x in enumerate(l):
            if dedup and dedup[-1] == x:
                prev = next((body_seen[k] for k in range(i - 1, -1, -1) if body_seen[k]), None)
                if not (j == 0 and prev and prev[-1] == x):
                    bad.append(('body-row-repeated', x))
                continue
            dedup.append(x)
    if dedup != expected:
        missing = [x for x in expected if x not in dedup]
        bad.append(('body-rows-once-in-order', dict(missing=missing[:5], got=dedup[:8], expected=expected[:8])))
    texts = {}
    for t, hdr, ftr, body in frag_info:
        for r in body:
            for c in r['cells']:
                texts.setdefault(c['cid'], []).append(c['text'])
    for cid, parts in texts.items():
        if cid in meta['cells'] and ''.join(parts).replace(' ', '') != meta['cells'][cid].replace(' ', ''):
            bad.append(('cell-content-once',
                        (cid, parts, meta['cells'][cid])))
    hs = [fl(g['h']) for t, hdr, ftr, body in frag_info for g in hdr]
    fs = [fl(g['h']) for t, hdr, ftr, body in frag_info for g in ftr]
    for idx, (t, hdr, ftr, body) in enumerate(frag_info):
        sy = fl(t['spacing_y'])
        room = fl(t['page_bottom']) - fl(t['cby'])
        first = fl(body[0]['h']) if body else 0
        # "where they fit": judged with the heights the groups have where they are displayed; unknown (never
        # displayed anywhere) = no judgement
        known = (not meta['head'] or hs) and (not meta['foot'] or fs)
        need = (max(hs) if (meta['head'] and hs) else 0) + (max(fs) if (meta['foot'] and fs) else 0) + first + 4 * sy + 12
        if known and body and room >= need:
            if meta['head'] and not hdr and idx > 0:
                bad.append(('header-repeated-where-it-fits', dict(page=t['page'], room=room, need=need)))
            if meta['foot'] and not ftr:
                bad.append(('footer-repeated-where-it-fits', dict(page=t['page'], room=room, need=need)))
        for g in hdr:
            if [r['rid'] for r in g['rows']] != meta['head']:
                bad.append(('header-rows-complete', dict(page=t['page'])))
        for g in ftr:
            if [r['rid'] for r in g['rows']] != meta['foot']:
                bad.append(('footer-rows-complete', dict(page=t['page'])))
        if (hdr or ftr) and not body and meta['body'] and idx < len(frag_info) - 1 and frag_info[idx + 1][3]:
            bad.append(('header-or-footer-with-at-least-one-row', dict(page=t['page'])))
    return bad


# findings of this build that are not (yet) in known_findings.json: they are counted into the evidence file
# (coverage.streams.render.open_findings, with a first witness) and described in the builder's report; once listed
# as open known findings with these signatures they go through run.fail (and are printed as KNOWN-FINDING).
# Every other failed clause is a VIOLATION.
REPORTED = set()    # every finding of the build is either fixed in /repo or listed in known_findings.json


def finding(run, tally, signature, what, data):
    if signature in REPORTED and not any(k.get('signature') == signature for k in run.known):
        e = tally.setdefault(signature, {'count': 0, 'first': None})
        e['count'] += 1
        if e['first'] is None:
            e['first'] = {'what': what[:400], 'html': data.get('html', '')[:1200]}
        return
    run.fail(what, data, signature=signature)


GRID_T = 'grid_case'
BORD_T = 'bool * nat * nat * list tbox * list (list border) * list (list border)'


def render_streams(run, specs, rng, thorough):
    """specs: list of (stream name, mode, number of documents).  One pass of renders, one Coq evaluation per kind of
    record; results are accounted per stream."""
    docs = []
    for name, mode, ndocs in specs:
        for k in range(ndocs):
            d = gen_doc(rng, mode, thorough, serial=k)
            d['stream'] = name
            docs.append(d)
    judge_docs(run, specs, docs, thorough)


def judge_docs(run, specs, docs, thorough, need_all=True):
    outs = common.run_impl('impl_c10', 'render', [{'html': d['html']} for d in docs], limit=120, chunksize=2)
    cases = {'auto': [], 'fixed': [], 'grid': [], 'borders': [], 'pref': []}
    stats = {name: dict(documents=0, tables=0, fragments=0, pages=0, auto_calls=0, fixed_calls=0, border_grids=0,
                        skipped_records=0, split_tables=0, keys=set(), tally={}, oracle_bad=0, cont_rows=0)
             for name, _, _ in specs}
    for di, (d, (st, o)) in enumerate(zip(docs, outs)):
        name = d['stream']
        S = stats[name]
        S['documents'] += 1
        if st == 'timeout':
            run.fail('render timeout', {'stream': name, 'html': d['html']}, signature='timeout')
            continue
        if st == 'exc':
            run.fail('render raised %s at %s' % (o['type'], o['site']), {'stream': name, 'html': d['html'], 'exc': o},
                     signature='crash:%s' % (o['site'],))
            continue
        S['pages'] += o['pages']
        if o.get('crash'):
            cr = o['crash']
            sig = 'crash:%s' % (tuple(cr['site']) if cr['site'] else None,)
            finding(run, S['tally'], sig, 'render raised %s at %s' % (cr['type'], cr['site']),
                    {'stream': name, 'html': d['html'], 'exc': cr,
                     'doc': {k: d[k] for k in ('html', 'meta', 'mode', 'page_h', 'stream')}})
            continue
        recs = {}
        for r in o['auto']:
            if 'hook_error' in r or has_bad(r):
                S['skipped_records'] += 1
                continue
            recs.setdefault(r['tid'], []).append(r)
            if auto_near_threshold(r):          # not sent to the Coq judge (float band), still used by the monitors
                S['skipped_records'] += 1
                continue
            cases['auto'].append((di, r, coq_auto_case(r, r['out'])))
            S['auto_calls'] += 1
        for r in o['fixed']:
            if has_bad(r):
                S['skipped_records'] += 1
                continue
            recs.setdefault(r['tid'], []).append(r)
            cases['fixed'].append((di, r, coq_fixed_case(r, r['out'])))
            S['fixed_calls'] += 1
        for r in o['borders']:
            cases['borders'].append((di, r, coq_borders_case(r)))
            S['border_grids'] += 1
        for r in o.get('pref', []):
            if 'hook_error' in r or has_bad(r) or r['unmodelled']:
                S['skipped_records'] += 1
                continue
            cases['pref'].append((di, r, coq_pref(r['h'], r['columns'], r['spans'], r['out'])))
            S['pref_records'] = S.get('pref_records', 0) + 1
            if r['spans']:
                S['pref_with_colspan'] = S.get('pref_with_colspan', 0) + 1
        by_tid, orig, first_page = {}, {}, {}
        for t in o['tables']:
            orig.setdefault(t['tid'], set()).update(c['gx'] for g in t['groups'] for r in g['rows'] for c in r['cells'])
            first_page.setdefault(t['tid'], t['page'])
        for t in o['tables']:
            if has_bad(t):
                run.fail('non-finite table geometry', {'stream': name, 'html': d['html'], 'table': t['tid']}, signature='table-nonfinite')
                continue
            S['fragments'] += 1
            by_tid.setdefault(t['tid'], []).append(t)
            meta = d['meta'].get(t['tid'])
            S['keys'].add((len(t['ws']), t['rtl'], t['collapse'], t['fixed'], len(t['groups'])))
            bad = monitor_fragment(t, meta, orig[t['tid']], recs.get(t['tid'], []), first_page[t['tid']])
            cases['grid'].append((di, t, coq_grid_case(t)))
            seen = set()
            for clause, detail in bad:
                if clause in seen:
                    continue
                seen.add(clause)
                finding(run, S['tally'], 'table-geom:%s' % clause, 'table geometry clause %s fails: %s' % (clause, detail),
                        {'stream': name, 'html': d['html'], 'clause': clause, 'table': t['tid'], 'page': t['page'], 'detail': detail,
                         'doc': {k: d[k] for k in ('html', 'meta', 'mode', 'page_h', 'stream')}})
        S['tables'] += len(by_tid)
        for tid, tabs in by_tid.items():
            meta = d['meta'].get(tid)
            if meta is None or len(tabs) < 2:
                continue
            S['split_tables'] += 1
            seen = set()
            for clause, detail in monitor_split(tabs, meta, d['page_h']):
                if clause in seen:
                    continue
                seen.add(clause)
                finding(run, S['tally'], 'table-split:%s' % clause, 'split table clause %s fails: %s' % (clause, detail),
                        {'stream': name, 'html': d['html'], 'clause': clause, 'table': tid, 'detail': detail,
                         'doc': {k: d[k] for k in ('html', 'meta', 'mode', 'page_h', 'stream')}})
    for tag, ty, judge, what in (('auto', AUTO_T, 'auto_judge_r', 'auto_table_layout (recorded call)'),
                                 ('fixed', FIXED_T, 'fixed_judge_r', 'fixed_table_layout (recorded call)'),
                                 ('grid', GRID_T, 'grid_judge', 'column positions and cell extents'),
                                 ('borders', BORD_T, 'borders_judge', 'collapsed_border_grid'),
                                 ('pref', PREF_T, 'pref_judge_r', 'column part of table_and_columns_preferred_widths, inputs = '
                                  'content widths of the individual cells')):
        cs = cases[tag]
        if not cs:
            if need_all:
                run.oblige('corr:render/%s' % tag, False, 'no record of this kind was produced')
            continue
        try:
            masks = common.eval_cases('c10r' + tag, PRE, ty, [c for _, _, c in cs], judge,
                                      per_file=max(10, min(200, len(cs) // common.NCPU + 1)))
        except RuntimeError as exc:
            run.oblige('corr:render/%s' % tag, False, str(exc))
            continue
        mism = [(docs[di]['html'], {k: v for k, v in r.items() if k != 'groups'}) for (di, r, _), m in zip(cs, masks) if m & 1]
        run.oblige('corr:render/%s(model vs implementation in full renders: %s)' % (tag, what), not mism,
                   'first disagreement: %s' % json.dumps(mism[:1], default=str)[:3000])
        nspec = 0
        for (di, r, _), m in zip(cs, masks):
            S = stats[docs[di]['stream']]
            if tag == 'auto' and m & 4:
                S['oracle_bad'] += 1
            if m & 2:
                sig = '%s-spec' % tag
                if nspec >= 2:
                    continue
                else:
                    nspec += 1
                finding(run, S['tally'], sig, '%s: implementation output violates the specification' % what,
                        {'stream': docs[di]['stream'], 'kind': tag, 'html': docs[di]['html'],
                         'record': {k: v for k, v in r.items() if k != 'groups'},
                         'doc': {k: docs[di][k] for k in ('html', 'meta', 'mode', 'page_h', 'stream')}})
        run.count('render/' + tag, len(cs), [(tag, i) for i in range(len(cs))])
        run.stream_info('render/' + tag, rule='records of kind %s collected in the render streams, judged in Coq by %s' % (tag, judge))
    for name, mode, ndocs in specs:
        if mode != 'colspan':
            continue
        seen = set()
        for d in docs:
            if d['stream'] != name:
                continue
            for m in d['meta'].values():
                for (x, span, n) in m.get('span_positions', []):
                    where = 'first' if x == 0 else ('last' if x + span == n else 'middle')
                    seen.add((m['profile'], m['rtl'], where))
        want = [(pr, rtl, w) for pr in PROFILES for rtl in (False, True) for w in ('first', 'last')]
        missing = [w for w in want if w not in seen]
        run.oblige('coverage:%s colspan cells in the first and in later columns, every column profile, ltr and rtl' % name,
                   not missing, 'missing: %s' % missing)
    first = {}
    for d in docs:
        first.setdefault(d['stream'], d['html'])
    for name, mode, ndocs in specs:
        S = stats[name]
        run.count(name, S['documents'], S['keys'], samples=[first[name][:700]])
        run.stream_info(name, rule='generated tables (1..6 columns x 1..%d rows, thead/tbody/tfoot, col/colgroup widths px/%%/auto, '
                        'colspan/rowspan tilings, cell widths, paddings, borders, spacing, both border models, both algorithms, '
                        'captions, ltr/rtl, container widths 120..700); mode %s; distinct = (columns, rtl, collapse, fixed, groups)'
                        % (40 if (thorough or mode == 'split') else 12, mode),
                        tables=S['tables'], fragments=S['fragments'], pages=S['pages'], split_tables=S['split_tables'],
                        auto_calls=S['auto_calls'], fixed_calls=S['fixed_calls'], border_grids=S['border_grids'],
                        skipped_records=S['skipped_records'], oracle_hypotheses_violated=S['oracle_bad'],
                        pref_records=S.get('pref_records', 0), pref_records_with_colspan=S.get('pref_with_colspan', 0),
                        open_findings=S['tally'])


DIST_T = 'nat * nat * Q * list col * option (list Q)'
FIXED_T = 'Q * Q * list decl * list fcell * option (Q * list Q)'
AUTO_T = 'option Q * (Q * Q * Q * Q) * list acol * option (Q * list Q)'


def pref_stream(run, cases):
    """direct calls of table_and_columns_preferred_widths on stub tables (exact rationals)."""
    name = 'pref-direct'
    outs = common.run_impl('impl_c10', 'pref', cases)
    coq_cases, kept = [], []
    for c, (st, o) in zip(cases, outs):
        if st == 'timeout':
            run.fail('pref timeout', {'stream': name, 'case': c}, signature='timeout')
            continue
        coq_cases.append(coq_pref_case(c, o if st == 'ok' else None))
        kept.append((c, o if st == 'ok' else None, o if st != 'ok' else None))
    try:
        masks = common.eval_cases('c10pref', PRE, PREF_T, coq_cases, 'pref_judge',
                                  per_file=max(25, len(coq_cases) // common.NCPU + 1))
    except RuntimeError as exc:
        run.oblige('corr:' + name, False, str(exc))
        return
    mism = [(c, o) for (c, o, _), m in zip(kept, masks) if m & 1]
    run.oblige('corr:pref-direct(model vs CPython, exact rationals: column part of table_and_columns_preferred_widths)',
               not mism, 'first disagreements: %s' % json.dumps(mism[:2])[:3000])
    nfail = 0
    for (c, o, exc), m in zip(kept, masks):
        what = None
        if o is None:
            what = 'table_and_columns_preferred_widths raised %s' % (exc,)
        elif m & 2:
            what = 'a colspan cell does not fit in the columns it spans plus the horizontal spacings between them'
        else:
            # table min-content width = columns + (n+1) horizontal spacings, n = every column of the grid, with or
            # without an originating cell
            h = Fraction(0) if c['collapse'] else Fraction(c['h'])
            mins, ths, tmin = [Fraction(x) for x in o[0]], Fraction(o[4]), Fraction(o[5])
            if ths != h * (len(mins) + 1) or tmin != sum(mins) + ths:
                what = 'table min-content width %s is not columns %s + (n+1) x horizontal spacing %s' % (tmin, sum(mins), h)
        if what and nfail < 2:
            nfail += 1
            run.fail('pref-direct: ' + what, {'stream': name, 'case': c, 'impl_output': o}, signature='pref-spec')
    run.count(name, len(kept), [pref_key(c) for c, _, _ in kept], samples=[{'case': kept[0][0], 'impl': kept[0][1]}])
    # colspan cells must start in column 0 and in later columns, for every column profile and both spacing orders
    seen = set()
    for c, _, _ in kept:
        hv = 'h<v' if Fraction(c['h']) < Fraction(c['v']) else 'h>v' if Fraction(c['h']) > Fraction(c['v']) else 'h=v'
        for row in c['rows']:
            for cell in row:
                if cell['span'] > 1 and Fraction(cell['cmin']) >= 150:
                    seen.add((c['profile'], cell['gx'] > 0, hv))
    want = [(pr, off, hv) for pr in PROFILES for off in (False, True) for hv in ('h<v', 'h>v')]
    missing = [w for w in want if w not in seen]
    run.oblige('coverage:pref-direct wide colspan cells at grid_x = 0 and > 0, every column profile, both spacing orders',
               not missing, 'missing: %s' % missing)
    run.stream_info(name, rule='stub tables: first row of span-1 cells (profiles auto / all constrained / percentage / mixed), rows of '
                    'colspan cells starting in every column position (75%% wider than their columns), col/colgroup elements, '
                    'two-value border-spacing from %s, 12%% collapsing; distinct = (profile, (grid_x, span) of the colspan cells, '
                    'spacing order, collapse)' % (SPACINGS,), combinations=len(seen))


def corpus_stage(run):
    """minimised documents: witnesses of the findings reported by this build (they must stay recognised exactly as
    such, or stop failing), and regression cases."""
    import os, glob
    files = sorted(glob.glob(os.path.join(common.VERIF, 'corpus', 'C10', '*.json')))
    if not files:
        return
    items = [json.load(open(f)) for f in files]
    docs = [dict(it['doc'], stream='corpus') for it in items]
    judge_docs(run, [('corpus', 'corpus', len(docs))], docs, False, need_all=False)
    st = run.cov['streams'].get('corpus', {})
    got = set((st.get('open_findings') or {}).keys())
    expected = set(x for it in items for x in it.get('expect', []))
    run.stream_info('corpus', witnesses_still_reproducing=sorted(got & expected), witnesses_no_longer_reproducing=sorted(expected - got))


def check(run):
    rng = random.Random(run.seed * 7919 + 10)
    thorough = run.tier == 'thorough'
    common.prove(run, 'C10', ['model/C10Distribute.vo', 'model/C10Layout.vo', 'model/C10Grid.vo', 'model/C10Borders.vo',
                              'model/C10Preferred.vo', 'gen/GenTable.vo', 'proofs/C10_gen_env.vo',
                              'proofs/C10_gen_fixed_model.vo', 'proofs/C10_gen_fixed_run.vo', 'proofs/C10_gen_fixed.vo',
                              'proofs/C10_gen_head.vo'])
    run.trusted += ['Coq 8.16.1 kernel (coqc); vm_compute for the cases.v evaluation',
                    'translator tools/py2coq.py + interpreter coq/base/Py.v for the regenerated statements of '
                    'fixed_table_layout (gen/GenTable.v: num_columns and the fresh list column_widths; from the choice of '
                    'border_spacing_x to the end); the other statements before that slice (wrapped table, all_columns, '
                    'first_row_cells, the <col> loop storing the <col> widths) are '
                    'covered by the hand model and the fixed-direct stream only',
                    'hand-written Gallina models of distribute_excess_width, fixed_table_layout, auto_table_layout, '
                    'column positions / cell extents and the border conflict fold: tied to /repo by the correspondence streams of every run',
                    'harness stubs (Fraction inputs), the render extraction code of impl_c10.py and the Python monitors']
    run.assumptions += ['C10_source_*: resolve_percentages(cell, table) is an oracle that answers the cell with its used '
                        'width (auto or a number) and colspan; cell.border_width() is answered by ocall; the colspan of a first-row '
                        'cell is a natural number, the same before and after resolve_percentages',
                        'min/max-content widths, intrinsic percentages and constrainedness (preferred.py) are oracle inputs of the proved kernels; '
                        'theorems on auto layout assume 0 <= min <= max per column and table min >= spacing + sum of mins (measured on every render)',
                        'row heights / vertical placement and header/footer repetition are monitored, not proved']
    n = 8 if thorough else 1
    direct_stream(run, 'dist-direct', 'dist', gen_dist(rng, 1000 * n), coq_dist_case, DIST_T, 'dist_judge',
                  lambda c: (dist_group(c), len(c['cols']), c['start'], c['stop'], bool(c.get('alias'))),
                  'all pairs of 8 column kinds x 5 slices, then random columns (profiles steer which of the six groups exist), '
                  'random slices incl. empty/out of range, aliasing of widths and max-content list as in preferred.py')
    direct_stream(run, 'fixed-direct', 'fixed', gen_fixed(rng, 800 * n), coq_fixed_direct_case, 'Q * (%s)' % FIXED_T, 'fixed_judge_t',
                  lambda c: (len(c['cols']), tuple(x['span'] for x in (c['cells'] or [])), c['collapse']),
                  'stub tables: 0..6 col elements auto/px/%, first row of 1..6 cells with colspan 1..3, widths auto/px/%, '
                  'paddings and borders, spacing, separate/collapse, table widths from too small to too large')
    direct_stream(run, 'auto-direct', 'auto', gen_auto(rng, 1000 * n), coq_auto_case, AUTO_T, 'auto_judge',
                  lambda c: (len(c['cols']), c['tw'] == 'auto', c['ml'] == 'auto', auto_branch(c)),
                  'stub context with an injected oracle: 0..6 columns, min<=max (10% deliberately insane), percentages, '
                  'constrained flags; table width below min / between guesses / exactly at a guess / above max',
                  skip=auto_near_threshold)
    pref_stream(run, gen_pref(rng, 576 * n))
    corpus_stage(run)
    render_streams(run, [('render-layout', 'layout', 90 * n), ('render-borders', 'borders', 60 * n),
                         ('render-split', 'split', 30 * n), ('render-colspan', 'colspan', 48 * n)], rng, thorough)
    # every group of distribute_excess_width must have been exercised with a slice that does not start at 0
    groups = set((k[1][0], k[1][2] > 0) for k in run.distinct if k[0] == 'dist-direct')
    missing = [g for g in (1, 2, 3, 4, 5) if (g, True) not in groups]
    run.oblige('coverage:dist-direct every group taken with slice start > 0', not missing, 'groups never taken with start > 0: %s' % missing)


def replay(data):
    d = data.get('data', {})
    st = d.get('stream')
    table = {'dist-direct': ('dist', coq_dist_case, DIST_T, 'dist_judge'),
             'fixed-direct': ('fixed', coq_fixed_direct_case, 'Q * (%s)' % FIXED_T, 'fixed_judge_t'),
             'auto-direct': ('auto', coq_auto_case, AUTO_T, 'auto_judge'),
             'pref-direct': ('pref', coq_pref_case, PREF_T, 'pref_judge')}
    if st in table:
        fn, to_coq, ty, judge = table[st]
        (s, o), = common.run_impl('impl_c10', fn, [d['case']])
        print('replay: impl output', s, o)
        m = common.eval_cases('c10replay', PRE, ty, [to_coq(d['case'], o if s == 'ok' else None)], judge)
        print('judge mask', m)
        return 1 if m[0] else 0
    doc = d.get('doc')
    if doc is None and d.get('html'):
        doc = dict(html=d['html'], meta={}, mode='layout', page_h=200000, stream=st or 'render-layout')
    if doc is not None:
        run = common.Run('C10', 'quick', 0)
        run.known = []
        REPORTED.clear()                       # in a replay every failed clause counts
        judge_docs(run, [(doc['stream'], doc['mode'], 1)], [doc], False, need_all=False)
        for v in run.violations:
            print('replay:', v['what'][:500])
        broken = [n for n, ok, _ in run.obligations if not ok]
        for n in broken:
            print('replay: broken obligation', n)
        return 1 if (run.violations or broken) else 0
    print('nothing to replay for', st)
    return 0
