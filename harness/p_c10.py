"""C10 - tables: grid geometry, width distribution, repeated headers, collapsed borders."""
import random, itertools, math, json
from fractions import Fraction
import common
from common import qlit

PRE = ('From Coq Require Import QArith List Bool.\n'
       'Require Import WV.model.C10Distribute WV.model.C10Layout WV.model.C10Grid WV.model.C10Borders.\n'
       'Import ListNotations.\nOpen Scope Q_scope.\n')


def blit(b):
    return 'true' if b else 'false'


def qlist(l):
    return '[%s]' % '; '.join(qlit(Fraction(x)) for x in l)


# ------------------------------------------------------------------------------ stream 1: distribute direct

def rq(rng, lo, hi, dens=(1, 1, 1, 2, 3, 4)):
    return str(Fraction(rng.randint(lo, hi), rng.choice(dens)))


def gen_dist_col(rng, profile):
    """[cell, cons, pct, max, w] ; profile steers which groups exist."""
    cell = 1 if rng.random() < 0.8 else 0
    cons = 1 if rng.random() < profile['cons'] else 0
    r = rng.random()
    if r < profile['pct']:
        pct = rq(rng, 1, 60)
    elif r < profile['pct'] + profile['negpct']:
        pct = rq(rng, -30, -1)
    else:
        pct = '0'
    mx = '0' if rng.random() < profile['zero'] else rq(rng, 1, 300)
    w = rq(rng, 0, 300) if rng.random() < 0.7 else mx
    return [cell, cons, pct, mx, w]


def gen_dist(rng, n):
    cases = []
    # exhaustive small part: every combination of 3 column kinds x slices
    kinds = [[1, 0, '0', '30', '20'], [1, 0, '0', '0', '0'], [1, 1, '0', '40', '40'], [1, 1, '0', '0', '5'],
             [1, 0, '25', '50', '10'], [1, 0, '25', '0', '10'], [0, 1, '-5', '0', '3'], [0, 0, '10', '7', '7']]
    for a, b in itertools.product(kinds, kinds):
        for sl in ((0, None), (1, 2), (0, 1), (2, 5), (1, 1)):
            cases.append(dict(e='12', cols=[a, b], start=sl[0], stop=sl[1], alias=False))
    while len(cases) < n:
        profile = dict(cons=rng.choice([0, 0.3, 0.6, 1]), pct=rng.choice([0, 0, 0.3, 1]),
                       negpct=rng.choice([0, 0, 0.1]), zero=rng.choice([0, 0.2, 0.6, 1]))
        k = rng.choice([1, 2, 3, 4, 6, 9])
        cols = [gen_dist_col(rng, profile) for _ in range(k)]
        r = rng.random()
        if r < 0.4:
            start, stop = 0, None
        elif r < 0.9:
            start = rng.randint(0, k - 1)
            stop = rng.randint(start, k + 1)
        else:
            start, stop = rng.randint(0, k + 2), rng.choice([None, 0, k])
        e = rq(rng, 0, 400) if rng.random() < 0.9 else rq(rng, -50, -1)
        cases.append(dict(e=e, cols=cols, start=start, stop=stop, alias=rng.random() < 0.2))
    return cases


def coq_col(c, alias=False):
    return '(mkcol %s %s %s %s %s)' % (blit(c[0]), blit(c[1]), qlit(Fraction(c[2])), qlit(Fraction(c[3])),
                                       qlit(Fraction(c[3] if alias else c[4])))


def coq_dist_case(c, out):
    k = len(c['cols'])
    stop = k + 5 if c['stop'] is None else c['stop']
    o = '(Some %s)' % qlist(out) if out is not None else 'None'
    return '(%d%%nat, %d%%nat, %s, [%s], %s)' % (
        c['start'], stop, qlit(Fraction(c['e'])), '; '.join(coq_col(x, c.get('alias')) for x in c['cols']), o)


def dist_group(c):
    """which of the six groups the case exercises (computed independently, for coverage accounting)."""
    cols = c['cols'][c['start']:c['stop']]
    mx = lambda x: Fraction(x[3])
    pc = lambda x: Fraction(x[2])
    if any(not x[1] and pc(x) == 0 and mx(x) > 0 for x in cols):
        return 1
    if any(not x[1] and pc(x) == 0 for x in cols):
        return 2
    if any(x[1] and pc(x) == 0 and mx(x) > 0 for x in cols):
        return 3
    if any(pc(x) > 0 and mx(x) > 0 for x in cols):
        return 4
    return 5 if cols else 0


# ------------------------------------------------------------------------------ stream 2: fixed direct

def gen_decl(rng, pauto=0.4):
    r = rng.random()
    if r < pauto:
        return 'auto'
    if r < pauto + 0.15:
        return ['%', rq(rng, 0, 60)]
    return ['px', rq(rng, 0, 120)]


def gen_fixed(rng, n):
    cases = [dict(W='50', spacing='4', collapse=False, cols=[], cells=None),
             dict(W='3', spacing='4', collapse=False, cols=[], cells=None),
             dict(W='50', spacing='0', collapse=False, cols=[['px', '100'], 'auto'],
                  cells=[dict(span=2, width=['px', '50'], pl='0', pr='0', bl='0', br='0')])]
    while len(cases) < n:
        ncols = rng.choice([0, 0, 1, 2, 3, 4, 6])
        cols = [gen_decl(rng, rng.choice([0.2, 0.5, 0.9])) for _ in range(ncols)]
        if rng.random() < 0.1:
            cells = None
        else:
            cells = []
            for _ in range(rng.choice([1, 1, 2, 3, 4, 6])):
                cells.append(dict(span=rng.choice([1, 1, 1, 2, 3]), width=gen_decl(rng, 0.5),
                                  pl=rq(rng, 0, 5), pr=rq(rng, 0, 5), bl=rq(rng, 0, 3), br=rq(rng, 0, 3)))
        collapse = rng.random() < 0.3
        cases.append(dict(W=rq(rng, 0, 600), spacing=rq(rng, 0, 8) if rng.random() < 0.7 else '0',
                          collapse=collapse, cols=cols, cells=cells))
    return cases


def coq_decl(d):
    if d == 'auto':
        return 'DAuto'
    return '(%s %s)' % ('DPx' if d[0] == 'px' else 'DPct', qlit(Fraction(d[1])))


def coq_out(o):
    if o is None:
        return 'None'
    return '(Some (%s, %s))' % (qlit(Fraction(o[0])), qlist(o[1]))


def coq_fixed_case(c, out):
    spacing = Fraction(0) if c['collapse'] else Fraction(c['spacing'])
    cells = c['cells'] or []
    return '(%s, %s, [%s], [%s], %s)' % (
        qlit(Fraction(c['W'])), qlit(spacing), '; '.join(coq_decl(d) for d in c['cols']),
        '; '.join('(mkfcell %d%%nat %s %s)' % (x['span'], coq_decl(x['width']),
                                               qlit(sum(Fraction(x[k]) for k in ('pl', 'pr', 'bl', 'br'))))
                  for x in cells), coq_out(out))


# ------------------------------------------------------------------------------ stream 3: auto direct

def gen_auto(rng, n):
    cases = []
    while len(cases) < n:
        k = rng.choice([0, 1, 1, 2, 3, 4, 6])
        cols = []
        prof = dict(cons=rng.choice([0, 0.3, 1]), pct=rng.choice([0, 0, 0.3, 0.7]), zero=rng.choice([0, 0.2]))
        sane = rng.random() < 0.9
        for _ in range(k):
            mn = Fraction(rq(rng, 0, 80))
            mx = mn + Fraction(rq(rng, 0, 200)) if rng.random() < 0.8 else mn
            if rng.random() < prof['zero']:
                mn = mx = Fraction(0)
            if not sane and rng.random() < 0.3:
                mn, mx = mx + 1, mn
            pct = rq(rng, 1, 70) if rng.random() < prof['pct'] else '0'
            cols.append([1 if rng.random() < 0.9 else 0, 1 if rng.random() < prof['cons'] else 0, pct, str(mx), str(mn)])
        ths = Fraction(rq(rng, 0, 30)) if k else Fraction(0)
        smin = sum(Fraction(c[4]) for c in cols)
        smax = sum(Fraction(c[3]) for c in cols)
        tmin = ths + smin + (Fraction(rq(rng, 0, 50)) if rng.random() < 0.3 else 0)
        tmax = max(tmin, ths + smax + (Fraction(rq(rng, 0, 300)) if rng.random() < 0.4 else 0))
        if not sane and rng.random() < 0.3:
            tmin = max(Fraction(0), tmin - 5)
        lo, hi = int(tmin) - 20, int(tmax) + 60
        r = rng.random()
        # the table width lands below min, between the guesses, at a guess exactly, or above max
        target = rng.choice([tmin, tmax, ths + smin, ths + smax]) if r < 0.25 else Fraction(rng.randint(lo, hi), rng.choice([1, 1, 2, 3]))
        if rng.random() < 0.5:
            tw, cb = 'auto', target
        else:
            tw, cb = str(max(target, 0)), Fraction(rng.randint(0, 500))
        ml = 'auto' if rng.random() < 0.3 else rq(rng, -5, 20)
        mr = 'auto' if rng.random() < 0.3 else rq(rng, 0, 20)
        pl, pr, bl, br = (rq(rng, 0, 6) for _ in range(4))
        extra = sum(Fraction(x) for x in (pl, pr, bl, br)) + sum(Fraction(x) for x in (ml, mr) if x != 'auto')
        cases.append(dict(tw=tw, cb=str(cb + extra), ml=ml, mr=mr, pl=pl, pr=pr, bl=bl, br=br, tmin=str(tmin),
                          tmax=str(tmax), ths=str(ths), cols=cols))
    return cases


def auto_avail(c):
    extra = sum(Fraction(c[x]) for x in ('pl', 'pr', 'bl', 'br')) + sum(Fraction(c[x]) for x in ('ml', 'mr') if c[x] != 'auto')
    return Fraction(c['cb']) - extra


def auto_near_threshold(c):
    """True when some guess sum is inside the 1e-9 band around the assignable width without being equal to it
    (there the float product of the source is not modelled exactly): such cases are skipped and counted."""
    tmin, tmax, ths = Fraction(c['tmin']), Fraction(c['tmax']), Fraction(c['ths'])
    avail = auto_avail(c)
    if c['tw'] == 'auto':
        W = tmin if avail <= tmin else (avail if avail < tmax else tmax)
    else:
        W = max(Fraction(c['tw']), tmin)
    A = W - ths
    sums = []
    for g in range(4):
        s = Fraction(0)
        for cell, cons, pct, mx, mn in c['cols']:
            pct, mx, mn = Fraction(pct), Fraction(mx), Fraction(mn)
            if pct != 0:
                v = max(pct / 100 * A, mn) if g else mn
            else:
                v = mn if g == 0 or g == 1 or (g == 2 and not cons) else mx
            s += v
        sums.append(s)
    return any(s != A and abs(s - A) <= abs(A) * Fraction(3, 10 ** 9) for s in sums) or A < 0


def coq_acol(c):
    return '(mkacol %s %s %s %s %s)' % (blit(c[0]), blit(c[1]), qlit(Fraction(c[2])), qlit(Fraction(c[3])), qlit(Fraction(c[4])))


def coq_auto_case(c, out):
    tw = 'None' if c['tw'] == 'auto' else '(Some %s)' % qlit(Fraction(c['tw']))
    return '(%s, (%s, %s, %s, %s), [%s], %s)' % (
        tw, qlit(auto_avail(c)), qlit(Fraction(c['tmin'])), qlit(Fraction(c['tmax'])), qlit(Fraction(c['ths'])),
        '; '.join(coq_acol(x) for x in c['cols']), coq_out(out))


def direct_stream(run, name, fn, cases, to_coq, case_type, judge, keyf, rule, skip=None):
    outs = common.run_impl('impl_c10', fn, cases)
    coq_cases, kept, skipped, raised = [], [], 0, 0
    for c, (st, o) in zip(cases, outs):
        if skip is not None and skip(c):
            skipped += 1
            continue
        if st == 'timeout':
            run.fail('%s timeout' % fn, {'stream': name, 'case': c}, signature='timeout')
            continue
        if st == 'exc':
            raised += 1
            o = None
        coq_cases.append(to_coq(c, o)); kept.append((c, o))
    try:
        masks = common.eval_cases('c10' + fn, PRE, case_type, coq_cases, judge)
    except RuntimeError as exc:
        run.oblige('corr:' + name, False, str(exc))
        return
    mism = [(c, o) for (c, o), m in zip(kept, masks) if m & 1]
    specbad = [(c, o) for (c, o), m in zip(kept, masks) if m & 2]
    run.oblige('corr:%s(model vs CPython, exact rationals)' % name, not mism, 'first disagreements: %s' % mism[:3])
    for c, o in specbad[:2]:
        run.fail('%s output violates its specification' % fn, {'stream': name, 'case': c, 'impl_output': o},
                 signature='%s-spec' % name)
    run.count(name, len(kept), [keyf(c) for c, _ in kept], samples=[{'case': kept[0][0], 'impl': kept[0][1]}])
    run.stream_info(name, rule=rule, skipped_near_float_threshold=skipped, raised=raised)


DIST_T = 'nat * nat * Q * list col * option (list Q)'
FIXED_T = 'Q * Q * list decl * list fcell * option (Q * list Q)'
AUTO_T = 'option Q * (Q * Q * Q * Q) * list acol * option (Q * list Q)'


def check(run):
    rng = random.Random(run.seed * 7919 + 10)
    thorough = run.tier == 'thorough'
    common.prove(run, 'C10', ['model/C10Distribute.vo', 'model/C10Layout.vo', 'model/C10Grid.vo', 'model/C10Borders.vo'])
    run.trusted += ['Coq 8.16.1 kernel (coqc); vm_compute for the cases.v evaluation',
                    'hand-written Gallina models of distribute_excess_width, fixed_table_layout, auto_table_layout, '
                    'column positions / cell extents and the border conflict fold: tied to /repo by the correspondence streams of every run',
                    'harness stubs (Fraction inputs), the render extraction code of impl_c10.py and the Python monitors']
    run.assumptions += ['min/max-content widths, intrinsic percentages and constrainedness (preferred.py) are oracle inputs of the proved kernels; '
                        'theorems on auto layout assume 0 <= min <= max per column and table min >= spacing + sum of mins (measured on every render)',
                        'row heights / vertical placement and header/footer repetition are monitored, not proved']
    n = 4 if thorough else 1
    direct_stream(run, 'dist-direct', 'dist', gen_dist(rng, 1500 * n), coq_dist_case, DIST_T, 'dist_judge',
                  lambda c: (dist_group(c), len(c['cols']), c['start'], c['stop'], bool(c.get('alias'))),
                  'all pairs of 8 column kinds x 5 slices, then random columns (profiles steer which of the six groups exist), '
                  'random slices incl. empty/out of range, aliasing of widths and max-content list as in preferred.py')
    direct_stream(run, 'fixed-direct', 'fixed', gen_fixed(rng, 1200 * n), coq_fixed_case, FIXED_T, 'fixed_judge',
                  lambda c: (len(c['cols']), tuple(x['span'] for x in (c['cells'] or [])), c['collapse']),
                  'stub tables: 0..6 col elements auto/px/%, first row of 1..6 cells with colspan 1..3, widths auto/px/%, '
                  'paddings and borders, spacing, separate/collapse, table widths from too small to too large')
    direct_stream(run, 'auto-direct', 'auto', gen_auto(rng, 1500 * n), coq_auto_case, AUTO_T, 'auto_judge',
                  lambda c: (len(c['cols']), c['tw'] == 'auto', c['ml'] == 'auto'),
                  'stub context with an injected oracle: 0..6 columns, min<=max (10% deliberately insane), percentages, '
                  'constrained flags; table width below min / between guesses / exactly at a guess / above max',
                  skip=auto_near_threshold)


def replay(data):
    d = data.get('data', {})
    st = d.get('stream')
    table = {'dist-direct': ('dist', coq_dist_case, DIST_T, 'dist_judge'),
             'fixed-direct': ('fixed', coq_fixed_case, FIXED_T, 'fixed_judge'),
             'auto-direct': ('auto', coq_auto_case, AUTO_T, 'auto_judge')}
    if st in table:
        fn, to_coq, ty, judge = table[st]
        (s, o), = common.run_impl('impl_c10', fn, [d['case']])
        print('replay: impl output', s, o)
        m = common.eval_cases('c10replay', PRE, ty, [to_coq(d['case'], o if s == 'ok' else None)], judge)
        print('judge mask', m)
        return 1 if m[0] else 0
    print('nothing to replay for', st)
    return 0
