"""Implementation-side functions for C14 (run in worker processes; weasyprint imported from REPO)."""
import copy, re
from collections import defaultdict
from fractions import Fraction
from types import SimpleNamespace as NS


# ---------------------------------------------------------------------------------------- selectors, cascade

def _sel(s):
    from weasyprint.css import PageSelectorType
    side, blank, first, index, name = s
    return PageSelectorType(side, blank, first, tuple(index) if index is not None else None, name)


def _pt(p):
    from weasyprint.layout.page import PageType
    side, blank, name, index, groups = p
    return PageType(side, blank, name, index, tuple(tuple(g) for g in groups))


def page_match(case):
    """case: dict(sel=[side, blank, first, index, name], pt=[side, blank, name, index, groups]) -> bool"""
    from weasyprint.css import StyleFor
    return bool(StyleFor._page_type_match(_sel(case['sel']), _pt(case['pt'])))


def nth_block(case):
    """case: dict(a=.., b=.., n=..) -> list of bool for index 0..n-1 (selector with :nth only)"""
    from weasyprint.css import StyleFor
    sel = _sel([None, None, None, [case['a'], case['b'], None], None])
    return [bool(StyleFor._page_type_match(sel, _pt(['right', False, '', i, []]))) for i in range(case['n'])]


def parse_selectors(case):
    """case: dict(prelude=str) -> None or list of dicts as parse_page_selectors returns them"""
    import tinycss2
    from weasyprint.css import parse_page_selectors
    rules = tinycss2.parse_stylesheet('@page %s { margin: 1px }' % case['prelude'], skip_comments=True,
                                      skip_whitespace=True)
    rule, = rules
    data = parse_page_selectors(rule)
    if data is None:
        return None
    out = []
    for d in data:
        out.append(dict(side=d['side'], blank=d['blank'], first=d['first'],
                        index=list(d['index']) if d['index'] is not None else None, name=d['name'],
                        specificity=list(d['specificity'])))
    return out


def cascade(case):
    """case: dict(sheets=[dict(origin, ss, rules=[dict(selectors=[[spec, pseudo, sel]], decls=[[name, value, imp]])])],
    pt=...) -> sorted list of [pseudo, name, value, precedence, specificity] of the dictionary built by the real
    add_page_declarations on a stub StyleFor"""
    from weasyprint.css import StyleFor
    sheets = []
    for sh in case['sheets']:
        page_rules = []
        for r in sh['rules']:
            selector_list = [(list(sp), pseudo, _sel(sel)) for sp, pseudo, sel in r['selectors']]
            declarations = [(name, value, bool(imp)) for name, value, imp in r['decls']]
            page_rules.append((None, selector_list, declarations))
        sheets.append((NS(page_rules=page_rules), sh['origin'], list(sh['ss']) if sh['ss'] is not None else None))
    stub = NS(_sheets=sheets, _cascaded_styles={}, _page_type_match=StyleFor._page_type_match)
    page_type = _pt(case['pt'])
    for _ in range(case.get('times', 1)):
        StyleFor.add_page_declarations(stub, page_type)
    out = []
    for (pt, pseudo), style in stub._cascaded_styles.items():
        assert pt == page_type
        for name, (value, (precedence, spec)) in style.items():
            out.append([pseudo, name, value, precedence, list(spec)])
    return out


# ------------------------------------------------------------------------------------- box arithmetic (exact)

def _v(x):
    return 'auto' if x == 'auto' else Fraction(x)


def _s(x):
    return 'auto' if x == 'auto' else str(Fraction(x)) if not isinstance(x, float) else str(Fraction(x))


def pwh(case):
    """page_width (handle_min_max_width(page_width_or_height)) on a stub; case: cb, pb, ma, inner, mb, minw, maxw"""
    from weasyprint.layout import page
    box = NS(width=_v(case['inner']), margin_left=_v(case['ma']), margin_right=_v(case['mb']),
             padding_left=Fraction(case['pb']), padding_right=Fraction(0), border_left_width=Fraction(0),
             border_right_width=Fraction(0), min_width=Fraction(case['minw']),
             max_width=(float('inf') if case['maxw'] == 'inf' else Fraction(case['maxw'])))
    if case.get('vertical'):
        box = NS(height=_v(case['inner']), margin_top=_v(case['ma']), margin_bottom=_v(case['mb']),
                 padding_top=Fraction(case['pb']), padding_bottom=Fraction(0), border_top_width=Fraction(0),
                 border_bottom_width=Fraction(0), min_height=Fraction(case['minw']),
                 max_height=(float('inf') if case['maxw'] == 'inf' else Fraction(case['maxw'])))
        page.page_height(box, None, Fraction(case['cb']))
        return [_s(box.margin_top), _s(box.height), _s(box.margin_bottom)]
    page.page_width(box, None, Fraction(case['cb']))
    return [_s(box.margin_left), _s(box.width), _s(box.margin_right)]


def cfd(case):
    """compute_fixed_dimension on a stub; case: outer, pb, ma, inner, mb, tol, vertical"""
    from weasyprint.layout import page
    if case.get('vertical'):
        box = NS(height=_v(case['inner']), margin_top=_v(case['ma']), margin_bottom=_v(case['mb']),
                 padding_top=Fraction(case['pb']), padding_bottom=Fraction(0), border_top_width=Fraction(0),
                 border_bottom_width=Fraction(0))
        page.compute_fixed_dimension(None, box, Fraction(case['outer']), True, bool(case['tol']))
        return [_s(box.margin_top), _s(box.height), _s(box.margin_bottom)]
    box = NS(width=_v(case['inner']), margin_left=_v(case['ma']), margin_right=_v(case['mb']),
             padding_left=Fraction(0), padding_right=Fraction(case['pb']), border_left_width=Fraction(0),
             border_right_width=Fraction(0))
    page.compute_fixed_dimension(None, box, Fraction(case['outer']), False, bool(case['tol']))
    return [_s(box.margin_left), _s(box.width), _s(box.margin_right)]


def _patch_content_widths():
    from weasyprint.layout import page
    if not getattr(page, '_c14_patched', False):
        # test doubles for the callees of HorizontalBox.min_content_size / max_content_size
        page.min_content_width = lambda context, box, outer=True: box._minc
        page.max_content_width = lambda context, box, outer=True: box._maxc
        page._c14_patched = True


def cvd(case):
    """compute_variable_dimension on three stubs; case: avail, boxes=[dict(ma, mb, inner, pb, minc, maxc)]*3,
    gen_b, vertical -> three [ma, inner, mb]"""
    from weasyprint.layout import page
    _patch_content_widths()
    stubs = []
    for i, b in enumerate(case['boxes']):
        gen = case['gen_b'] if i == 1 else True
        if case.get('vertical'):
            stubs.append(NS(height=_v(b['inner']), margin_top=_v(b['ma']), margin_bottom=_v(b['mb']),
                            padding_top=Fraction(b['pb']), padding_bottom=Fraction(0),
                            border_top_width=Fraction(0), border_bottom_width=Fraction(0), is_generated=gen))
        else:
            stubs.append(NS(width=_v(b['inner']), margin_left=_v(b['ma']), margin_right=_v(b['mb']),
                            padding_left=Fraction(0), padding_right=Fraction(0),
                            border_left_width=Fraction(b['pb']), border_right_width=Fraction(0),
                            _minc=Fraction(b['minc']), _maxc=Fraction(b['maxc']), is_generated=gen))
    page.compute_variable_dimension(None, stubs, bool(case.get('vertical')), Fraction(case['avail']))
    if case.get('vertical'):
        return [[_s(s.margin_top), _s(s.height), _s(s.margin_bottom)] for s in stubs]
    return [[_s(s.margin_left), _s(s.width), _s(s.margin_right)] for s in stubs]


# ------------------------------------------------------------------------------------------ counters, strings

def _cstyle(st):
    return {k: ('auto' if st[k] == 'auto' else tuple((n, v) for n, v in st[k]))
            for k in ('counter_set', 'counter_reset', 'counter_increment')}


def counters(case):
    """case: dict(styles=[...], margin=style) -> [values of `page` after each page (None if absent), in margin box]"""
    from weasyprint.layout import page
    from weasyprint.formatting_structure import build
    page_state = ([0], {'pages': [0]}, [{'pages'}])
    out = []
    for st in case['styles']:
        style = _cstyle(st)
        style['display'] = ('block',)
        page._standardize_page_based_counters(style, None)
        build.update_counters(page_state, style)
        vals = page_state[1].get('page')
        out.append(vals[-1] if vals else None)
    margin_state = copy.deepcopy(page_state)
    margin_state[2].append(set())
    style = _cstyle(case['margin'])
    style['display'] = ('block',)
    page._standardize_page_based_counters(style, '@top-left')
    build.update_counters(margin_state, style)
    vals = margin_state[1].get('page')
    return [out, vals[-1] if vals else None]


def strings(case):
    """case: dict(store=[[ids page1], [ids page2], ...], cur, kw, chain=[[names]...]) -> id or None"""
    from weasyprint.layout import LayoutContext
    store = defaultdict(lambda: defaultdict(lambda: []))
    for i, l in enumerate(case['store']):
        for x in l:
            store['s'][i + 1].append(x)
    node = None
    for names in reversed(case['chain']):
        style = {'string_set': tuple((n, ()) for n in names) if names else 'none'}
        # (real boxes also carry the evaluated assignments as the attribute `string_set`)
        node = NS(style=style, children=[node] if node is not None else [], string_set=[(n, '') for n in names])
    if node is None:
        node = NS(style={'string_set': 'none'}, children=[], string_set=[])
    stub = NS(current_page=case['cur'])
    return LayoutContext.get_string_or_element_for(stub, store, node, 's', case['kw'])


# ------------------------------------------------------------------------------------------------- renders

def _texts(box):
    from weasyprint.formatting_structure import boxes
    return ''.join(t.text for t in box.descendants() if isinstance(t, boxes.TextBox))


def _margin_boxes(page):
    from weasyprint.formatting_structure import boxes
    return [b for b in page.children if isinstance(b, boxes.MarginBox)]


def pages_render(case):
    """-> list per page: dict(side, blank, name, index, groups, ml, mr, mt, mb, width, height, texts{at: text},
    ids=[ids of elements with an id whose first box is on this page], empty=bool)"""
    from tests.testing_utils import render_pages
    from weasyprint.formatting_structure import boxes
    pages = render_pages(case['html'])
    out = []
    seen = set()
    for page in pages:
        pt = page.page_type
        root = page.children[0]
        ids = []
        nlines = 0
        for b in root.descendants():
            if b.element is not None and b.element.get('id') and b.element_tag == b.element.tag:
                i = b.element.get('id')
                if i not in seen:
                    seen.add(i)
                    ids.append(i)
            if isinstance(b, boxes.LineBox):
                nlines += 1
        out.append(dict(side=pt.side, blank=bool(pt.blank), name=pt.name, index=pt.index,
                        groups=[list(g) for g in pt.groups],
                        ml=page.margin_left, mr=page.margin_right, mt=page.margin_top, mb=page.margin_bottom,
                        width=page.width, height=page.height,
                        root_x=root.position_x, root_y=root.position_y,
                        texts={b.at_keyword: _texts(b) for b in _margin_boxes(page)},
                        ids=ids, nlines=nlines))
    return out


def strings_render(case):
    """-> per page: dict(heads=[texts of h1 boxes in order], first_is_head=bool, texts{at: text})"""
    from tests.testing_utils import render_pages
    from weasyprint.formatting_structure import boxes
    pages = render_pages(case['html'])
    out = []
    for page in pages:
        root = page.children[0]
        heads = []
        first_leaf_owner = None
        for b in root.descendants():
            if b.element_tag in ('h1', 'span') and b.element is not None and b.element.get('class') == 'h' \
                    and isinstance(b, (boxes.BlockBox, boxes.InlineBox)):
                heads.append(b.element.get('id'))
        # first element of the page: follow first children
        el = root
        first_is_head = False
        while True:
            if el.element is not None and el.element.get('class') == 'h':
                first_is_head = True
                break
            ch = getattr(el, 'children', None)
            if not ch:
                break
            el = ch[0]
        out.append(dict(heads=heads, first_is_head=first_is_head,
                        texts={b.at_keyword: _texts(b) for b in _margin_boxes(page)},
                        running={b.at_keyword: [d.element.get('id') for d in b.descendants()
                                                if d.element is not None and d.element.get('class') == 'h'
                                                and isinstance(d, boxes.BlockBox)]
                                 for b in _margin_boxes(page)}))
    return out


def marginbox_render(case):
    """-> per page: page geometry and every margin box rectangle"""
    from tests.testing_utils import render_pages
    from weasyprint.formatting_structure import boxes
    pages = render_pages(case['html'])
    out = []
    for page in pages:
        root = page.children[0]
        mbs = []
        for b in _margin_boxes(page):
            lines = [l for l in b.descendants() if isinstance(l, boxes.LineBox)]
            mbs.append(dict(at=b.at_keyword, x=b.position_x, y=b.position_y, w=b.width, h=b.height,
                            ml=b.margin_left, mr=b.margin_right, mt=b.margin_top, mb=b.margin_bottom,
                            pl=b.padding_left, pr=b.padding_right, pt=b.padding_top, pb=b.padding_bottom,
                            bl=b.border_left_width, br=b.border_right_width, bt=b.border_top_width,
                            bb=b.border_bottom_width, text=_texts(b), nlines=len(lines),
                            line_w=[l.width for l in lines]))
        out.append(dict(width=page.width, height=page.height, ml=page.margin_left, mr=page.margin_right,
                        mt=page.margin_top, mb=page.margin_bottom,
                        pl=page.padding_left, pr=page.padding_right, pt=page.padding_top, pb=page.padding_bottom,
                        bl=page.border_left_width, br=page.border_right_width, bt=page.border_top_width,
                        bb=page.border_bottom_width,
                        root_x=root.position_x, root_y=root.position_y,
                        root_mw=root.margin_width(), mw=page.margin_width(), mh=page.margin_height(),
                        boxes=mbs))
    return out


_NUM = rb'[-+]?[0-9]*\.?[0-9]+(?:[eE][-+]?[0-9]+)?'


def pdf_render(case):
    """case: dict(html, zoom) -> per page: dict(width, height, bleed, before=dict(MediaBox..), after=dict(..))"""
    from tests.testing_utils import FakeHTML, BASE_URL
    doc = FakeHTML(string=case['html'], base_url=BASE_URL).render()
    before = []

    def finisher(document, pdf):
        for obj in pdf.objects:
            if isinstance(obj, dict) and obj.get('Type') == '/Page':
                before.append({k: [float(x) for x in obj[k]] for k in ('MediaBox', 'TrimBox', 'BleedBox')})
    data = doc.write_pdf(zoom=case['zoom'], finisher=finisher, uncompressed_pdf=True)
    after = []
    for m in re.finditer(rb'<<[^<>]*/Type /Page\b[^s][^<>]*>>', data):
        d = {}
        for k in (b'MediaBox', b'TrimBox', b'BleedBox'):
            mm = re.search(rb'/' + k + rb'\s*\[([^\]]*)\]', m.group(0))
            d[k.decode()] = [float(x) for x in re.findall(_NUM, mm.group(1))] if mm else None
        after.append(d)
    # where the page background (painted over the bleed area) goes: first `re` of each content stream, with the
    # two `cm` in front of it
    out = []
    for i, page in enumerate(doc.pages):
        out.append(dict(width=page.width, height=page.height, bleed=dict(page.bleed),
                        before=before[i] if i < len(before) else None,
                        after=after[i] if i < len(after) else None))
    return dict(pages=out, nbefore=len(before), nafter=len(after))


def multi(case):
    """dispatcher: one worker pool serves all the streams"""
    return globals()[case['fn']](case['case'])
