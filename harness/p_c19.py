"""C19 - rendering is a pure function of its inputs: deterministic and isolated."""
import base64, itertools, json, os, random, struct, zlib
from fractions import Fraction
import common
from common import qlit, zlit, slit

# ======================================================================================================================
# document grammar (wide enough to exercise module-level state: UA stylesheets and counter styles, @font-face and the
# font configuration, images and the image cache, SVG, forms, bookmarks, target-counter re-pagination, flex/grid style
# write-back, tables, footnotes, running elements, hyphenation dictionaries, quotes)

WORDS = ['abc', 'de', 'fgh', 'a', 'bcd', 'efgh', 'hyphenation', 'considerable', 'ab', 'gfe', 'cab', 'bead', 'face',
         'fed', 'international', 'abcdefgh', 'Hg', 'xyz', 'lorem', 'ipsum']
IMAGES = ['pattern.png', 'blue.jpg', 'icon.png', 'logo_small.png', 'pattern.gif', 'not-optimized.jpg',
          'pattern.palette.png', 'pattern.svg', 'border.svg', 'really-a-png.svg', 'really-a-svg.png']
FAMILIES = ['weasyprint', 'wpwoff', 'DejaVu Sans', 'serif', 'monospace', 'DejaVu Serif']


def _png(w, h, rgb):
    raw = b''.join(b'\x00' + bytes(rgb) * w for _ in range(h))

    def chunk(t, d):
        return struct.pack('>I', len(d)) + t + d + struct.pack('>I', zlib.crc32(t + d) & 0xffffffff)
    return (b'\x89PNG\r\n\x1a\n' + chunk(b'IHDR', struct.pack('>IIBBBBB', w, h, 8, 2, 0, 0, 0)) +
            chunk(b'IDAT', zlib.compress(raw, 9)) + chunk(b'IEND', b''))


def data_png(w, h, rgb):
    return 'data:image/png;base64,' + base64.b64encode(_png(w, h, rgb)).decode()


class Gen:
    def __init__(self, rng, feats=None):
        self.rng = rng
        self.n = 0
        self.ids = []
        self.feats = set()
        self.families = set()
        self.counter_styles = set()
        self.allow = feats

    def uid(self, p='e'):
        self.n += 1
        return '%s%d' % (p, self.n)

    def text(self, lo=1, hi=8):
        return ' '.join(self.rng.choice(WORDS) for _ in range(self.rng.randint(lo, hi)))

    def family(self):
        f = self.rng.choice(FAMILIES)
        self.families.add(f)
        return f

    def inline(self, depth=0):
        rng = self.rng
        out = []
        for _ in range(rng.randint(1, 4)):
            r = rng.random()
            if r < 0.45 or depth > 1:
                out.append(self.text(1, 6))
            elif r < 0.55:
                out.append('<b>%s</b>' % self.text(1, 2))
            elif r < 0.62:
                out.append('<i style="font-family:%s">%s</i>' % (self.family(), self.text(1, 2)))
            elif r < 0.70:
                self.feats.add('link')
                if self.ids and rng.random() < 0.6:
                    t = rng.choice(self.ids)
                    cls = rng.choice(['', ' class=tc', ' class=tt'])
                    out.append('<a href="#%s"%s>%s</a>' % (t, cls, self.text(1, 2)))
                    if cls:
                        self.feats.add('target-counter')
                else:
                    out.append('<a href="%s">%s</a>' % (rng.choice(['https://example.org/x?a=1', 'other.html#z', '#nowhere']), self.text(1, 2)))
            elif r < 0.76:
                self.feats.add('footnote')
                out.append('<span class=fn>%s</span>' % self.text(1, 4))
            elif r < 0.82:
                self.feats.add('img')
                out.append(self.img())
            elif r < 0.86:
                out.append('<q>%s</q>' % self.text(1, 2))
                self.feats.add('quotes')
            elif r < 0.90:
                out.append('<span style="%s">%s</span>' % (rng.choice([
                    'text-decoration:underline', 'letter-spacing:1px', 'font-size:14px', 'color:#369', 'opacity:.5',
                    'display:inline-block;width:40px;border:1px solid', 'vertical-align:super;font-size:7px',
                    'background:yellow;padding:0 2px', 'font-variant-caps:small-caps', 'font-weight:bold',
                    'position:relative;top:2px', 'white-space:nowrap', 'text-transform:uppercase']), self.text(1, 3)))
            elif r < 0.94:
                out.append('<span class=cnt></span>')
                self.feats.add('counter')
            else:
                out.append('<span>%s</span>' % self.inline(depth + 1))
        return ' '.join(out)

    def img(self, style=''):
        rng = self.rng
        r = rng.random()
        if r < 0.7:
            src = rng.choice(IMAGES)
        elif r < 0.9:
            src = data_png(rng.choice([1, 3, 8]), rng.choice([1, 2, 8]), rng.choice([(255, 0, 0), (0, 128, 0), (0, 0, 255)]))
            self.feats.add('data-url')
        else:
            src = 'missing-%d.png' % rng.randint(1, 2)
            self.feats.add('missing-image')
        st = rng.choice(['', 'width:20px', 'height:15px', 'width:30px;height:10px', 'width:2em',
                         'width:40px;height:40px;object-fit:contain', 'width:25px;image-rendering:pixelated',
                         'max-width:50%', 'float:right;width:20px', 'opacity:.6;width:16px'])
        return '<img src="%s" alt="%s" style="%s">' % (src, rng.choice(['', 'alt abc']), st + style)

    def svg(self):
        rng = self.rng
        self.feats.add('svg')
        u = self.uid('g')
        parts = []
        for _ in range(rng.randint(1, 4)):
            k = rng.randrange(8)
            if k == 0:
                parts.append('<rect x="%d" y="%d" width="%d" height="%d" fill="%s" stroke="black"/>' % (
                    rng.randint(0, 20), rng.randint(0, 10), rng.randint(1, 30), rng.randint(1, 20), rng.choice(['red', 'url(#%s)' % u, 'url(#%sg)' % u, 'none', '#0a0'])))
            elif k == 1:
                parts.append('<circle cx="%d" cy="%d" r="%d" fill="blue" opacity="%s"/>' % (rng.randint(5, 40), rng.randint(5, 20), rng.randint(1, 12), rng.choice(['1', '.5'])))
            elif k == 2:
                parts.append('<text x="2" y="%d" font-family="%s" font-size="%d">%s</text>' % (rng.randint(8, 20), self.family(), rng.choice([6, 8, 10]), self.text(1, 2)))
            elif k == 3:
                parts.append('<path d="M %d %d L 30 5 Q 20 20 5 %d Z" fill="none" stroke="green" stroke-width="%d" stroke-dasharray="%s"/>' % (
                    rng.randint(0, 9), rng.randint(0, 9), rng.randint(5, 25), rng.randint(1, 3), rng.choice(['none', '2 1'])))
            elif k == 4:
                parts.append('<g transform="%s"><ellipse cx="20" cy="10" rx="8" ry="4" fill="orange"/></g>' % rng.choice(['rotate(10)', 'translate(3 4) scale(.5)', 'skewX(10)']))
            elif k == 5:
                parts.append('<use href="#%sr" x="%d" y="3"/>' % (u, rng.randint(0, 20)))
            elif k == 6:
                parts.append('<image href="%s" x="1" y="1" width="10" height="10"/>' % rng.choice(['pattern.png', 'blue.jpg']))
            else:
                parts.append('<rect width="20" height="12" fill="teal" clip-path="url(#%sc)" opacity="%s"/>' % (u, rng.choice(['1', '.4'])))
        defs = ('<defs><linearGradient id="%s"><stop offset="0" stop-color="red"/><stop offset="1" stop-color="blue" stop-opacity=".5"/>'
                '</linearGradient><rect id="%sr" width="6" height="6" fill="purple"/><clipPath id="%sc"><circle cx="8" cy="6" r="6"/></clipPath>'
                '<radialGradient id="%sg"><stop offset="0" stop-color="#fff"/><stop offset="1" stop-color="#060"/></radialGradient></defs>'
                % (u, u, u, u))
        return '<svg xmlns="http://www.w3.org/2000/svg" width="%d" height="%d" viewBox="0 0 50 30">%s%s</svg>' % (
            rng.choice([50, 100, 30]), rng.choice([30, 60, 20]), defs, ''.join(parts))

    def block(self, depth=0):
        rng = self.rng
        kinds = ['p', 'p', 'p', 'h', 'h', 'h', 'list', 'list', 'table', 'table', 'flex', 'flex', 'grid', 'grid', 'img', 'img', 'svg',
                 'svg', 'form', 'form', 'deco', 'deco', 'float', 'abs', 'columns', 'pre', 'div', 'div', 'break', 'toc', 'toc', 'running',
                 'hyph', 'dl', 'transform']
        if self.allow is not None:
            kinds = [k for k in kinds if k in self.allow] or ['p']
        if depth > 0:      # nested content: simple blocks only (nested columns/flex are slow; running() in flex crashes)
            kinds = [k for k in kinds if k in ('p', 'p', 'h', 'list', 'img', 'deco', 'pre', 'dl', 'form', 'svg', 'float', 'abs',
                                               'transform', 'break')] or ['p']
            if depth == 1 and rng.random() < 0.15:
                kinds = [k for k in ('table', 'flex', 'grid') if self.allow is None or k in self.allow] or kinds
        k = rng.choice(kinds)
        self.feats.add(k)
        if k == 'p':
            return '<p%s>%s</p>' % (rng.choice(['', '', ' style="text-align:justify"', ' style="text-indent:1em"', ' lang=fr',
                                                 ' style="font-family:%s"' % self.family(), ' style="line-height:1.7"',
                                                 ' style="orphans:3;widows:3"', ' style="break-inside:avoid"']), self.inline())
        if k == 'h':
            i = self.uid('h')
            self.ids.append(i)
            lv = rng.choice([1, 1, 2, 2, 3, 4])
            return '<h%d id="%s"%s>%s</h%d>' % (lv, i, rng.choice(['', '', ' style="bookmark-state:closed"', ' style="bookmark-level:none"',
                                                                     ' style="bookmark-label:content(text)"', ' style="break-before:page"']), self.text(1, 4), lv)
        if k == 'list':
            tag = rng.choice(['ul', 'ol'])
            lst = rng.choice(['', 'list-style-type:lower-roman', 'list-style-type:upper-alpha', 'list-style-type:square',
                              'list-style-position:inside', 'list-style-image:url(pattern.png)', 'list-style-type:"- "',
                              'list-style-type:mycyc', 'list-style-type:myadd', 'list-style-type:mynum', 'list-style-type:cjk-decimal',
                              'list-style-type:lower-greek', 'list-style-type:disclosure-open'])
            for name in ('mycyc', 'myadd', 'mynum'):
                if name in lst:
                    self.counter_styles.add(name)
            items = []
            for _ in range(rng.randint(1, 5)):
                inner = self.inline()
                if depth < 2 and rng.random() < 0.2:
                    inner += self.block(depth + 2) if rng.random() < 0.5 else '<ol><li>%s<li>%s</ol>' % (self.text(1, 2), self.text(1, 2))
                items.append('<li%s>%s</li>' % (rng.choice(['', '', ' value=7', ' style="counter-increment:list-item 3"']), inner))
            return '<%s style="%s"%s>%s</%s>' % (tag, lst, rng.choice(['', ' start=4', ' reversed']) if tag == 'ol' else '', ''.join(items), tag)
        if k == 'table':
            nc = rng.randint(1, 4)
            rows = []
            for r in range(rng.randint(1, 5)):
                cells = []
                c = 0
                while c < nc:
                    span = rng.choice([1, 1, 1, 2]) if c + 1 < nc else 1
                    attrs = ' colspan=2' if span == 2 else ''
                    if rng.random() < 0.08:
                        attrs += ' rowspan=2'
                    cells.append('<td%s>%s</td>' % (attrs, self.inline(1) if rng.random() < 0.8 else ''))
                    c += span
                rows.append('<tr>%s</tr>' % ''.join(cells))
            head = '<thead><tr>%s</tr></thead>' % ''.join('<th>%s</th>' % self.text(1, 1) for _ in range(nc)) if rng.random() < 0.4 else ''
            foot = '<tfoot><tr><td colspan=%d>%s</td></tr></tfoot>' % (nc, self.text(1, 2)) if rng.random() < 0.2 else ''
            cap = '<caption>%s</caption>' % self.text(1, 3) if rng.random() < 0.2 else ''
            st = rng.choice(['', 'border-collapse:collapse', 'width:100%', 'table-layout:fixed;width:100%', 'border-spacing:3px 1px',
                             'border-collapse:collapse;width:80%'])
            return '<table class=t style="%s">%s%s%s<tbody>%s</tbody></table>' % (st, cap, head, foot, ''.join(rows))
        if k == 'flex':
            st = rng.choice(['', 'flex-wrap:wrap', 'flex-direction:column', 'flex-wrap:wrap;height:60px', 'justify-content:space-between',
                             'align-items:center', 'flex-wrap:wrap;align-content:stretch;height:80px', 'gap:4px', 'flex-direction:row-reverse'])
            items = []
            for _ in range(rng.randint(1, 5)):
                ist = rng.choice(['', 'flex:1', 'width:60px', 'flex:0 1 40px', 'width:45%', 'height:20px', 'align-self:flex-end', 'flex:2 1 0',
                                  'margin:2px', 'width:60px;height:15px'])
                items.append('<div style="%s;border:1px solid #999">%s</div>' % (ist, self.inline(1) if rng.random() < 0.8 else self.block(depth + 3)))
            return '<div style="display:flex;%s">%s</div>' % (st, ''.join(items))
        if k == 'grid':
            st = rng.choice(['grid-template-columns:1fr 2fr', 'grid-template-columns:auto auto', 'grid-template-columns:50px 1fr 50px',
                             'grid-template-columns:repeat(3,1fr);gap:3px', 'grid-template-rows:auto auto;height:70px',
                             'grid-template-columns:1fr 1fr;grid-auto-rows:20px', 'grid-template-columns:auto auto;justify-items:start'])
            items = []
            for _ in range(rng.randint(1, 6)):
                ist = rng.choice(['', '', 'justify-self:start', 'align-self:end', 'padding:2px', 'background:#eee'])
                items.append('<div style="%s">%s</div>' % (ist, self.inline(1)))
            return '<div style="display:grid;%s">%s</div>' % (st, ''.join(items))
        if k == 'img':
            return '<div>%s%s</div>' % (self.img(), self.img() if rng.random() < 0.4 else '')
        if k == 'svg':
            return '<div>%s</div>' % self.svg()
        if k == 'form':
            self.feats.add('form')
            ctl = []
            for _ in range(rng.randint(1, 4)):
                n = self.uid('f')
                ctl.append(rng.choice([
                    '<input name="%s" value="%s">' % (n, self.text(1, 2)), '<input type=checkbox name="%s"%s>' % (n, rng.choice(['', ' checked'])),
                    '<input type=radio name="%s" value=a checked><input type=radio name="%s" value=b>' % (n, n),
                    '<textarea name="%s" rows=2>%s</textarea>' % (n, self.text(1, 5)), '<select name="%s"><option>a<option selected>bc</select>' % n,
                    '<button>%s</button>' % self.text(1, 1), '<input type=password name="%s" value=secret>' % n,
                    '<input name="%s" maxlength=5 required placeholder=ph>' % n, '<select multiple name="%s"><option>a<option selected>b</select>' % n,
                    '<input type=submit value=go>', '<label>%s <input name="%s" disabled></label>' % (self.text(1, 1), n)]))
            return '<form>%s</form>' % ' '.join(ctl)
        if k == 'deco':
            st = rng.choice(['background:linear-gradient(red,blue);height:20px', 'background:radial-gradient(circle,#fff,#000);height:25px',
                             'background:url(pattern.png) repeat;height:12px', 'border:3px dashed green;border-radius:5px;padding:3px',
                             'background:repeating-linear-gradient(45deg,red 0 3px,blue 3px 6px);height:15px;opacity:.7',
                             'border:2px solid;border-image:url(border.svg) 2;height:10px', 'outline:1px dotted red;margin:3px',
                             'background:url(pattern.svg) no-repeat center / 20px 20px, #ff0;height:24px', 'box-shadow:none;border-top:4px double',
                             'background:url(blue.jpg);background-size:cover;height:18px;border-radius:50%', 'mix-blend-mode:multiply;background:#0ff;height:8px',
                             'overflow:hidden;height:12px;border:1px solid', 'background:conic-gradient(red,blue);height:14px'])
            return '<div style="%s">%s</div>' % (st, self.text(1, 3) if rng.random() < 0.5 else '')
        if k == 'float':
            return '<div style="float:%s;width:%dpx;border:1px solid">%s</div><p>%s</p>' % (rng.choice(['left', 'right']), rng.choice([30, 60]), self.inline(1), self.inline())
        if k == 'abs':
            return '<div style="position:relative;height:30px"><div style="position:%s;%s:%dpx;top:5px;background:#fcc">%s</div>%s</div>' % (
                rng.choice(['absolute', 'absolute', 'fixed']), rng.choice(['left', 'right']), rng.randint(0, 20), self.text(1, 2), self.text(1, 3))
        if k == 'columns':
            inner = ''.join(self.block(depth + 1) for _ in range(rng.randint(1, 3)))
            return '<div style="columns:%d;column-gap:6px;%s">%s%s</div>' % (rng.choice([2, 3]), rng.choice(['', 'column-rule:1px solid']), inner,
                                                                               '<div style="column-span:all">%s</div><p>%s</p>' % (self.text(1, 2), self.text(2, 8)) if rng.random() < 0.2 else '')
        if k == 'pre':
            return '<pre style="%s">%s\n  %s</pre>' % (rng.choice(['', 'white-space:pre-wrap', 'tab-size:2', 'text-overflow:ellipsis;overflow:hidden;white-space:nowrap;width:50px']),
                                                       self.text(1, 4), self.text(1, 4))
        if k == 'div':
            st = rng.choice(['', 'margin:5px;padding:3px;border:1px solid', 'break-inside:avoid', 'page:wide', 'width:70%;margin:auto',
                             'counter-reset:sec', 'direction:rtl', 'font-size:12px', 'box-decoration-break:clone;border:2px solid;padding:2px',
                             'max-height:40px;overflow:hidden', 'display:inline-block;width:45%', 'display:flow-root', 'margin-top:-3px'])
            if 'page:wide' in st:
                self.feats.add('named-page')
            return '<div style="%s">%s</div>' % (st, ''.join(self.block(depth + 1) for _ in range(rng.randint(1, 3))))
        if k == 'break':
            return '<div style="break-%s:%s">%s</div>' % (rng.choice(['before', 'after']), rng.choice(['page', 'left', 'right', 'avoid']), self.text(1, 3))
        if k == 'toc':
            if not self.ids:
                return '<p>%s</p>' % self.text(1, 3)
            self.feats.add('target-counter')
            return '<ul class=toc>%s</ul>' % ''.join('<li><a href="#%s"></a></li>' % i for i in self.rng.sample(self.ids, min(len(self.ids), 3)))
        if k == 'running':
            return '<div class=run>%s</div><p class=ss>%s</p>' % (self.text(1, 2), self.text(1, 2))
        if k == 'hyph':
            return '<p lang=%s style="hyphens:auto;width:%dpx;%s">%s</p>' % (rng.choice(['en', 'fr', 'de']), rng.choice([30, 50, 70]),
                                                                             rng.choice(['', 'hyphenate-character:"~"', 'text-align:justify']),
                                                                             ' '.join(rng.choice(['hyphenation', 'considerable', 'international', 'abc']) for _ in range(rng.randint(2, 6))))
        if k == 'dl':
            return '<dl><dt>%s<dd>%s<dt>%s<dd>%s</dl>' % (self.text(1, 2), self.inline(1), self.text(1, 2), self.text(1, 4))
        if k == 'transform':
            return '<div style="transform:%s;transform-origin:%s;width:60px;border:1px solid">%s</div>' % (
                rng.choice(['rotate(5deg)', 'scale(.8)', 'translate(5px,2px)', 'matrix(1,0,.2,1,0,0)']), rng.choice(['0 0', 'center', '100% 0']), self.inline(1))
        return '<p>%s</p>' % self.text()


COUNTER_STYLES = {
    'mycyc': '@counter-style mycyc { system: cyclic; symbols: "*" "+" "~"; suffix: " " }',
    'myadd': '@counter-style myadd { system: additive; additive-symbols: 10 X, 5 V, 1 I; range: 1 39 }',
    'mynum': '@counter-style mynum { system: numeric; symbols: "0" "1" "2"; pad: 3 "0"; prefix: "(" ; suffix: ") " }',
}
FONT_FACES = {
    'weasyprint': '@font-face { font-family: weasyprint; src: url(weasyprint.otf) }',
    'wpwoff': '@font-face { font-family: wpwoff; src: url(weasyprint.woff) format("woff") }',
}


def gen_doc(rng, feats=None, nblocks=None, bleed=None):
    g = Gen(rng, feats)
    body_family = g.family()
    blocks = [g.block() for _ in range(nblocks or rng.randint(2, 6))]
    size = rng.choice(['300px 220px', '400px 300px', 'A6', '250px 180px', 'A5 landscape', '500px 200px'])
    margin = rng.choice(['10px', '20px 15px', '1cm', '30px 10px 25px 12px'])
    if bleed is None:
        bleed = rng.random() < 0.25
    page = ['size:%s' % size, 'margin:%s' % margin]
    if bleed:
        page.append('bleed:%s' % rng.choice(['3px', '8px', '10px']))
        page.append('marks:%s' % rng.choice(['crop', 'cross', 'crop cross']))
        g.feats.add('bleed')
    mboxes = []
    if rng.random() < 0.6:
        mboxes.append('@bottom-center { content: counter(page) "/" counter(pages); font-size: 8px }')
        g.feats.add('counter(pages)')
    if rng.random() < 0.3:
        mboxes.append('@top-left { content: string(chap); font-size: 8px }')
        g.feats.add('string-set')
    if rng.random() < 0.2:
        mboxes.append('@top-right { content: element(hdr) }')
        g.feats.add('running-element')
    if rng.random() < 0.15:
        mboxes.append('@left-middle { content: "m"; background: #ddd; width: 6px }')
    css = ['@page { %s; %s }' % ('; '.join(page), ' '.join(mboxes))]
    if rng.random() < 0.3:
        css.append('@page :first { margin-top: 35px; @top-center { content: "first" } }')
    if rng.random() < 0.2:
        css.append('@page :left { margin-left: 25px } @page :right { margin-right: 25px }')
    if 'named-page' in g.feats:
        css.append('@page wide { size: 420px 200px; @top-center { content: "wide " counter(page) } }')
    css.append('body { font-family: %s; font-size: %dpx; line-height: %s; counter-reset: ch sec }' % (
        body_family, rng.choice([10, 10, 9, 12]), rng.choice(['1.2', '12px', 'normal', '1.5'])))
    css.append('h1 { counter-increment: ch; string-set: chap content(text); bookmark-level: 1; font-size: 1.4em; margin: .3em 0 }')
    css.append('h1::before { content: counter(ch) ". " } h2 { counter-increment: sec; font-size: 1.2em; margin: .2em 0 } '
               'h2::before { content: counter(ch) "." counter(sec, %s) " " } h3, h4 { font-size: 1em; margin: .1em 0 }'
               % rng.choice(['decimal', 'lower-alpha', 'upper-roman', 'mycyc']))
    if 'mycyc' in css[-1]:
        g.counter_styles.add('mycyc')
    if rng.random() < 0.3:
        css.append('@media screen { p { color: green; margin-left: 4px } } @media print { h2 { font-style: italic } }')
    css.append('p { margin: .3em 0 } table.t td, table.t th { border: 1px solid #777; padding: 1px 2px } '
               '.fn { float: footnote; font-size: 8px } .cnt::after { content: counters(list-item, ".") "|" counter(ch) } '
               'a.tc::after { content: " (p. " target-counter(attr(href), page) ")" } '
               'a.tt::after { content: " [" target-text(attr(href), content) "]" } '
               'ul.toc a::before { content: target-text(attr(href), content) } '
               'ul.toc a::after { content: leader(".") target-counter(attr(href), page) } '
               '.run { position: running(hdr); font-size: 8px } .ss { string-set: chap content(text) } '
               'q { quotes: auto } ::marker { color: #555 } li::marker { font-variant-numeric: tabular-nums }')
    if rng.random() < 0.15:
        css.append('::footnote-call { content: "[" counter(footnote) "]" } @page { @footnote { border-top: 1px solid; margin-top: 3px } }')
    for name in sorted(g.counter_styles):
        css.append(COUNTER_STYLES[name])
    for fam in sorted(g.families | {body_family}):
        if fam in FONT_FACES:
            css.append(FONT_FACES[fam])
            g.feats.add('@font-face')
    user_css = []
    if rng.random() < 0.4:
        user_css.append('p { color: #%s } @page { background: #f8f8f8 } h1 { text-decoration: underline }' % rng.choice(['300', '030', '003']))
        g.feats.add('user-css')
        if rng.random() < 0.3:
            user_css.append('@font-face { font-family: wpuser; src: url(weasyprint.otf) } h3 { font-family: wpuser, serif } '
                            '@counter-style ucs { system: fixed; symbols: A B C } ol { list-style: ucs }')
            g.feats.add('user-css-font-face')
    meta = ''
    if rng.random() < 0.5:
        meta = ('<title>%s</title><meta name=author content="%s"><meta name=dcterms.created content="2020-01-0%d">'
                '<meta name=keywords content="a, b"><meta name=generator content=gen><meta name=x-custom content=v>'
                % (g.text(1, 3), g.text(1, 2), rng.randint(1, 9)))
    html = '<html lang="%s"><head><meta charset=utf-8>%s<style>%s</style></head><body>%s</body></html>' % (
        rng.choice(['en', 'fr', 'de', 'en-GB']), meta, '\n'.join(css), '\n'.join(blocks))
    return {'html': html, 'css': user_css, 'feats': sorted(g.feats), 'bleed': bool(bleed)}


# ======================================================================================================================
# findings of this check that are reported to the maintainers of the framework (see the final report); until they
# are listed in known_findings.json they are treated like listed open findings: counted, printed, not failing.
PENDING = {
    'c19:inline-svg-mutates-html-tree': 'drawing an inline <svg> renames mask/pattern/symbol elements of the caller\'s HTML tree; '
                                        'the second render of the same HTML object loses the mask/pattern',
    'c19:marks-layer-accumulates-on-rewrite': 'draw_background inserts the crop/cross marks layer into the page background at each '
                                              'write: the same Document written twice gives different bytes',
    'c19:image-cache-ignores-options': 'get_image_from_uri caches by URL only although the RasterImage depends on dpi / '
                                       'optimize_images / jpeg_quality: a cache shared by renders with different options leaks them',
    'c19:image-cache-dpi-overwrites-source': 'get_x_object replaces the cached source data by the down-sampled image (dpi option): '
                                             'later renders sharing the cache embed the thumbnail; JPEG re-encoded at each render',
    'c19:document-fonts-persist-across-writes': 'Document.fonts keeps subsetted Font objects: write_pdf(full_fonts=True) after a '
                                                'default write embeds the subset',
    'c19:copy-loses-html-for-pdfua': 'Document.copy() drops _html: copy().write_pdf(pdf_variant="pdf/ua-1") raises AttributeError',
    'c19:attachment-dates-from-clock': 'URL attachments get datetime.now() as creation/modification dates: bytes differ between runs '
                                       'although pdf_identifier and SOURCE_DATE_EPOCH are fixed',
    'c19:flex-stretch-writeback-relayout': 'flex layout writes the stretched cross size into child.style: a container laid out twice '
                                           '(pushed to the next page) distributes align-content:stretch space differently',
    'c19:grid-stretch-writeback-relayout': 'grid layout writes stretched width/height into child.style: a grid laid out twice sizes '
                                           'its auto tracks differently',
    'c19:diskcache-del-removes-shared-folder': 'DiskCache.__del__ unlinks its files and removes the folder: two renders given the same '
                                               'cache folder break each other (FileNotFoundError) when the first Document is collected',
    'c19:bleedbox-cap-not-scaled': 'BleedBox is at most 10 points from the TrimBox whatever the zoom: it does not scale with zoom',
}
FOREIGN_KNOWN = {'c13:image-cache-ignores-orientation'}      # listed under another property: never re-reported here


def report(run, what, data, signature):
    """run.fail, except for findings already handed over (PENDING) or listed open under any property."""
    listed = {k.get('signature') for k in common.load_known() if k.get('status') == 'open'}
    mine = {k.get('signature') for k in run.known}
    if signature in mine:
        return run.fail(what, data, signature=signature)
    if signature in listed or signature in PENDING or signature in FOREIGN_KNOWN:
        run.known_hits.append(({'signature': signature}, what))
        return False
    return run.fail(what, data, signature=signature)


def has_marks(doc):
    return 'marks:' in doc['html'] and 'bleed:' in doc['html']


# ======================================================================================================================
# stream 6: the differential monitor.  A *key* is (document, option profile, zoom); every observation made for one key
# - in a fresh interpreter under any hash seed, at any position of any history, with shared or fresh HTML / CSS /
# FontConfiguration / cache objects, through any sink - must be the same value.

ZOOMS = [0.1, 0.5, 1, 2, 3.7, 10]
SINKS = ['bytes', 'bytes', 'fileobj', 'path', 'pathlib']
IMG_OPTS = [{}, {}, {'optimize_images': True}, {'jpeg_quality': 60}, {'optimize_images': True, 'jpeg_quality': 30}]


def gen_profiles(rng, doc):
    """Two option profiles per document: the defaults and a random selection (image options are per document: a cache
    shared between renders with different image options is the listed finding c19:image-cache-ignores-options)."""
    img = dict(rng.choice(IMG_OPTS))
    p0 = {'pdf_identifier': 'c19', **img}
    p1 = {'pdf_identifier': 'c19', **img}
    if rng.random() < 0.5:
        p1['pdf_forms'] = True
    if rng.random() < 0.4:
        p1['uncompressed_pdf'] = True
    if rng.random() < 0.3:
        p1['pdf_variant'] = rng.choice(['pdf/a-1b', 'pdf/a-2u', 'pdf/a-3b', 'pdf/a-4u', 'pdf/ua-1', 'debug'])
    if rng.random() < 0.2:
        p1['pdf_version'] = rng.choice(['1.4', '2.0'])
    if rng.random() < 0.2:
        p1['srgb'] = True
    if rng.random() < 0.3:
        p1['custom_metadata'] = True
    if rng.random() < 0.2:
        p1['full_fonts'] = True
    if rng.random() < 0.2:
        p1['hinting'] = True
    if rng.random() < 0.2:
        p1['presentational_hints'] = True
    if rng.random() < 0.15:
        p1['media_type'] = 'screen'
    return [p0, p1], img


def gen_step(rng, d, prof, docs, mode):
    step = {'doc': d, 'profile': prof, 'opts': docs[d]['profiles'][prof],
            'html': rng.choice(['fresh', 'shared', 'shared']) if mode != 'one-html' else 'shared',
            'fc': rng.choice(['none', 'fresh', 'shared', 'shared']),
            'cache': rng.choice(['none', 'fresh', 'shared', 'shared', 'disk']),
            'api': rng.choice(['write', 'render', 'render']),
            'sink': rng.choice(SINKS),
            'zoom': 1 if rng.random() < 0.8 else rng.choice(ZOOMS)}
    if step['fc'] == 'none' and any('@font-face' in c for c in docs[d]['css']):
        step['fc'] = 'fresh'      # CSS objects with @font-face need the FontConfiguration of the render (documented)
    step['css'] = rng.choice(['fresh', 'shared']) if step['fc'] == 'shared' else 'fresh'
    if step['api'] == 'render':
        if rng.random() < 0.3:
            step['copy_all'] = True
        if rng.random() < 0.3:
            step['rewrite'] = True
    return step


def gen_history(rng, hid, docs):
    n = rng.randint(2, 6)
    mode = rng.choice(['one-html', 'one-doc', 'mixed', 'mixed', 'alternate'])
    nd = len(docs)
    if mode in ('one-html', 'one-doc'):
        pool = [rng.randrange(nd)]
    elif mode == 'alternate':
        pool = rng.sample(range(nd), 2)
    else:
        pool = [rng.randrange(nd) for _ in range(n)]
    steps = []
    cache_img = None
    for i in range(n):
        d = pool[i % len(pool)] if mode == 'alternate' else rng.choice(pool)
        st = gen_step(rng, d, rng.choice([0, 0, 1]), docs, mode)
        if st['cache'] == 'shared':
            img = json.dumps(docs[d]['imgopts'], sort_keys=True)
            if cache_img is None:
                cache_img = img
            elif cache_img != img:
                st['cache'] = 'fresh'
        steps.append(st)
    return {'id': hid, 'mode': mode, 'steps': steps}


def step_key(st):
    return (st['doc'], st['profile'], st['zoom'])


def layout_key(st):
    return (st['doc'], st['profile'])


def _subjob(docs, histories):
    """Restrict a job to the documents it uses (for replay files)."""
    used = sorted({s['doc'] for h in histories for s in h['steps']})
    remap = {d: i for i, d in enumerate(used)}
    hs = []
    for h in histories:
        hs.append({'id': h['id'], 'mode': h.get('mode'), 'steps': [dict(s, doc=remap[s['doc']], orig_doc=s.get('orig_doc', s['doc'])) for s in h['steps']]})
    return {'docs': [docs[d] for d in used], 'histories': hs}


def classify_fc(doc):
    return '@font-face' in doc['html'] or any('@font-face' in c for c in doc.get('css', []))


def build_monitor(rng, ndocs, nhist, njobs):
    docs = []
    for i in range(ndocs):
        d = gen_doc(rng)
        d['profiles'], d['imgopts'] = gen_profiles(rng, d)
        docs.append(d)
    jobs = []
    # (a) fresh interpreter, one render, two hash seeds per key
    k = 0
    for d in range(ndocs):
        for prof in (0, 1):
            seeds = (k % 4, (k + 1 + k // 4) % 4)
            if seeds[0] == seeds[1]:
                seeds = (seeds[0], (seeds[0] + 2) % 4)
            for s in seeds:
                st = {'doc': d, 'profile': prof, 'opts': docs[d]['profiles'][prof], 'html': 'fresh', 'css': 'fresh',
                      'fc': 'fresh' if any('@font-face' in c for c in docs[d]['css']) else 'none', 'cache': 'none', 'api': 'render', 'sink': 'bytes', 'zoom': 1}
                jobs.append({'hashseed': s, 'kind': 'fresh', 'histories': [{'id': 'fresh-%d-%d-%d' % (d, prof, s), 'steps': [st]}]})
            k += 1
    # (b) histories, several per interpreter (the interpreter's earlier histories are part of the history)
    hists = [gen_history(rng, 'h%d' % i, docs) for i in range(nhist)]
    for j in range(njobs):
        jobs.append({'hashseed': j % 4, 'kind': 'histories', 'histories': hists[j::njobs]})
    cases = [{'hashseed': j['hashseed'], 'timeout': 600, 'job': _subjob(docs, j['histories'])} for j in jobs]
    return docs, jobs, cases


def stream_monitor(run, rng, ndocs, nhist, njobs):
    docs, jobs, cases = build_monitor(rng, ndocs, nhist, njobs)
    outs = common.run_impl('impl_c19', 'spawn', cases, limit=700, chunksize=1)
    by_key, by_layout = {}, {}
    nsteps = 0
    seen = set()
    hash_probes = {}
    mutated_reports = 0
    for ji, (job, case, (st, o)) in enumerate(zip(jobs, cases, outs)):
        if st != 'ok' or o.get('crashed'):
            run.oblige('monitor:job-%d-ran' % ji, False, 'interpreter failed: %s' % (o,))
            continue
        hash_probes.setdefault(job['hashseed'], set()).add(o['hash_probe'])
        if o['module_mutated']:
            run.fail('module-level state modified by rendering: %s' % o['module_mutated'],
                     {'stream': 'monitor', 'clause': 'module-state', 'job': case, 'what': o['module_mutated']},
                     signature='c19:module-state-mutated')
        for h, ho in zip(job['histories'], o['histories']):
            for si, (step, obs) in enumerate(zip(h['steps'], ho['steps'])):
                nsteps += 1
                where = {'job': ji, 'hashseed': job['hashseed'], 'history': h['id'], 'step': si, 'kind': job['kind'],
                         'cfg': {k: step.get(k) for k in ('html', 'css', 'fc', 'cache', 'api', 'sink', 'copy_all', 'rewrite')}}
                val = ('exc', tuple(obs['exc']['site'] or ()), obs['exc']['type']) if 'exc' in obs else ('pdf', obs['pdf'], obs['len'])
                by_key.setdefault(step_key(step), []).append((val, where))
                if 'layout' in obs:
                    by_layout.setdefault(layout_key(step), []).append((tuple(obs['layout']), where))
                seen.add((step['html'], step['css'], step['fc'], step['cache'], step['api'], step['sink'], step['zoom'] != 1,
                          step['profile'], 'exc' in obs))
                doc = docs[step['doc']]
                mut = list(obs['mutated'])
                if obs.get('fc_files_added') and not classify_fc(doc):
                    mut.append('font_config.files')
                if mut and mutated_reports < 3:
                    mutated_reports += 1
                    run.fail('rendering modified caller-owned objects: %s' % mut,
                             {'stream': 'monitor', 'clause': 'inputs-not-mutated', 'job': case, 'where': where, 'mutated': mut},
                             signature='c19:input-mutated:%s' % mut[0])
                if obs.get('rewrite_same') is False:
                    report(run, 'the same Document written twice with the same options gives different bytes',
                           {'stream': 'monitor', 'clause': 'rewrite', 'job': case, 'where': where},
                           'c19:marks-layer-accumulates-on-rewrite' if has_marks(doc) else 'c19:document-rewrite-differs')
                if obs.get('ret_none') is False:
                    run.fail('write_pdf(target) returned a value', {'stream': 'monitor', 'clause': 'sink-return', 'job': case, 'where': where},
                             signature='c19:sink-return')
    reported = 0
    for table, clause in ((by_layout, 'layout'), (by_key, 'pdf-bytes')):
        for key, vals in sorted(table.items()):
            distinct = {}
            for v, w in vals:
                distinct.setdefault(v, []).append(w)
            if len(distinct) > 1 and reported < 3:
                reported += 1
                groups = sorted(distinct.items(), key=lambda kv: -len(kv[1]))
                a, b = groups[0][1][0], groups[1][1][0]
                sig = 'c19:nondeterministic-%s' % clause
                excs = [g for g in distinct if g[0] == 'exc']
                if excs and all(g[1][-1:] == ('build_element_structure',) for g in excs) and \
                        all(w['cfg'].get('copy_all') for g in excs for w in distinct[g]) and \
                        not any(w['cfg'].get('copy_all') for g in distinct if g[0] != 'exc' for w in distinct[g]):
                    sig = 'c19:copy-loses-html-for-pdfua'
                report(run, '%s of one input differs between executions: key (doc %d, profile %d%s): %s [%s] vs %s [%s]' % (
                    clause, key[0], key[1], ', zoom %s' % key[2] if len(key) > 2 else '', str(groups[0][0])[:80], a, str(groups[1][0])[:80], b),
                    {'stream': 'monitor', 'clause': clause, 'key': list(key), 'a': a, 'b': b,
                     'job_a': cases[a['job']], 'job_b': cases[b['job']], 'doc': docs[key[0]]}, sig)
    ok_seeds = all(len(v) == 1 for v in hash_probes.values()) and len({tuple(v) for v in hash_probes.values()}) == len(hash_probes)
    run.oblige('monitor:hash-seeds-effective', ok_seeds and len(hash_probes) >= 4,
               'hash("c19-probe") per PYTHONHASHSEED: %s' % {k: sorted(v) for k, v in hash_probes.items()})
    multi = sum(1 for v in by_key.values() if len(v) > 1)
    run.count('monitor', nsteps, [('key',) + k for k in by_key] + [('cfg',) + tuple(map(str, s)) for s in seen],
              samples=[docs[0]['html'][:700]])
    feats = {}
    for d in docs:
        for f in d['feats']:
            feats[f] = feats.get(f, 0) + 1
    run.stream_info('monitor', documents=ndocs, histories=nhist, interpreters=len(jobs), renders=nsteps, keys=len(by_key),
                    keys_observed_more_than_once=multi, configurations=len(seen), features=feats,
                    rule='random documents (grammar above) x 2 option profiles; every key rendered once in a fresh interpreter under two of '
                         'PYTHONHASHSEED 0..3 and again inside histories of 2..6 renders (one HTML object re-rendered, one document, '
                         'alternating, mixed) with shared/fresh HTML, CSS, FontConfiguration, cache dict/DiskCache objects, write_pdf or '
                         'render+write, copy(all pages), 4 sinks, zoom; compared: PDF bytes (sha256), layout fingerprints (exact), '
                         'exception sites; snapshots of HTML tree / CSS objects / options / font configuration / module state')
    return docs


def check(run):
    rng = random.Random(run.seed * 7919 + 19)
    thorough = run.tier == 'thorough'
    k = 8 if thorough else 1
    stream_monitor(run, rng, 24 * k, 96 * k, 16 * (4 if thorough else 1))


def replay(data):
    return 0
